"""C03 entry for driver/props.py (merged by the maintainer).

Two runs of the same sub-command: `mon_state` built with pest's `memchr` feature and with
`--no-default-features` (no memchr; `no_default_features=True` tells the driver to pass that flag
to cargo). Both runs see the same random stream; every shard report carries
`notes.digest_chain = {programs, chain, complete, checkpoints:[[n, chain_after_n], ...]}` (a hash
over every real snapshot of every program of that shard), to be compared between the two runs
shard by shard (equal `programs` => equal `chain`; if one run stopped early compare the last
common checkpoint).
"""

SPEC = dict(
    runs=[
        dict(bin="mon_state", sub="c03", features="", config="memchr"),
        dict(bin="mon_state", sub="c03", features="", config="no-memchr", no_default_features=True),
    ],
    rule=("random PROGRAMS: trees (depth <= 6, <= 40 nodes) of calls to every public operation of pest::ParserState - sequence, optional, "
          "repeat, lookahead(+/-), atomic(3 modes), rule(4 rules), stack_push, restore_on_err, plain and_then / or_else chains, match_string, "
          "match_insensitive, match_range, match_char_by(6 predicates), skip, skip_until(0-4 needles incl. empty, multi-byte, overlapping), "
          "start_of_input, end_of_input, stack_peek, stack_pop, stack_drop, stack_match_peek, stack_match_pop, stack_match_peek_slice(start/end "
          "in -7..7 or open, both directions), stack_push_literal(borrowed and owned), tag_node, and the closures |s| Ok(s) / |s| Err(s) - run "
          "through pest::state on random inputs of <= 16 chars over {a B c e-acute euro balloon newline} (1/2/3/4-byte chars; literals also use "
          "the other ASCII case and E-acute). repeat bodies are generated so that success implies progress (every operation is position-monotone), "
          "pest::set_call_limit(200000) is a backstop. Each program is first evaluated by a naive functional MODEL of the documented contracts "
          "(states are values; sequence/lookahead return the caller's copy, restore_on_err the caller's stack, optional/repeat/rule/atomic/"
          "stack_push keep what the body left), then executed on the real ParserState with the hook verif_snapshot() taken before and after "
          "EVERY node: result, position, the whole token queue (kind, position, rule, tag, peer index), stack contents, lookahead mode and "
          "atomicity are compared with the model's trace entry (online; the first difference ends the run), the statement's direct assertions "
          "are checked on the real snapshots alone (failed sequence and every lookahead leave position/queue/stack identical; a rule adds exactly "
          "one Start/End pair with mutually pointing indices around what its body consumed iff Ok outside lookahead/Atomic and nothing otherwise; "
          "every position and token position is a char boundary; primitives do not move on failure and never touch queue/stack they do not own), "
          "position()/atomicity() must agree with the hook, Stack::verif_check_invariants() is asked after every node, panics are outcomes "
          "(stack_peek/stack_pop on an empty stack: documented panic predicted by the model; any other panic is a violation), and finally "
          "pest::state's own result (Ok -> pairs.tokens() stream, Err) is compared with the model's. evaluations = programs judged. A program is "
          "non-trivial when it executed >= 6 nodes of >= 3 distinct operation kinds and at least one restoring combinator had something to undo "
          "(a sequence that failed after its body changed position/queue/stack, a restore_on_err that failed after its body changed the stack, or "
          "a lookahead whose body moved or changed the stack); distinct = structural hashes of (program, input) (capped per shard: lower bound); "
          "behaviour_signatures = distinct (set of combinators that failed, primitive families used, what was undone, final outcome). "
          "Quick: 200,000 programs per configuration; thorough: 10,000,000. Shard 0 also runs six fixed regression programs (the repaired "
          "three-needle skip_until defect in two forms, a three-needle search whose third needle is the only hit, lookahead-with-push inside a failing "
          "sequence inside a repeat, match_insensitive ending inside a char, the canonical witness of the tag finding)."),
    level_text=("Exploration: the real ParserState/Position/Stack code is executed on generated call trees and inputs, in both feature "
                "configurations, while a copy-everything model of the documented contracts judges the complete state after every single call; "
                "the two builds' state digests are additionally compared with each other. It reaches all 24 state-transforming public operations (plus the position()/atomicity() accessors) in every nesting "
                "the generator emits up to depth 6 (counters per operation/outcome, lookahead nesting up to 4, up to 5 open stack checkpoints, "
                "skip_until with 0..4 needles), not all programs and not inputs longer than 16 chars."),
    level_note=("Trusted: the ~300-line model harness/mon_state/src/c03_model.rs (its header lists every reading of the documentation it makes) and the "
                "hook verif_snapshot(). Where the documentation is silent the model promises nothing: optional/repeat/rule/atomic/stack_push restore "
                "nothing; restore_on_err restores the stack only ('Currently, this method only restores the stack'); a failed emitting rule cuts the queue "
                "back to its entry length but a tag written by its body onto an earlier token stays; a failed rule in a NON-emitting mode leaves whatever "
                "tokens its body queued; stack_pop removes the element even when the match fails; stack_match_pop removes elements as it compares them and "
                "stops at the first mismatch ('will clear the stack as it evaluates'). The monitor explains one class of mismatch itself, key "
                "'c03-tag-node-survives-failed-sequence' (the failed sequence's before/after snapshots are identical once node tags are erased): it is "
                "reported through the known-findings channel and is a VIOLATION unless known_findings.jsonl lists that key as known for C03."),
    technique=("runtime monitoring: reference-model monitor (naive functional model of the ParserState contracts) + direct state assertions + stack "
               "invariant hook over generated API call trees, in two feature configurations with cross-build state-digest comparison; Miri layer in the thorough tier"),
    assumptions=[
        "programs are finite trees of depth <= 6 / <= 40 nodes; inputs have <= 16 chars over a 7-symbol alphabet (1- to 4-byte chars)",
        "repeat bodies that can succeed without consuming (a documented endless loop) are never generated; replayed hand-written ones are reported inconclusive, not run",
        "stack_peek/stack_pop on an empty stack panic by documented contract; that panic is a compared outcome (about 5% of the programs end that way)",
        "after the first difference (or explained finding) in a program the rest of that program is not judged",
        "error-reporting bookkeeping (attempt positions, expected/unexpected rule lists, parse attempts) is not part of C03 and is not compared (C08/C15 own it)",
        "the call limit is set (as a backstop only) in every run; a run that reached it would be inconclusive (never observed)",
        "Miri (thorough tier, to be wired by the driver): MIRIFLAGS=-Zmiri-disable-isolation cargo +nightly miri run --offline -p mon_state -- c03 "
        "--shard I --nshards 16 --seed S --tier quick --scale 0.0015 --out F  (about 19 programs per shard, ~0.7 s per program + ~8 s start-up)",
    ],
)
