"""Property table of the driver: which monitor runs decide which property."""

BOTH_CONFIGS = lambda sub, **kw: [  # noqa: E731
    dict(bin="mon", sub=sub, features="", config="default", **kw),
    dict(bin="mon", sub=sub, features="grammar-extras", config="grammar-extras", **kw),
]

import c02stage  # noqa: E402

PROPS = {
    "C02": dict(
        runs=[dict(kind="custom", fn=c02stage.stage, features="", config="default", mode="c02"),
              dict(kind="custom", fn=c02stage.stage, features="grammar-extras", config="grammar-extras", mode="c02")],
        rule=("grammars from G(full) plus the families the property names (WHITESPACE/COMMENT of each of the five modifiers; user rules named "
              "ASCII_DIGIT/NEWLINE/LETTER/ASCII/NUMBER/HAN; stack ops; built-in and Unicode rules; three eighths of the grammars biased to what the optimizer "
              "hands to the two back-ends: scan-until shapes with 3-7 stop strings that contain one another in atomic rules, branches over stack-changing "
              "bodies such as PUSH(POP)?, concatenated literals) accepted by parse_and_optimize - half of them in a fuzzed spelling (raw control characters "
              "and CR LF inside literals, comments, CRLF line ends), 640 per configuration and round - are compiled by "
              "the working tree's #[derive(Parser)] (16 generated crates of #[grammar_inline] modules, dev profile) and every (rule, input) is "
              "parsed by both back-ends in one process: identical token streams (and, under grammar-extras, identical node tags) on success; "
              "identical error position and identical SETS of expected/unexpected rule names on failure; panics compared as an outcome; a grammar whose "
              "generated parser rustc refuses is a violation of its own (attributed to its module, taken out, batch rebuilt). "
              "Non-trivial: non-empty input that parses, or a failing input of >= 2 bytes; distinct = (grammar, rule, input) hashes."),
        level_text=("Exploration: the real code generator output is compiled and executed next to the real VM on the same grammars and inputs; "
                    "equality of the two results is the oracle. Reach is bounded by compile cost (a few hundred grammars per quick run)."),
        level_note="Trusted: nothing beyond the comparison itself; grammar names that are not legal raw identifiers (self, crate, super, Self) are not generated.",
        technique="runtime monitoring: differential execution of derive-generated parsers and the interpreting VM over generated grammars (compiled at check time), both feature configurations",
        assumptions=["error rule lists are compared as sets (the two back-ends order rules differently by construction)"],
    ),
    "C01": dict(
        runs=BOTH_CONFIGS("c01"),
        rule=("random grammars (generator G, profile full: all operators, modifiers, built-ins, stack ops, WHITESPACE/COMMENT) "
              "accepted by parse_and_optimize x every rule as start rule x inputs (all strings over the grammar's alphabet up to a "
              "length bound + derivation walks + mutants); each case runs the reference interpreter REF on the unoptimized AST and "
              "pest_vm on the optimized rules and compares success, token stream and end position. A case is non-trivial when REF "
              "visited >= 3 distinct operator kinds and the input is non-empty; distinct = distinct (grammar, rule, input) hashes "
              "(capped per shard, so a lower bound); behaviour_signatures = distinct (operator set, outcome, backtracked, skipped) tuples."),
        level_text=("Exploration: the real meta-parser, optimizer and VM are run on generated grammars and inputs while a reference interpreter "
                    "of the documented semantics judges every result. It reaches every operator/modifier/built-in combination the generator emits and "
                    "all short inputs per grammar, not all grammars; the evidence reports what was observed."),
        level_note="Trusted: the reference interpreter and the printer; pest_meta's reader is used to obtain the AST (C07 checks it separately).",
        technique="runtime monitoring: differential oracle (reference PEG interpreter) over generated grammar x input workloads, both feature configurations",
        assumptions=[
            "REF (harness/vmon/src/reference.rs) is the executable reading of the crate documentation; e{m,n} forms are read as the documented unrolled sequences",
            "grammars rewritten by the list pass are set aside here (C05 carries that rewrite as a known finding)",
            "cases the reference marks divergent or over budget are excluded and counted",
            "node tags are not compared (no normative prose); `!`-modified WHITESPACE/COMMENT and user rules named like built-ins are left to C02",
        ],
    ),
    "C05": dict(
        runs=BOTH_CONFIGS("c05"),
        rule=("random grammars (generator G, profile full, biased to the shapes each pass rewrites and to branching over stack-mutating "
              "children) x every start rule x inputs (all strings over the grammar's alphabet up to a length bound + walks + mutants). "
              "Per case: (a) for every pass that rewrote the grammar, REF(before) vs REF(after) incl. final stack; (b) pest_vm over the "
              "whole pipeline vs REF(unoptimized) incl. the final stack (hook H1c); (c) on disagreement, re-run with single passes left out. "
              "Non-trivial: some pass (or the restorer) rewrote the grammar, REF visited >= 3 operator kinds, input non-empty; "
              "distinct = (grammar, rule, input) hashes (capped per shard: lower bound)."),
        level_text=("Exploration: every optimizer pass is executed for real on generated grammars and judged by the reference interpreter at "
                    "the semantics level, and the complete pipeline is judged on the real engine including the final stack, exhaustively over "
                    "short inputs per grammar. Reach is the generator's grammar space, not all grammars."),
        level_note="Trusted: the reference interpreter (incl. its definition of Expr::Skip) and hook H2 (pass functions re-exported unchanged).",
        technique="runtime monitoring: per-pass and whole-pipeline differential oracle (reference interpreter) with pass attribution, both feature configurations",
        assumptions=[
            "the `unroll` pass cannot be left out in attribution (to_optimized requires it)",
            "known findings are explained, not pattern-matched: lister only if the pass did exactly the documented rewrite and omitting it removes the disagreement; e+ only if reading e+ as e ~ e* removes it",
        ],
    ),
    "C06": dict(
        runs=BOTH_CONFIGS("c06"),
        rule=("Part A: stack-free grammars from three families (rule cycles r0->..->r0 through every leftmost/non-leftmost operator context; "
              "repetitions and implicit WHITESPACE/COMMENT over possibly-empty bodies; generator G(no-stack) with 45% unconstrained leftmost "
              "references); every grammar pest ACCEPTS is parsed by the VM from every rule on all strings up to a length bound over its alphabet "
              "while online monitors watch for a rule re-entered at the same position with the same atomicity (hook H3 + VM listener abort) and "
              "for a repeat iteration that does not move (hook H1c). Part B: G(guarded) grammars, which satisfy the statement's premise by "
              "construction, must be accepted. evaluations = monitored parses + acceptance checks; distinct non-trivial = distinct accepted "
              "grammar texts (A) and distinct guarded grammar texts (B)."),
        level_text=("Exploration: the validator's verdict is confronted with what actually happens at run time (A) and with grammars that are "
                    "well-formed by construction (B). Non-termination is detected from hook events in logical time (never from a wall clock); a call "
                    "limit bounds each parse and reaching it is inconclusive."),
        level_note="Trusted: the re-entry criterion (same rule, position and atomicity => the deterministic stack-free evaluation repeats forever) and the generator's guarded profile as an encoding of the premise.",
        technique="runtime monitoring: online trace monitors (rule re-entry without progress, non-advancing repetition) on the real VM over validator-accepted grammars; acceptance oracle on premise-satisfying grammars",
        assumptions=[
            "re-entry at the same position with a DIFFERENT atomicity terminates (atomicity can change at most twice) and is not flagged",
            "grammars with tags on silent/built-in rules are not generated for part B (rejected for a documented, unrelated reason)",
            "known finding c06-left-recursion-through-implicit-skip is explained only when the references written in the grammar form no leftmost cycle",
        ],
    ),
    "C07": dict(
        runs=BOTH_CONFIGS("c07"),
        rule=("abstract rule sets from G(guarded + stack ops, wide literal alphabet incl. quotes, backslashes, NUL, CR/LF, Latin-1, astral and "
              "boundary code points, repetition counts up to 40, PEEK slices, with extras PUSH_LITERAL and tags) printed in spelling-fuzz mode: "
              "random whitespace / CRLF / line / nested block comments at every token boundary the meta-grammar allows (inside {m , n}, "
              "PEEK [ a .. b ], after ^, around ..), doc comments, leading |, redundant parentheses, only-necessary parentheses otherwise "
              "(left-nested chains bare, right-nested parenthesised), each literal character raw or as \\n \\xHH \\u{H..}; read back with "
              "parser::parse + consume_rules and compared with the rules printed. Non-trivial: >= 3 expression kinds and at least one spelling "
              "feature (comment, escape, nested parens, CRLF); distinct = distinct texts."),
        level_text=("Exploration: the real meta-parser and AST builder are run on generated concrete spellings of known abstract grammars; equality "
                    "with the abstract grammar is the oracle, so precedence, associativity, unescaping, counts and slice indices are all decided by "
                    "the round trip."),
        level_note="Trusted: the printer (harness/vmon/src/print.rs) as the statement of pest's concrete syntax.",
        technique="runtime monitoring: round-trip oracle (print with fuzzed legal spelling, read back, compare ASTs), both feature configurations",
        assumptions=["grammars the validator rejects are counted, not judged (C06 owns acceptance)"],
    ),
    "C09": dict(
        runs=BOTH_CONFIGS("c09", timeout_is_violation="reading, validating and optimizing a text of at most 4 KiB returns in bounded time"),
        rule=("texts <= 4 KiB: (i) char- and token-level mutants (truncate, delete/insert/replace chars, splice tokens such as PEEK[, {0}, "
              "\\u{110000}, ^, #t =, unbalanced delimiters, out-of-range numbers up to 2^70 in PEEK[..], duplicated/deleted segments) of every "
              ".pest/.grammar file in the repository; (ii) the same mutants of printed generator grammars (canonical and fuzzed spelling); "
              "(iii) random strings and random token sequences over the meta-grammar's alphabet. Each text goes through parse_and_optimize and, "
              "when the syntax stage accepts it, pest_generator::docs::consume, under set_call_limit(300000). Oracle: no panic; a non-empty "
              "error list on failure; every error location is an ordered pair of char boundaries inside the text; Display and "
              "renamed_rules(rename_meta_rule) render. Non-trivial: text >= 8 bytes; distinct = distinct texts; signatures = (outcome class, "
              "mutation kind, source)."),
        level_text=("Exploration: the real front-end is run on hostile near-miss grammars while the monitor watches for panics and checks every "
                    "returned error. Time is bounded in logical steps by the repository's own call-limit mechanism."),
        level_note="Texts whose repetition counts exceed 64 or multiply beyond 50,000 are outside the statement's premise (bounded counts) and are skipped and counted.",
        technique="runtime monitoring: panic/abort monitor and error-location checker over mutated real grammars, mutated generated grammars and random token strings, both feature configurations",
        assumptions=["the unmodified corpus files fuzzsample*.grammar are fed only as mutation bases (fuzzsample2 is a known exponential-backtracking input that the call limit cuts short)"],
    ),
    "C12": dict(
        runs=[dict(bin="mon", sub="c12", features="", config="default")],
        rule=("random grammars (G full) x every start rule x inputs (short exhaustive + walks + mutants, <= 24 bytes): the unlimited result and "
              "the number N of combinator calls it needs (hook H1c final snapshot), then one parse under EVERY limit 1..N+3 (N <= 400). Oracle: each "
              "limited result equals the unlimited one or is the `call limit reached` error, and once equal it stays equal for every larger "
              "limit; CallRefused hook events confirm the limit really tripped. evaluations = limited parses. Non-trivial: N >= 8 and at least "
              "one limit tripped; distinct = (grammar, rule, input) hashes."),
        level_text=("Exploration with a complete sweep of the limit value per case: the real engine is run under every limit from 1 to beyond what "
                    "the parse needs, so every point at which a refusal can be absorbed by a combinator is exercised for that case."),
        level_note="Process-global knob: each shard is a single-threaded process. Cases whose unlimited parse panics (documented POP/PEEK on an empty stack) are skipped and counted.",
        technique="runtime monitoring: exhaustive sweep of the call limit per (grammar, input) with result-equality and monotonicity oracle, refusal events from hooks",
        assumptions=["cases the reference interpreter cannot finish are not parsed without a limit"],
    ),
    "C15": dict(
        runs=[dict(bin="mon", sub="c15", features="", config="default")],
        rule=("random grammars (G full) x every start rule x inputs (short exhaustive + walks + mutants): the same VM parse with "
              "set_error_detail(false) and (true). Oracle: identical success / tokens / error position / positives / negatives / line-col; no "
              "panic that the plain parse does not have; with the flag on, parse_attempts().max_position is a char boundary within the input and "
              "parse_attempts_error(..) and its Display render. Non-trivial: a failing parse that recorded attempt information on a non-empty "
              "input, or a successful parse of >= 2 bytes; distinct = (grammar, rule, input) hashes."),
        level_text=("Exploration: every generated parse is executed twice on the real engine, flag off and on, and compared field by field; the "
                    "extra attempt information is checked for well-formedness and renderability."),
        level_note="Process-global flag: each shard is a single-threaded process. Documented panics (POP/PEEK on an empty stack) must occur in both runs.",
        technique="runtime monitoring: differential oracle over the error-detail flag (same parse, flag off vs on) plus well-formedness checks of the recorded attempts",
        assumptions=["cases the reference interpreter cannot finish are skipped and counted"],
    ),
    "C08": dict(
        runs=BOTH_CONFIGS("c08") + [dict(kind="custom", fn=c02stage.stage, features="", config="derive-default", mode="c08",
                                         grammars={"quick": 96, "thorough": 256}, rounds={"quick": 1, "thorough": 6})],
        rule=("random grammars (G full, up to 6 rules) x every start rule x inputs (short exhaustive + walks + mutants) on which the parse "
              "FAILS: the RuleEnter/RuleExit log of the real parse (hook H1c: rule, start position, ok, lookahead polarity, atomicity at exit) "
              "is rebuilt into activations and an offline checker decides the statement clause by clause: (1) reported position = furthest "
              "start of a reportable activation that failed or matched under negation, 0 if none; (2) every expected/unexpected rule has such "
              "an activation exactly there; (3) both lists strictly sorted; (4) the exact lists equal the fold in which a failing rule replaces "
              "what was recorded inside its own extent at that position unless exactly one entry was (both readings of `exactly one` accepted); "
              "plus location on a char boundary and line/column equal to the naive count. Non-trivial: >= 2 qualifying activations on a "
              "non-empty input; distinct = (grammar, rule, input) hashes."),
        level_text=("Exploration: every failing parse of the real engine is traced through hooks and judged offline against the statement's own "
                    "clauses, independently of how the engine keeps its attempt lists."),
        level_note="Trusted: hook H1c reports what ParserState::rule saw (add-only instrumentation) and the checker in harness/vmon/src/errcheck.rs.",
        technique="runtime monitoring: offline trace checker over hooked rule enter/exit event logs of failing parses, both feature configurations",
        assumptions=["silent rules and built-ins other than EOI never reach ParserState::rule and are not reportable, as the statement says",
                     "the derive back-end is traced by the same hook; it is exercised through C02's generated batch"],
    ),
    "C14": dict(
        runs=[dict(bin="mon_meta", sub="c14", features="", config="default",
                   build_failure_is_violation="meta/src/grammar.pest compiles with the working tree's generator and names the rules of the checked-in parser")],
        rule=("texts from C09's workload (mutants of every grammar file in the repository, mutants of printed generator grammars, random "
              "token strings; sub-rules also get short windows of those texts) x the meta-grammar's top rule and each of its 65 sub-rules: "
              "(1) pest_meta::parser::parse (checked-in grammar.rs), (2) pest_vm over parse_and_optimize(grammar.pest), (3) a parser derived at "
              "check time from grammar.pest by the working tree's generator; three-way equality of acceptance, token stream and error "
              "(position + rule-name sets), under a 300k call limit (hit => skipped and counted). Also: the rule set of grammar.rs equals the "
              "rule set of grammar.pest. Non-trivial: text >= 4 bytes; distinct = (rule, text) hashes."),
        level_text=("Exploration: the checked-in parser, the interpreted grammar file and a freshly generated parser are executed side by side on "
                    "valid, near-miss and arbitrary texts from every rule; any observable difference is a violation."),
        level_note="If grammar.pest no longer compiles with the working tree's generator the monitor cannot be built; that is reported as a violation of this property (the grammar file then denotes no parser).",
        technique="runtime monitoring: three-way differential execution (checked-in parser, VM over the grammar file, freshly derived parser) over mutated grammar texts, all meta-grammar rules as start rules",
        assumptions=["error rule lists are compared as sets"],
        engine="mon_meta",
    ),
}

HOOK_COMMITS = [
    "04c7ae5 verif hooks: pest event sink, state snapshot, stack invariants",
    "afb20fe verif hooks: expose optimizer passes one by one",
    "1611280 verif hooks: VM rule enter/exit guard",
    "23f5bf4 verif hooks: debugger schedule points and event log",
    "30349aa verif hooks: stack invariant bounds an outer snapshot's remained by the next snapshot, not the live stack",
    "14445b0 verif hooks: VM rule guard keys re-entry on (rule, position, atomicity)",
    "9af9140 verif hooks: lookahead enter/exit events",
]

NOT_YET = {}

# monitors delivered as separate spec files
import glob as _glob
import importlib.util as _ilu
import os as _os

for _f in sorted(_glob.glob(_os.path.join(_os.path.dirname(_os.path.abspath(__file__)), "props_c*.py"))):
    _id = _os.path.basename(_f)[len("props_"):-3].upper()
    _spec = _ilu.spec_from_file_location("props_" + _id, _f)
    _m = _ilu.module_from_spec(_spec)
    _spec.loader.exec_module(_m)
    PROPS[_id] = _m.SPEC


def _c03_post(reports_by_run, pid):
    """memchr and no-memchr builds must behave identically: same per-shard digest chain over all programs."""
    out = []
    a = {r.get("shard"): r for r in reports_by_run.get("memchr", [])}
    b = {r.get("shard"): r for r in reports_by_run.get("no-memchr", [])}
    for sh in sorted(set(a) & set(b)):
        da, db = a[sh].get("notes", {}).get("digest_chain"), b[sh].get("notes", {}).get("digest_chain")
        if da is not None and db is not None and da != db:
            out.append({"property": pid, "kind": "memchr_and_no_memchr_builds_differ", "shard": sh,
                        "expected": {"no-memchr digest chain": db}, "observed": {"memchr digest chain": da},
                        "note": "replay the shard with both builds to find the first differing program"})
    return out


if "C03" in PROPS:
    PROPS["C03"]["post"] = _c03_post

# thorough-tier sanitizer / interpreter layers (same monitors, small slices of the workload)
import sanstage  # noqa: E402

# the bundled real-world grammars (derive-compiled) as an additional workload
PROPS["C15"]["runs"].append(dict(bin="mon_fixed", sub="c15g", features="", config="bundled-grammars"))
PROPS["C08"]["runs"].append(dict(bin="mon_fixed", sub="c08g", features="", config="bundled-grammars"))
PROPS["C12"]["runs"].append(dict(bin="mon_fixed", sub="c12g", features="", config="bundled-grammars"))
for _p, _t in (("C15", "error-detail on/off comparison"), ("C08", "failure-report checker (derive back-end)"), ("C12", "call-limit sweep")):
    PROPS[_p]["rule"] += (" Additional workload: the bundled JSON/TOML/SQL/HTTP grammars (pest_grammars, derive-compiled from the working tree) on "
                          "documents produced by derivation walks over their grammar files plus mutants: " + _t + ".")

PROPS["C03"]["runs"].append(dict(kind="custom", fn=sanstage.miri_stage, bin="mon_state", sub="c03", config="miri", thorough_only=True,
                                 shards=16, scale=0.0015))
PROPS["C04"]["runs"].append(dict(kind="custom", fn=sanstage.miri_stage, bin="mon", sub="c04", config="miri", thorough_only=True,
                                 shards=16, scale=0.002))
PROPS["C11"]["runs"].append(dict(kind="custom", fn=sanstage.miri_stage, bin="mon", sub="c11", config="miri", thorough_only=True,
                                 shards=16, scale=0.02, extra=["--max-len", "5"]))
PROPS["C17"]["runs"].append(dict(kind="custom", fn=sanstage.tsan_stage, bin="mon_dbg", sub="c17", config="tsan", thorough_only=True,
                                 shards=8, scale=1.0))
