"""Property table of the driver: which monitor runs decide which property."""

BOTH_CONFIGS = lambda sub, **kw: [  # noqa: E731
    dict(bin="mon", sub=sub, features="", config="default", **kw),
    dict(bin="mon", sub=sub, features="grammar-extras", config="grammar-extras", **kw),
]

PROPS = {
    "C01": dict(
        runs=BOTH_CONFIGS("c01"),
        rule=("random grammars (generator G, profile full: all operators, modifiers, built-ins, stack ops, WHITESPACE/COMMENT) "
              "accepted by parse_and_optimize x every rule as start rule x inputs (all strings over the grammar's alphabet up to a "
              "length bound + derivation walks + mutants); each case runs the reference interpreter REF on the unoptimized AST and "
              "pest_vm on the optimized rules and compares success, token stream and end position. A case is non-trivial when REF "
              "visited >= 3 distinct operator kinds and the input is non-empty; distinct = distinct (grammar, rule, input) hashes "
              "(capped per shard, so a lower bound); behaviour_signatures = distinct (operator set, outcome, backtracked, skipped) tuples."),
        level_text=("Exploration: the real meta-parser, optimizer and VM are run on generated grammars and inputs while a reference interpreter "
                    "of the documented semantics judges every result. It reaches every operator/modifier/built-in combination the generator emits and "
                    "all short inputs per grammar, not all grammars; the evidence reports what was observed."),
        level_note="Trusted: the reference interpreter and the printer; pest_meta's reader is used to obtain the AST (C07 checks it separately).",
        technique="runtime monitoring: differential oracle (reference PEG interpreter) over generated grammar x input workloads, both feature configurations",
        assumptions=[
            "REF (harness/vmon/src/reference.rs) is the executable reading of the crate documentation; e{m,n} forms are read as the documented unrolled sequences",
            "grammars rewritten by the list pass are set aside here (C05 carries that rewrite as a known finding)",
            "cases the reference marks divergent or over budget are excluded and counted",
            "node tags are not compared (no normative prose); `!`-modified WHITESPACE/COMMENT and user rules named like built-ins are left to C02",
        ],
    ),
}

HOOK_COMMITS = [
    "04c7ae5 verif hooks: pest event sink, state snapshot, stack invariants",
    "afb20fe verif hooks: expose optimizer passes one by one",
    "1611280 verif hooks: VM rule enter/exit guard",
    "23f5bf4 verif hooks: debugger schedule points and event log",
]

NOT_YET = {}
