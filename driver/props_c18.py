"""C18 entry for driver/props.py (merged by the maintainer)."""

SPEC = dict(
    runs=[dict(bin="mon_fixed", sub="c18", features="", config="default")],
    rule=("Every text is parsed by pest_grammars::json::JsonParser (Rule::json, derive-compiled from the working tree) and by a recursive-descent "
          "recognizer written from the ABNF of RFC 8259, which also lists the pairs the tree must hold, in pre-order with byte spans: "
          "json 0..len > value > object|array|string|number|bool|null, object > pair*, pair > string + value, array > value*, then EOI len..len. "
          "Accept/reject and the flattened (rule, start, end) list must agree exactly; a panic is a mismatch. Texts: (1) every string of length "
          "<= 4 (quick: 168,421) / <= 5 (thorough: 3,368,421) over the 20 symbols { } [ ] , : \" \\ 0 1 - + . e E t r u space LF (index i on shard "
          "i % nshards); (2) random valid documents (objects, arrays, nesting to depth 200, strings with every escape, \\uXXXX incl. surrogate pairs "
          "and lone surrogates, 1-4 byte characters, numbers of every form, all four whitespace characters); (3) two one-mutation near-misses per "
          "document from 32 mutation kinds (leading zero, bare '-', '+1', '.5', '1.', '1e', hex/underscore/non-ASCII digits, trailing/extra/missing "
          "comma, single quotes, raw U+0000-U+001F in a string, bad escapes, short \\u, truncated/miscased literals, duplicate/missing colon, "
          "NaN/Infinity, BOM, trailing garbage, truncation, unterminated string, unquoted/non-string key, comments, non-JSON whitespace, wrong "
          "closer, empty text, whitespace inside a token, random edit). Totals: 300,000 (quick) / 30,000,000 (thorough) texts over all shards. "
          "evaluations = texts judged. A text is non-trivial when it has >= 3 bytes and is accepted (>= 3 pairs) or is a near-miss (rejected, one "
          "mutation away from an accepted text); distinct = hashes of such texts (capped per shard: lower bound); behaviour_signatures = distinct "
          "(family, mutation kind, verdict, set of value kinds, depth bucket)."),
    level_text=("Exploration with a completely enumerated sub-space: the real generated parser is run on every short string over a JSON alphabet, "
                "on random documents of every shape and on their near-misses, while an RFC 8259 recognizer judges acceptance and the exact tree. "
                "Longer texts are covered as sampled, not all strings."),
    level_note=("Trusted: the recognizer in harness/mon_fixed/src/c18.rs. It is itself cross-checked against serde_json on every text outside "
                "serde_json's documented differences (accepted documents nested deeper than 100, lone surrogate escapes, numbers beyond f64 range: "
                "counted in self_check_skipped:*); a disagreement there is reported as inconclusive (oracle_self_check_failed), never as a violation."),
    technique="runtime monitoring: differential oracle (hand-written RFC 8259 recognizer with expected token tree, self-checked against serde_json) over bounded-exhaustive, random and near-miss texts",
    assumptions=[
        "RFC 8259's grammar is the reference: a lone surrogate escape such as \"\\ud800\" is a JSON text (section 7 grammar; section 8.2 only warns), a byte order mark is not (section 8.1)",
        "expected tree shape follows json.pest's rule names: `pair` for a member, its key a `string` directly under it, `bool` for true/false; string and number have no children (atomic rules), WHITESPACE is silent",
        "the json pair spans the whole text including surrounding whitespace (SOI..EOI); every other pair spans exactly its token or construct",
        "texts are Rust strings, so ill-formed UTF-8 is outside the workload",
        "a mismatch is downgraded to a known finding only when known_findings.jsonl lists a key whose predicate (coded in c18.rs::explained_by) holds for the concrete text; none exists at the time of writing",
    ],
    exhaustive={"quick": True, "thorough": True},
    exhaustive_note=("all strings of length <= 4 (quick: 168,421) / <= 5 (thorough: 3,368,421) over the 20-symbol alphabet "
                     "{ } [ ] , : \" \\ 0 1 - + . e E t r u space LF; a shard that hits its time budget before finishing reports inconclusive"),
)
