"""C11 entry for driver/props.py (merged by the maintainer)."""

SPEC = dict(
    runs=[dict(bin="mon", sub="c11", features="", config="default")],
    rule=("(a) every operation history of length <= 8 (quick) / <= 10 (thorough) over {push(fresh unique String), pop, snapshot, "
          "clear_snapshot, restore}, enumerated completely (sharded by the first three operations) and (b) random histories of 300 "
          "operations with snapshot nesting up to 20, biased to pops below the snapshot line, nested clear_snapshot after such pops and "
          "restore after clear_snapshot. pest::Stack<String> and the naive model of the statement (a Vec plus a stack of full copies) are "
          "advanced in lock step; after EVERY operation the monitor compares pop's result, len(), is_empty(), peek(), the full contents via "
          "stack[0..len], the number of open snapshots and the hook verif_check_invariants(); each history runs under catch_unwind. "
          "evaluations = distinct histories judged (every prefix of an enumerated history counts once). A history is non-trivial when it "
          "contains a snapshot, a pop of an element pushed before the then innermost snapshot, and a later restore/clear_snapshot that closes "
          "a snapshot; distinct = hashes of such histories (capped per shard: lower bound); behaviour_signatures = distinct sets of "
          "{operation outcomes incl. pop-on-empty / restore- and clear-without-snapshot, pop below the line, re-push over popped originals, "
          "nested clear after pop below, restore after clear, restore after pop below, nesting depth >= 2/3/5}."),
    level_text=("Exploration with a completely enumerated sub-space: the real Stack is run on every history up to the stated length and on "
                "random long, deeply nested histories while the copy-everything model of the statement judges every intermediate state. "
                "Beyond length 10 the evidence is the random histories that were run, not all histories."),
    level_note=("Trusted: the 30-line model in harness/mon/src/c11.rs. The hook verif_check_invariants() is an extra alarm, not the oracle: "
                "its complaint `remained > cache` about a NON-innermost snapshot contradicts the field documentation ('still in next snapshot "
                "or current state') and is treated as a false alarm of the hook (counted in hook_false_alarm:*; the documented bookkeeping is then "
                "re-checked from the Debug rendering of the stack)."),
    technique="runtime monitoring: reference-model monitor (naive copy-on-snapshot stack) + invariant hook over bounded-exhaustive and random operation histories",
    assumptions=[
        "element values are fresh unique strings, so the monitor identifies elements by value; aliasing of equal elements is not exercised",
        "peek and the contents read are checked after every operation instead of being enumerated as separate (non-mutating) operations",
        "extensions of a history that already deviated are skipped in the enumeration (they would repeat the same witness)",
        "the invariant hook's message about an outer snapshot's `remained` exceeding the live length is not a finding (see level_note)",
    ],
    exhaustive={"quick": True, "thorough": True},
    exhaustive_note=("all histories over the five mutating operations {push, pop, snapshot, clear_snapshot, restore} of length <= 8 (quick: "
                     "488,281 histories) / <= 10 (thorough: 12,207,031 histories), each judged after every operation; a shard that hits its "
                     "time budget before finishing reports inconclusive instead"),
)
