"""C17 entry for driver/props.py (merged by the maintainer)."""

# The CLI sub-workload needs the command-line binary of the working tree: `prebuild` makes the driver build it
# (cargo build --release --offline --manifest-path /repo/debugger/Cargo.toml --bin pest_debugger) and pass
# `--cli <path>` to every shard and to --replay of a {"cli": true, ...} witness.
SPEC = dict(
    runs=[dict(bin="mon_dbg", sub="c17", features="", config="default", shards=16,
               prebuild=[dict(manifest="/repo/debugger/Cargo.toml", bin="pest_debugger", opt="cli")])],
    rule=("A case is one HISTORY: (grammar, input, controller operation sequence, delay seed). Grammars: generator G, profile no-stack, <= 4 rules, "
          "accepted by parse_and_optimize, plus three hand-written ones (the grammar of the debugger's own tests among them); every rule can be a "
          "start rule; inputs from vmon::inputs::inputs_for; a (rule, input) pair is used only if the reference interpreter finishes on it within "
          "50,000 steps and the plain parse enters <= 400 rules, so a parse cannot hang by itself. The controller drives the real "
          "pest_debugger::DebuggerContext the way debugger/src/main.rs does (a fresh sync_channel(1) per run; the previous receiver is kept until run "
          "has returned) with operations {add_breakpoint, delete_breakpoint, add_all, delete_all, run(rule), recv (blocking, 10 s), cont, probe "
          "(wait 0-2000 us, then try_recv), pause, wait_exit, noise(n), run_while_busy}: breakpoint sets are the empty set, all rules, random subsets of the rules the parse "
          "enters (user, silent and built-in rules such as ANY/EOI/ASCII_DIGIT) and names that never occur; edits happen before run, while stopped at "
          "a breakpoint and after the final event; cont is called once per received Breakpoint event (also before any run and after the end); run is "
          "called again only when every delivered event has been received: stopped at a breakpoint with no cont outstanding (re-run mid-parse) or "
          "after Eof/Error (re-run after end), up to 3 re-runs, possibly with another start rule; every history runs its last session to the end. "
          "NOISE: in one history in five (and in every history of batches over a hand-written many-entries grammar `chunk = { a* ~ b } list = { chunk* }`, "
          "and in one of the fixed histories) almost every run/cont is followed, BEFORE the matching recv, by a block of n in {100,300,1000,2000} rounds of "
          "outcome-neutral breakpoint commands in a tight loop - list_breakpoints(); add_breakpoint(\"__never_a_rule__\"); delete_breakpoint(\"__never_a_rule__\") - "
          "i.e. the controller takes the breakpoint lock again and again WHILE THE PARSE IS RUNNING; such histories use the (rule, input) pair with the most "
          "rule entries and large breakpoint sets (add_all) so that many stops follow each other; the expected event sequence is unchanged by construction "
          "and the exact-sequence oracle decides. SLOW-PARSE histories (2 per shard; thorough: one more every 5,000): grammar `x = { \"b\" }  r = { x ~ \"a\"* ~ x ~ x }`, "
          "input \"b\" + \"a\"*N + \"bb\" with N calibrated at run time so that the plain VM parse takes ~0.7 s (the listener is only called at rule entries, so "
          "the stretch is one long piece of parsing during which the parser cannot see a stop request); variant 1: add_breakpoint x; run r; recv Breakpoint(x,0); "
          "run r again while parked; variant 2: ...; cont; run x again AT ONCE (no recv: nothing can have been delivered yet; the executor looks once more with "
          "try_recv and degrades to an ordinary re-run if something is there); then the new session is driven to its end. For EVERY re-run: when run has "
          "returned, the previous parser thread's th_exit must be in the log (run_joined itself is not required); if it is not, the OLD receiver is kept and "
          "watched until it disconnects, a Breakpoint arrives, or 3 x (measured plain parse time) + 1 s (300 ms for ordinary histories) have passed, and what it "
          "delivered goes into the witness. "
          "CLI SUB-WORKLOAD (only with `--cli <path to the pest_debugger binary>`, built by the driver from the working tree; otherwise counted as "
          "cli_histories_skipped): 40 histories per shard (thorough 2,000), one spawned `pest_debugger --no-update` process per history, driven over stdin: "
          "`g <temp grammar file>`, `id <input>` (inputs without control characters or outer whitespace), then the API history generator's output restricted "
          "to what the command line can express (b, d, ba, da, r, c, l; r and c wait for their one event themselves), every command followed by `l`, whose "
          "`Breakpoints: ...` line delimits the command's output and must equal the model's sorted set. Judged with the same model: each r / c must print "
          "exactly the next expected report - a stop (compared: the `--> LINE:COL` and the `= parsing <rule>` it prints), `end-of-input reached`, the plain "
          "VM error text, `Error: Run rule first` before any run, and after the end `Error: End-of-input reached` or nothing (the inherent window); a restart "
          "typed while stopped must start the new session (the next reports are the new parse's); no `panicked at` / `Previous parsing execution panic` text "
          "on stdout or stderr. The front end's own `parsing timed out` (its 5 s wait) in place of a report is inconclusive, not a violation. Witness = "
          "{\"cli\": true, grammar, input, commands}. Counters: cli_histories, cli_commands, cli_reports_checked, cli_stops_checked, cli_conts, "
          "cli_restarts_while_stopped, cli_restarts_after_end. "
          "Each history runs under verif::reset(seed) with a fresh non-zero seed (1 in 10: seed 0 = no injected delays): hook H4 logs every named "
          "point of both threads with a global sequence number and then delays the calling thread (nothing / yield / 5-65 us spin / 50-350 us sleep / "
          "1-3 ms sleep); the controller writes its own records (call and return of run/cont, every received event, edits, probes) into the same log. "
          "One history in four is one of 8 FIXED histories (the two flows of the repository's tests, a step-through-everything-then-re-run flow, five "
          "generated ones) repeated with fresh delay seeds. ORACLE (offline, over the merged log): expected events of a session = the (rule, pos) "
          "entry sequence of a plain Vm::new_with_listener parse (listener records, returns false) filtered by the breakpoint set in force when each "
          "entry is reached (the set after all edits made before the cont that resumes towards it), then Eof or Error(plain error text); every "
          "received event must be the next expected one and the last session is checked to its final event; stop k of a session is reached "
          "(bp_before_send) only after cont k-1 was called, the park of stop k is left only after cont k or a re-run began its unpark, the final event "
          "is sent only after every stop was continued or the session was superseded; when a re-run returns the previous parser thread has logged th_exit; a probe between a received Breakpoint and its cont, or after "
          "the final event, finds nothing; run returns Ok and logs run_joined after run_has_handle; after a re-run the old channel holds no Breakpoint "
          "event (mid-parse: at most the aborted parse's own final event; after end: nothing) and the new channel carries exactly the new parse's "
          "events; cont before any run is Err(RunRuleFirst); cont after the end is Err(EofReached) once th_exit is logged (before that either answer "
          "is accepted: the window between the final send and is_done.store is inherent). HANGS are judged from the log: no log progress for 10 s and "
          "(controller inside run, parser's last point bp_after_send / bp_before_send / bp_after_park) = run does not terminate the previous session; "
          "(controller timed out in recv, parser's last point bp_after_send, the cont answering that stop completed its unpark) = lost wake-up; "
          "(parser's last point bp_before_send with everything sent already received) = event not delivered; any other stall is inconclusive. After a "
          "stall the shard writes its report and exits (a hung run() cannot be cancelled). evaluations = events compared + probes + judged cont "
          "answers. Non-trivial = a history with >= 2 delivered Breakpoint events and >= 1 cont; distinct = hashes of (grammar, rule, input, "
          "operation sequence incl. breakpoint edits); behaviour_signatures = distinct INTERLEAVINGS OBSERVED among non-trivial histories = hashes "
          "of the cross-thread order of all logged (thread role, point) pairs. Counters: histories, events_checked, conts, reruns_mid_parse, "
          "reruns_after_end, reruns_while_parser_busy_in_one_long_rule, slow_parse_histories, breakpoint_edits, probes, noise_blocks, noise_commands_issued, "
          "noise_commands_while_parser_on_its_way (commands of blocks that ended before the resumed parser logged its next bp_before_send / th_final_sent: a lower "
          "bound on the commands that overlapped a running parser; noise_blocks_* split the blocks into entirely-before / during / after that point), "
          "interleavings_distinct_in_shard (all histories, summed over shards), history_shapes_* (a shape "
          "= the pair of per-thread point sequences; shapes seen with >= 2 different merges), notes.fixed_histories_in_this_shard (distinct "
          "interleavings per fixed history), and window:* = how often a racy window was hit: by log order (e.g. cont_before_unpark logged before the "
          "parser's bp_after_send, re-run that found is_done still false after the final event, cont answered Ok between the final send and the "
          "is_done store) and '(proven)' = a controller action time-stamped earlier than [time of the last controller record logged before "
          "bp_after_send + the delay the plan injects at bp_after_send], i.e. cont / unpark / edit / re-run provably happened before the parser "
          "called thread::park (unpark-before-park, token kept): lower bounds."),
    level_text=("Exploration by schedule stress: the real two-thread debugger is driven through generated controller histories while seeded delays "
                "are injected at the hook points between its synchronisation operations, and an offline checker judges the globally sequenced event "
                "log of both threads against the plain-parse oracle. Interleavings are OBSERVED, not enumerated: what is covered is the set of "
                "cross-thread orders that the OS scheduler plus the delay plans actually produced (reported as a count of distinct orders and of "
                "racy windows hit), within the controller regime of the statement (one cont per received event, re-run only after everything "
                "delivered was received, channel capacity 1 as in main.rs and the tests)."),
    level_note=("Trusted: a plain listener-less VM parse observed through hook H3's VmRuleEnter events as the expected entry sequence (a listener-recorded trace only for the multi-megabyte slow-parse inputs, whose shape is cross-checked on a short input), hook H4's log (sequence numbers taken under the log's lock), "
                "the ~150-line offline checker and the hang classifier in harness/mon_dbg/src/c17.rs. Out of reach and not claimed: std::thread::park "
                "may wake spuriously by contract, but the Linux futex parker never does, so an execution in which a spurious wake-up lets the parser "
                "run past a breakpoint cannot be produced here; interleavings that neither the scheduler nor the delay plan produced; a re-run while "
                "a cont is outstanding (outside the statement's premise: the old parser may deliver one more event after the controller's last look; "
                "with capacity 1 its final send can then block while run() joins) and a rendezvous channel (capacity 0). A witness holds the history, "
                "the delay seed and the complete log; replay re-runs the history (20 times, varied seeds) and is best effort because the OS scheduler "
                "contributes. The monitor was shown to fire within one quick shard on five injected defects in a scratch copy: unpark before the "
                "is_done store in run (4-16 histories: second stop reached without a cont, then run() joined a parked parser), "
                "park_timeout(1 ms) instead of park (2-7 histories), listener without the is_done check (4-8 histories), event sent after parking "
                "(first history: breakpoint reached but event not delivered), and the pre-repair VM abort path (run answered PreviousRunPanic / "
                "old parse never ended); and on two independently seeded defects: the listener reading the breakpoint set with try_lock (a hit is "
                "skipped when the controller holds the lock: event_mismatch in a noisy history in all 16 shards, after 1-63 histories per shard) and "
                "run() detaching the previous session after 250 ms (previous_session_not_terminated_when_run_returned with the stale Breakpoint on the "
                "old channel in the witness, at the first slow-parse history of all 16 shards); and on three second-round seeded defects: delete_all "
                "replacing the shared set (event_mismatch after 1-8 API histories in all 16 shards), the VM dispatching reserved built-ins before the "
                "listener (breakpoints on ANY/EOI dropped: event_mismatch after 1-65 API histories in all 16 shards; the expected entry sequence comes from "
                "hook H3, not from a listener), and the CLI dropping the previous receiver before context.run (cli_report_mismatch `Error: Previous parsing "
                "execution panic` at every restart typed while stopped: first at CLI history 1-12 of every shard). Thorough tier: the same binary built with -Zsanitizer=thread (-Zbuild-std) runs ~2,000 histories as a "
                "secondary monitor for data races in the debugger's shared state and std's park/channel."),
    technique="runtime monitoring: schedule stress with seeded delay injection at cfg-guarded hook points + offline trace checker over a globally sequenced two-thread event log (plain VM parse observed through the VM's enter hook as oracle); a spawned command-line front end judged by the same model; ThreadSanitizer as a secondary layer in the thorough tier",
    assumptions=[
        "controller regime of the statement: cont once per received Breakpoint event; run again only when every delivered event was received (stopped with no cont outstanding, or after the final event); a new sync_channel(1) per run with the old receiver alive until run returns, as debugger/src/main.rs does",
        "breakpoint edits THAT CAN CHANGE THE OUTCOME are made only before run, between a received Breakpoint event and its cont, or after the final event, so the set in force at each rule entry is determined by the controller's own record order; while the parse is running only outcome-neutral commands are issued (list_breakpoints, add and delete of a name that is not a rule and that no parse enters)",
        "the slow-parse histories' re-run right after a cont relies on the calibrated stretch (>= 300 ms measured, else the variant is not run) being far longer than the controller's reaction time, so that nothing was delivered since the last received event; the executor still checks with try_recv, and a stall of such a re-run is inconclusive, never a violation",
        "when run returns, the previous parser thread must already have logged th_exit (the statement's 'starting a new run always terminates the previous one' read as: terminated by the time run has returned); the unchanged run() joins it, so this holds however long the old rule takes",
        "the CLI sub-workload observes only what main.rs prints; of a stop only the rule name and LINE:COL are compared (positions are byte offsets converted by the naive definition: inputs are single lines); it needs the driver to build the binary and pass --cli",
        "a plain parse that needs more than 1,000,000 calls or more than 200,000 hook events is excluded (counted), although the reference interpreter finished on it",
        "error texts longer than 600 bytes (they quote the whole input line) are compared by prefix, length and FNV-1a hash",
        "after a mid-parse re-run the aborted parse may still put its own final Eof/Error into the OLD channel; the statement does not speak about it and it is permitted (a Breakpoint there is a violation)",
        "cont after the final event must answer Err(EofReached) only once the parser thread's th_exit is logged; inside the window between the final send and is_done.store(true) either answer is accepted",
        "leaving thread::park before any cont/run began its unpark is counted as a violation (resumed_without_continue): such a resume always ends in a delivery nobody asked for; it cannot occur on Linux without a defect",
        "a stall is a violation only when the log shows one of the three named patterns; every other watchdog firing is inconclusive",
        "cases on which the reference interpreter diverges or exceeds its budget are excluded and counted",
        "the '(proven)' window counters recompute the hook's delay plan from debugger/src/lib.rs; they are evidence only and never decide a verdict",
    ],
)
