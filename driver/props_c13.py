"""C13 entry for driver/props.py (merged by the maintainer)."""

SPEC = dict(
    runs=[dict(bin="mon", sub="c13", features="", config="default")],
    rule=("A case is (operator table, well-formed token sequence `prefix* operand postfix* (infix prefix* operand postfix*)*`). Tokens are Pairs "
          "built with PairsBuilder (one rule per operator, one for operands; token i spans byte i, so a callback identifies the exact token it "
          "was handed). Per case the monitor builds the tree through the map_primary/map_prefix/map_postfix/map_infix callbacks of "
          "PrattParser (`.op(a | b | ..)` per level), of ConstPrattParser::new_const with N = number of operators (random part, 1 table in 4: "
          "additionally N padded with operators that never occur; 1 table in 5: additionally PrattParser and ConstPrattParser built from the "
          "same table written with 1-3 of its rules declared a second time earlier - lower level or earlier in the level, other kind - and judged "
          "only against each other; PrecClimber on every third table through PrecClimber::new_const with shuffled entries; 4 tables of the exhaustive family: additionally a `static` built with "
          "pratt_precedence! / a const array), and - on infix-only tables with one associativity per level - of the deprecated "
          "PrecClimber::climb, each under catch_unwind. Judged per parser: callbacks received the sequence's own pairs; in-order leaves are "
          "operand 0,1,2,..; every operator TOKEN occurs exactly once, in a node of its own kind; the tree equals the tree of an "
          "explicit-stack shunting-yard written from the statement (left power p; right power p for left-assoc infix, just below p for "
          "right-assoc infix and prefix; postfix applied at once; a prefix reduces nothing; on a tie the left operator keeps its operand). "
          "(a) EXHAUSTIVE: a fixed family of 1,068 three-level tables (4 static/macro tables with mixed levels; all 4^3 tables with one operator "
          "per level; all 10^3 tables with two operators per level = every unordered pair of kinds {prefix, postfix, infix-left, infix-right} "
          "per level) x every well-formed sequence of <= 7 tokens (3,311,078 cases, sharded by case index; thorough also runs <= 10 tokens on the "
          "first 68 tables and <= 8 on the rest: 13,432,204). (b) RANDOM: tables of 1-6 levels x 1-3 operators per level over 18 operator rules "
          "assigned in shuffled order (modes: any kind anywhere / PrecClimber domain / one kind per level / every level mixed), 25 sequences of "
          "1-40 tokens per table; quick 100,000 cases, thorough 10,000,000. evaluations = cases judged (each on 2-4 parsers; parser:* counters). "
          "Non-trivial = the sequence has >= 3 operators of >= 2 different precedence levels; distinct = hashes of (table, sequence) (capped "
          "per shard: lower bound); behaviour_signatures = distinct (kinds applied, prefix as right operand of an infix, right-assoc chain, "
          "mixed-level table, which parsers ran, log2 tree depth, number of levels used)."),
    level_text=("Exploration with a completely enumerated sub-space: the real PrattParser, ConstPrattParser and PrecClimber are run on every "
                "short well-formed sequence for every table of a fixed family that contains every combination of operator kinds per level "
                "(including different kinds and both associativities inside one level), and on random larger tables and sequences up to 40 "
                "tokens, while an independent shunting-yard and a structural check judge every tree. Tables with more than 3 levels, more "
                "than two operators per level, or sequences longer than 7 tokens are covered only as sampled."),
    level_note=("Trusted: the ~70-line shunting-yard oracle and the structural checker in harness/mon/src/c13.rs (the oracle's own tree must "
                "pass the structural check, else the case is inconclusive). The monitor was shown to fire on 7 injected defects in a scratch "
                "copy of pest (right-assoc with prec instead of prec-1; `rbp <= lbp`; prefix with prec; ConstPrattParser level assignment; "
                "ConstPrattParser::get skipping an entry; postfix ignoring its level; PrecClimber right-assoc test) within one quick shard; an "
                "eighth (PrecClimber `prec > min_prec`) makes pest loop forever and is surfaced through the per-case journal + driver watchdog."),
    technique="runtime monitoring: differential oracle (explicit-stack shunting-yard from the statement's binding-power rule) + structural invariants over bounded-exhaustive and random operator tables x token sequences",
    assumptions=[
        "only well-formed sequences are fed (pest documents panics for malformed ones); a panic on a well-formed sequence is a violation",
        "equal powers: an incoming operator of left power p does not take an operand away from a stacked operator of right power p (this is what makes `a - b - c` left-grouped); for mixed associativity inside a level it gives `(a L b) R c` and `a R (b L c)`",
        "a prefix operator of low precedence swallows a following higher-precedence infix (`-a^b` = -(a^b)) also when it is the right operand of a tighter infix (`a * -b + c` = a * (-(b + c)) when - is below +), because the statement compares the incoming operator only with the operator on top of the stack",
        "ConstPrattParser with extra operators that never occur in the sequence (padding) is taken to be 'the same table'",
        "in the tables judged against the shunting-yard an operator rule appears in exactly one level with one kind; for tables naming a rule twice the statement does not say which declaration counts, so there only `ConstPrattParser gives the same tree as PrattParser for the same table` is demanded (agreement with the last-declaration reading is counted, not judged)",
        "PrecClimber is judged only on infix-only tables whose levels each have a single associativity",
        "non-termination of a parser cannot be judged in-process: the case is journaled before it runs and left to the driver's watchdog (inconclusive)",
    ],
    exhaustive={"quick": True, "thorough": True},
    exhaustive_note=("the fixed family of 1,068 three-level tables (4 static/macro tables, all 64 one-operator-per-level kind assignments, all 1,000 "
                     "two-operators-per-level kind-pair assignments) x all 3,311,078 well-formed sequences of <= 7 tokens over each table's operators "
                     "(both tiers; thorough extends to <= 10 / <= 8 tokens, 13,432,204 cases); a shard that hits its time budget before finishing "
                     "reports inconclusive instead"),
)
