#!/usr/bin/env python3
"""Runs checks against a seeded change in an isolated sandbox.

  driver/seedtest.py <patch.diff> <ID> [<ID> ...] [--tier quick] [--seed N] [--keep]

The sandbox is a scratch worktree of /repo (HEAD) under /tmp/mut/repo plus a copy of /verif under
/tmp/mut/verif whose path dependencies point at that worktree, so that nothing else working
against /repo is disturbed. The patch is applied to the worktree, the named checks are run from
the sandbox copy, and the worktree is reset afterwards. Prints one line per check:
  SEED <patch> <ID> exit=<rc> violations=<n> first=<first VIOLATION/KNOWN line>
"""
import json
import os
import re
import shutil
import subprocess
import sys

MUT = os.environ.get("MUT_DIR", "/tmp/mut")
REPO = os.path.join(MUT, "repo")
VERIF = os.path.join(MUT, "verif")


def sh(cmd, **kw):
    return subprocess.run(cmd, shell=isinstance(cmd, str), stdout=subprocess.PIPE, stderr=subprocess.STDOUT, text=True, **kw)


def setup():
    os.makedirs(MUT, exist_ok=True)
    if not os.path.exists(os.path.join(REPO, ".git")):
        sh(["git", "-C", "/repo", "worktree", "prune"])
        r = sh(["git", "-C", "/repo", "worktree", "add", "--detach", REPO, "HEAD"])
        if r.returncode != 0:
            raise SystemExit(r.stdout)
    else:
        sh(["git", "-C", REPO, "checkout", "--detach", "-q", sh(["git", "-C", "/repo", "rev-parse", "HEAD"]).stdout.strip()])
        sh(["git", "-C", REPO, "checkout", "--", "."])
        sh(["git", "-C", REPO, "clean", "-fdq", "-e", "target"])
    # fresh copy of the verification tree (without build output), paths rewritten
    r = sh(["rsync", "-a", "--delete", "--exclude", "/target", "--exclude", "/.git", "--exclude", "/replay", "--exclude", "__pycache__", "/verif/", VERIF + "/"])
    if r.returncode != 0:
        raise SystemExit(r.stdout)
    for root, _dirs, files in os.walk(VERIF):
        if os.path.join(VERIF, "target") in root:
            continue
        for f in files:
            if f.endswith((".rs", ".toml", ".py", ".sh", ".jsonl")) or f == "check":
                p = os.path.join(root, f)
                try:
                    s = open(p).read()
                except Exception:
                    continue
                s2 = re.sub(r'(?<![\w/.])/repo(?=[/"\'\s)]|$)', REPO, s)
                s2 = re.sub(r'(?<![\w/.])/verif(?=[/"\'\s)]|$)', VERIF, s2)
                if s2 != s:
                    open(p, "w").write(s2)


def main():
    args = sys.argv[1:]
    keep = "--keep" in args
    args = [a for a in args if a != "--keep"]
    tier, seed = "quick", "1"
    if "--tier" in args:
        i = args.index("--tier")
        tier = args[i + 1]
        del args[i:i + 2]
    if "--seed" in args:
        i = args.index("--seed")
        seed = args[i + 1]
        del args[i:i + 2]
    patch, ids = os.path.abspath(args[0]), args[1:]
    setup()
    if patch != os.path.abspath("none"):
        r = sh(["git", "-C", REPO, "apply", patch])
        if r.returncode != 0:
            # HEAD moved under the patch (later hook/fix commits): three-way apply, then unstage
            r = sh(["git", "-C", REPO, "apply", "-3", patch])
            sh(["git", "-C", REPO, "reset", "-q"])
        if r.returncode != 0:
            print(f"SEED {patch} APPLY-FAILED {r.stdout.strip()[:300]}")
            return 2
    env = dict(os.environ, VERIF_SEED=seed, VERIF_TIER=tier)
    rc_all = 0
    for pid in ids:
        r = sh(["./check", pid, "--tier", tier], cwd=VERIF, env=env)
        lines = [l for l in r.stdout.splitlines() if l.startswith(("VIOLATION", "KNOWN-FINDING", "INCONCLUSIVE", "BUILD-FAILED"))]
        nviol = sum(1 for l in lines if l.startswith("VIOLATION"))
        first = ""
        for l in lines:
            if l.startswith("VIOLATION"):
                m = re.search(r"replay=(\S+)", l)
                if m and os.path.exists(m.group(1)):
                    try:
                        v = json.load(open(m.group(1)))
                        first = json.dumps({k: v[k] for k in v if k in ("grammar", "rule", "input", "text", "expected", "observed", "history", "kind", "layer", "pass", "part", "why", "limit")}, ensure_ascii=False)[:700]
                    except Exception:
                        pass
                break
        summary = r.stdout.strip().splitlines()[-1] if r.stdout.strip() else ""
        print(f"SEED {os.path.basename(os.path.dirname(patch))}/{os.path.basename(patch)} {pid} exit={r.returncode} violations={nviol} :: {summary[:200]}")
        if first:
            print(f"     witness: {first}")
        if r.returncode not in (0, 1):
            print("     " + "\n     ".join(r.stdout.strip().splitlines()[-6:]))
        rc_all = max(rc_all, r.returncode)
    if not keep:
        sh(["git", "-C", REPO, "checkout", "--", "."])
        sh(["git", "-C", REPO, "clean", "-fdq", "-e", "target"])
    return rc_all


if __name__ == "__main__":
    sys.exit(main())
