"""C10 entry for driver/props.py (merged by the maintainer)."""

SPEC = dict(
    runs=[dict(bin="mon", sub="c10", features="", config="default")],
    rule=("(a) every string of <= 5 (quick) / <= 6 (thorough) symbols over {'a','é','🎈','\\n','\\r','\\t'} x every byte offset 0..=len+1 "
          "(boundaries, non-boundaries, one past the end) x every offset pair, enumerated completely (sharded by string index); for strings of "
          "<= 6 bytes also every pair of valid spans for merge_spans; (b) random strings of up to 200 chars (1-4 byte chars, LF, CRLF, lone CR, "
          "tabs): all offsets and ~50 offset pairs each (random, glued to line starts/ends and the end of input, invalid). Per offset: "
          "Position::new/pos/line_col/line_of, Error::new_from_pos (.line_col, .location, Display). Per pair: Span::new and accessors, "
          "start_pos/end_pos/split line_col, Position::span, lines()/lines_span(), Pair::line_col through PairsBuilder (full-input LineIndex) and "
          "through a real pest::state parse (consumed-prefix LineIndex), Error::new_from_span (.line_col, .location, Display). Oracle: the naive "
          "definitions computed from scratch per offset. evaluations = offsets + offset pairs + span pairs judged. A text is non-trivial when it "
          "contains a line break and a multi-byte char; distinct = hashes of such texts; behaviour_signatures = distinct sets of {LF, CRLF, "
          "lone CR, empty line, tab, 2/3/4-byte char, ends with LF/CR, >= 3 lines}."),
    level_text=("Exploration with a completely enumerated sub-space: the real position/span/line-index/error code is run on every short string over an "
                "alphabet that contains each special case of the arithmetic (LF, CR, tab, 2- and 4-byte chars) at every offset and offset pair, "
                "and on random longer texts, while naive definitions judge every result. Longer texts are covered only as sampled."),
    level_note=("Trusted: the naive definitions in harness/mon/src/c10.rs. The rendering is judged only for what the statement names (no panic, line "
                "number, the line's text with CR/LF dropped or visualised, a `^` under the reported column, tabs repeated); continuation rows and the "
                "extent of the underline are observed and counted, not judged."),
    technique="runtime monitoring: reference-definition monitor (naive line/column/line-span arithmetic) over bounded-exhaustive and random texts x offsets",
    assumptions=[
        "'\\r' is an ordinary character and \"\\r\\n\" ends a line at its '\\n' (pinned by position::tests::line_col); line_of includes the terminating \"\\n\"",
        "lines()/lines_span(): the line starting exactly at `end` may or may not be yielded, and an empty span may yield nothing (docs silent; both counted)",
        "for the END of a span error that follows a '\\n' the convention pinned by display_custom_span_end_after_newline (reported on the newline's own line, one column past it) is accepted",
        "a `^` under the reported column is accepted even when a CR before the offset is not displayed (then it is not under the offset's character): counted in render:marker_under_reported_column_but_a_cr_before_it_is_not_displayed",
        "known findings (error rendering only) are downgraded only when their explaining predicate holds for the concrete case and known_findings.jsonl lists the key",
    ],
    exhaustive={"quick": True, "thorough": True},
    exhaustive_note=("all strings of length <= 5 (quick: 9,331 strings) / <= 6 (thorough: 55,987 strings) over the 6 symbols {a, é, 🎈, LF, CR, TAB} x all byte "
                     "offsets 0..=len+1 x all ordered and inverted offset pairs; a shard that hits its time budget before finishing reports inconclusive instead"),
)
