"""Driver stage for the generated derive batches (C02, and C08's derive back-end run).

emit (mon c02emit) -> cargo build of the generated workspace against the working tree's
pest_derive -> run the 16 batch binaries as shard processes -> collect their reports.
"""
import json
import os
import resource
import shutil
import subprocess
import time


def _limit(gib):
    def f():
        b = int(gib * (1 << 30))
        resource.setrlimit(resource.RLIMIT_AS, (b, b))
        resource.setrlimit(resource.RLIMIT_CORE, (0, 0))
    return f


def _failing_modules(ws, out):
    """(batch, grammar index, first error text) for every generated module a rustc error points into."""
    import re
    found = {}
    blocks = re.split(r"\n(?=error)", out)
    for blk in blocks:
        if not blk.startswith("error"):
            continue
        m = re.search(r"--> (b\d+)/src/main\.rs:(\d+):", blk)
        if not m:
            continue
        bi, line = m.group(1), int(m.group(2))
        try:
            lines = open(os.path.join(ws, bi, "src", "main.rs")).read().split("\n")
        except OSError:
            continue
        idx = None
        for k in range(min(line, len(lines)) - 1, -1, -1):
            mm = re.match(r"pub mod g(\d+) \{", lines[k])
            if mm:
                idx = int(mm.group(1))
                break
            if lines[k].startswith("fn main"):
                break
        if idx is not None and (bi, idx) not in found:
            found[(bi, idx)] = blk.strip()[:600]
    return [(bi, idx, err) for (bi, idx), err in found.items()]


def _remove_module(ws, bi, idx):
    """Takes grammar `idx` out of batch `bi` (module, entry, cases); returns its cases.json record."""
    import re
    mp = os.path.join(ws, bi, "src", "main.rs")
    src = open(mp).read()
    src = re.sub(rf"^pub mod g{idx} \{{\n.*?^\}}\n", "", src, flags=re.S | re.M)
    src = re.sub(rf"^\s*vmon::c02::Entry \{{ idx: {idx},[^\n]*\n", "", src, flags=re.M)
    open(mp, "w").write(src)
    cp = os.path.join(ws, bi, "cases.json")
    cases = json.load(open(cp))
    rec = next((g for g in cases["grammars"] if g["idx"] == idx), None)
    cases["grammars"] = [g for g in cases["grammars"] if g["idx"] != idx]
    json.dump(cases, open(cp, "w"))
    return rec


def stage(ctx):
    spec = ctx["spec"]
    features = spec.get("features", "")
    config = spec.get("config", "default")
    mode = spec.get("mode", "c02")
    tier = ctx["tier"]
    root, target, log = ctx["root"], ctx["target"], ctx["log"]
    exe = ctx["build"]("mon", features)
    rounds = spec.get("rounds", {"quick": 1, "thorough": 10})[tier]
    per_round = int(spec.get("grammars", {"quick": 640, "thorough": 640})[tier] * ctx["scale"]) or 16
    ws = os.path.join(target, "gen", config, "ws")
    tdir = os.path.join(target, "gen-target", config)
    reports, dead = [], []
    info = {"layer": f"generated derive batches ({config}, mode {mode})", "rounds": rounds, "grammars_per_round": per_round, "build_s": [], "run_s": []}
    max_s = spec.get("max_s", {"quick": 120, "thorough": 600})[tier]
    for rnd in range(rounds):
        seed = ctx["seed"] * 1000 + rnd
        os.makedirs(ws, exist_ok=True)
        r = subprocess.run([exe, "c02emit", "--seed", str(seed), "--out-dir", ws, "--n", str(per_round), "--batches", "16", "--target-dir", tdir,
                            "--vmon-dir", os.path.join(root, "harness", "vmon"), "--known", ctx["known"]],
                           cwd=root, stdout=subprocess.PIPE, stderr=subprocess.PIPE, text=True)
        if r.returncode != 0:
            raise SystemExit(f"c02emit failed: {r.stderr[-2000:]}")
        lock = os.path.join(ws, "Cargo.lock")
        if not os.path.exists(lock):
            shutil.copy2(os.path.join(root, "harness", "Cargo.lock"), lock)
        env = dict(os.environ)
        env["CARGO_NET_OFFLINE"] = "true"
        env.pop("RUSTFLAGS", None)
        t0 = time.time()
        b = subprocess.run(["cargo", "build", "--offline", "--keep-going"], cwd=ws, env=env, stdout=subprocess.PIPE, stderr=subprocess.STDOUT, text=True)
        # A grammar that parse_and_optimize accepts but whose derive output rustc refuses: there is no generated
        # parser to compare, which is a violation for that grammar. Find the module(s) the errors point into, report
        # them, take them out of the batch and build again (at most 4 times).
        not_compiling = []
        for _attempt in range(4):
            if b.returncode == 0:
                break
            bad = _failing_modules(ws, b.stdout)
            if not bad:
                break
            for (bi, idx, err) in bad:
                g = _remove_module(ws, bi, idx)
                not_compiling.append({"property": ctx["pid"], "kind": "generated_parser_does_not_compile", "config": config,
                                      "grammar": (g or {}).get("text"), "family": (g or {}).get("family"),
                                      "expected": "the code pest_derive generates compiles for every grammar the front-end accepts (the VM runs it)",
                                      "observed": {"rustc": err}})
            b = subprocess.run(["cargo", "build", "--offline", "--keep-going"], cwd=ws, env=env, stdout=subprocess.PIPE, stderr=subprocess.STDOUT, text=True)
        if not_compiling:
            reports.append({"counters": {"evaluations": len(not_compiling), "generated_parsers_that_do_not_compile": len(not_compiling)},
                            "violations": not_compiling})
        info["build_s"].append(round(time.time() - t0, 1))
        log(f"[c02 {config} round {rnd}] emitted {r.stdout.strip()} built in {time.time()-t0:.1f}s" + (f"; {len(not_compiling)} generated parser(s) did not compile" if not_compiling else ""))
        if b.returncode != 0:
            # could not be attributed to a grammar module: a harness problem, not a verdict
            log(b.stdout[-4000:])
            dead.append({"shard": "build", "rc": "generated batch does not compile", "case": None, "stderr_tail": b.stdout[-1500:]})
            continue
        rundir = os.path.join(target, "run", f"{ctx['pid']}-gen-{config}-{os.getpid()}-{rnd}")
        shutil.rmtree(rundir, ignore_errors=True)
        os.makedirs(rundir)
        procs = []
        t0 = time.time()
        for i in range(16):
            be = os.path.join(tdir, "debug", f"b{i}")
            out = os.path.join(rundir, f"b{i}.json")
            jn = os.path.join(rundir, f"b{i}.journal")
            cmd = [be, "c02", "--shard", str(i), "--nshards", "16", "--seed", str(seed), "--tier", tier, "--out", out, "--journal", jn,
                   "--known", ctx["known"], "--max-s", str(max_s), "--cases", os.path.join(ws, f"b{i}", "cases.json"), "--mode", mode]
            ef = open(os.path.join(rundir, f"b{i}.stderr"), "w")
            procs.append((i, subprocess.Popen(cmd, cwd=root, stdout=subprocess.DEVNULL, stderr=ef, preexec_fn=_limit(10)), out, jn, ef))
        deadline = time.time() + max_s * 2 + 120
        for i, p, out, jn, ef in procs:
            try:
                rc = p.wait(timeout=max(1.0, deadline - time.time()))
            except subprocess.TimeoutExpired:
                p.kill()
                p.wait()
                rc = "watchdog"
            ef.close()
            if rc == 0 and os.path.exists(out):
                reports.append(json.load(open(out)))
            else:
                case = None
                try:
                    t = open(jn).read().strip()
                    case = json.loads(t) if t else None
                except Exception:
                    pass
                dead.append({"shard": f"b{i}", "rc": rc, "case": case, "stderr_tail": open(os.path.join(rundir, f"b{i}.stderr")).read()[-1500:]})
        info["run_s"].append(round(time.time() - t0, 1))
        if not dead:
            shutil.rmtree(rundir, ignore_errors=True)
    return reports, dead, info
