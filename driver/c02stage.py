"""Driver stage for the generated derive batches (C02, and C08's derive back-end run).

emit (mon c02emit) -> cargo build of the generated workspace against the working tree's
pest_derive -> run the 16 batch binaries as shard processes -> collect their reports.
"""
import json
import os
import resource
import shutil
import subprocess
import time


def _limit(gib):
    def f():
        b = int(gib * (1 << 30))
        resource.setrlimit(resource.RLIMIT_AS, (b, b))
        resource.setrlimit(resource.RLIMIT_CORE, (0, 0))
    return f


def stage(ctx):
    spec = ctx["spec"]
    features = spec.get("features", "")
    config = spec.get("config", "default")
    mode = spec.get("mode", "c02")
    tier = ctx["tier"]
    root, target, log = ctx["root"], ctx["target"], ctx["log"]
    exe = ctx["build"]("mon", features)
    rounds = spec.get("rounds", {"quick": 1, "thorough": 10})[tier]
    per_round = int(spec.get("grammars", {"quick": 192, "thorough": 256})[tier] * ctx["scale"]) or 16
    ws = os.path.join(target, "gen", config, "ws")
    tdir = os.path.join(target, "gen-target", config)
    reports, dead = [], []
    info = {"layer": f"generated derive batches ({config}, mode {mode})", "rounds": rounds, "grammars_per_round": per_round, "build_s": [], "run_s": []}
    max_s = spec.get("max_s", {"quick": 120, "thorough": 600})[tier]
    for rnd in range(rounds):
        seed = ctx["seed"] * 1000 + rnd
        os.makedirs(ws, exist_ok=True)
        r = subprocess.run([exe, "c02emit", "--seed", str(seed), "--out-dir", ws, "--n", str(per_round), "--batches", "16", "--target-dir", tdir,
                            "--vmon-dir", os.path.join(root, "harness", "vmon"), "--known", ctx["known"]],
                           cwd=root, stdout=subprocess.PIPE, stderr=subprocess.PIPE, text=True)
        if r.returncode != 0:
            raise SystemExit(f"c02emit failed: {r.stderr[-2000:]}")
        lock = os.path.join(ws, "Cargo.lock")
        if not os.path.exists(lock):
            shutil.copy2(os.path.join(root, "harness", "Cargo.lock"), lock)
        env = dict(os.environ)
        env["CARGO_NET_OFFLINE"] = "true"
        env.pop("RUSTFLAGS", None)
        t0 = time.time()
        b = subprocess.run(["cargo", "build", "--offline"], cwd=ws, env=env, stdout=subprocess.PIPE, stderr=subprocess.STDOUT, text=True)
        info["build_s"].append(round(time.time() - t0, 1))
        log(f"[c02 {config} round {rnd}] emitted {r.stdout.strip()} built in {time.time()-t0:.1f}s")
        if b.returncode != 0:
            # the working tree's generator could not compile a grammar that parse_and_optimize accepts
            log(b.stdout[-4000:])
            dead.append({"shard": "build", "rc": "generated batch does not compile", "case": None, "stderr_tail": b.stdout[-1500:]})
            continue
        rundir = os.path.join(target, "run", f"{ctx['pid']}-gen-{config}-{os.getpid()}-{rnd}")
        shutil.rmtree(rundir, ignore_errors=True)
        os.makedirs(rundir)
        procs = []
        t0 = time.time()
        for i in range(16):
            be = os.path.join(tdir, "debug", f"b{i}")
            out = os.path.join(rundir, f"b{i}.json")
            jn = os.path.join(rundir, f"b{i}.journal")
            cmd = [be, "c02", "--shard", str(i), "--nshards", "16", "--seed", str(seed), "--tier", tier, "--out", out, "--journal", jn,
                   "--known", ctx["known"], "--max-s", str(max_s), "--cases", os.path.join(ws, f"b{i}", "cases.json"), "--mode", mode]
            ef = open(os.path.join(rundir, f"b{i}.stderr"), "w")
            procs.append((i, subprocess.Popen(cmd, cwd=root, stdout=subprocess.DEVNULL, stderr=ef, preexec_fn=_limit(10)), out, jn, ef))
        deadline = time.time() + max_s * 2 + 120
        for i, p, out, jn, ef in procs:
            try:
                rc = p.wait(timeout=max(1.0, deadline - time.time()))
            except subprocess.TimeoutExpired:
                p.kill()
                p.wait()
                rc = "watchdog"
            ef.close()
            if rc == 0 and os.path.exists(out):
                reports.append(json.load(open(out)))
            else:
                case = None
                try:
                    t = open(jn).read().strip()
                    case = json.loads(t) if t else None
                except Exception:
                    pass
                dead.append({"shard": f"b{i}", "rc": rc, "case": case, "stderr_tail": open(os.path.join(rundir, f"b{i}.stderr")).read()[-1500:]})
        info["run_s"].append(round(time.time() - t0, 1))
        if not dead:
            shutil.rmtree(rundir, ignore_errors=True)
    return reports, dead, info
