#!/usr/bin/env python3
"""Regenerates /verif/MANIFEST.json from driver/props.py (run after editing the table)."""
import json
import os
import sys

ROOT = os.path.dirname(os.path.dirname(os.path.abspath(__file__)))
sys.path.insert(0, os.path.join(ROOT, "driver"))
import props  # noqa: E402

ALL = [f"C{i:02d}" for i in range(1, 19)]
checks = []
for pid in ALL:
    if pid not in props.PROPS:
        continue
    s = props.PROPS[pid]
    checks.append({
        "property_id": pid,
        "quick_cmd": f"./check {pid} --tier quick",
        "thorough_cmd": f"./check {pid} --tier thorough",
        "evidence_file": f"/verif/evidence/{pid}.json",
        "replay_cmd_template": f"./check {pid} --replay {{path}}",
        "engine": s.get("engine", "mon"),
        "level_claimed": {
            "category": "exploration",
            "text": s["level_text"],
            "design_ref": s.get("design_ref", f"DESIGN.md section 2, {pid}"),
        },
        "level_note": s["level_note"],
        "technique": s["technique"],
    })
na = [{"property_id": pid, "reason": props.NOT_YET.get(pid, "monitor not built yet in this round; see DESIGN.md section 2 for the plan")}
      for pid in ALL if pid not in props.PROPS]
m = {
    "version": 1,
    "setup_cmd": "./setup.sh",
    "hooks": {
        "guard": "cfg(pest_parser_pest_verif)",
        "enable": "RUSTFLAGS=--cfg pest_parser_pest_verif (set in /verif/harness/.cargo/config.toml; every check builds /repo's working tree through path dependencies)",
        "baseline_off_cmd": "cd /repo && cargo nextest run --workspace --no-fail-fast --offline --test-threads 8 || cargo test --workspace --no-fail-fast --offline",
        "source_commits": props.HOOK_COMMITS,
        "add_only": True,
    },
    "engines": [
        {"name": "mon", "path": "/verif/harness/mon", "serves_properties": [p for p in ALL if p in props.PROPS and props.PROPS[p].get("engine", "mon") == "mon"],
         "kind_free_text": "Rust monitor binary (one sub-command per property) linked against /repo's crates with hooks on; run as single-threaded shard processes by /verif/check"},
        {"name": "vmon", "path": "/verif/harness/vmon", "serves_properties": ["C01", "C05", "C06", "C07", "C08", "C12", "C15"],
         "kind_free_text": "shared library: PRNG, grammar generator, pest-syntax printer, input generators, reference PEG interpreter, shard reports"},
    ],
    "checks": checks,
    "notes": "Runtime monitoring: every check executes the real pest code under generated workloads with an oracle observing it. See DESIGN.md. Exit codes: 0 held on what was observed, 1 violation (VIOLATION line), 2 inconclusive, 3 harness/build error.",
    "not_applicable": na,
}
with open(os.path.join(ROOT, "MANIFEST.json"), "w") as f:
    json.dump(m, f, indent=1)
    f.write("\n")
print("wrote MANIFEST.json:", len(checks), "checks,", len(na), "not claimed")
