#!/usr/bin/env python3
"""Regenerates /verif/MANIFEST.json from driver/props.py (run after editing the table)."""
import json
import os
import sys

ROOT = os.path.dirname(os.path.dirname(os.path.abspath(__file__)))
sys.path.insert(0, os.path.join(ROOT, "driver"))
import props  # noqa: E402

ALL = [f"C{i:02d}" for i in range(1, 19)]


def _bins(spec):
    out = []
    for r in spec["runs"]:
        b = r.get("bin") or ("mon" if r.get("kind") == "custom" else None)
        if b and b not in out:
            out.append(b)
    return out

checks = []
for pid in ALL:
    if pid not in props.PROPS:
        continue
    s = props.PROPS[pid]
    checks.append({
        "property_id": pid,
        "quick_cmd": f"./check {pid} --tier quick",
        "thorough_cmd": f"./check {pid} --tier thorough",
        "evidence_file": f"/verif/evidence/{pid}.json",
        "replay_cmd_template": f"./check {pid} --replay {{path}}",
        "engine": s.get("engine") or (_bins(s)[0] if _bins(s) else "mon"),
        "level_claimed": {
            "category": "exploration",
            "text": s["level_text"],
            "design_ref": s.get("design_ref", f"DESIGN.md section 2, {pid}"),
        },
        "level_note": s["level_note"],
        "technique": s["technique"],
    })
na = [{"property_id": pid, "reason": props.NOT_YET.get(pid, "monitor not built yet in this round; see DESIGN.md section 2 for the plan")}
      for pid in ALL if pid not in props.PROPS]
def _bins(spec):
    out = []
    for r in spec["runs"]:
        b = r.get("bin") or ("mon" if r.get("kind") == "custom" else None)
        if b and b not in out:
            out.append(b)
    return out


_KINDS = {
    "mon": "Rust monitor binary (sub-commands c01 c02emit c04 c05 c06 c07 c08 c09 c10 c11 c12 c13 c15) linked against /repo's crates with hooks on; built with default features and with grammar-extras; run as single-threaded shard processes by /verif/check",
    "mon_state": "Rust monitor binary for C03; depends on pest alone so that it can be built with and without memchr",
    "mon_fixed": "Rust monitor binary for C16/C18 over derive-compiled parsers (build.rs generates a grammar naming every Unicode property)",
    "mon_meta": "Rust monitor binary for C14: checked-in meta parser vs VM over grammar.pest vs parser freshly derived from grammar.pest",
    "mon_dbg": "Rust monitor binary for C17 (controller histories against pest_debugger with seeded delays; also built under ThreadSanitizer)",
}
ENGINES = []
for b, kind in _KINDS.items():
    serves = [p for p in ALL if p in props.PROPS and b in _bins(props.PROPS[p])]
    ENGINES.append({"name": b, "path": f"/verif/harness/{b}", "serves_properties": serves, "kind_free_text": kind})
ENGINES.append({"name": "vmon", "path": "/verif/harness/vmon", "serves_properties": ["C01", "C02", "C04", "C05", "C06", "C07", "C08", "C09", "C12", "C14", "C15", "C17"],
                "kind_free_text": "shared library: PRNG, grammar generator, pest-syntax printer, input generators, reference PEG interpreter, error-report checker, near-miss text generator, shard reports"})
ENGINES.append({"name": "generated derive batches", "path": "/verif/target/gen (generated at check time by `mon c02emit`, driver/c02stage.py)", "serves_properties": ["C02", "C08"],
                "kind_free_text": "16 crates of #[derive(Parser)] #[grammar_inline] modules compiled against the working tree's pest_derive"})

m = {
    "version": 1,
    "setup_cmd": "./setup.sh",
    "hooks": {
        "guard": "cfg(pest_parser_pest_verif)",
        "enable": "RUSTFLAGS=--cfg pest_parser_pest_verif (set in /verif/harness/.cargo/config.toml; every check builds /repo's working tree through path dependencies)",
        "baseline_off_cmd": "cd /repo && cargo nextest run --workspace --no-fail-fast --offline --test-threads 8 || cargo test --workspace --no-fail-fast --offline",
        "source_commits": props.HOOK_COMMITS,
        "add_only": True,
    },
    "engines": ENGINES,
    "checks": checks,
    "notes": "Runtime monitoring: every check executes the real pest code under generated workloads with an oracle observing it. See DESIGN.md. Exit codes: 0 held on what was observed, 1 violation (VIOLATION line), 2 inconclusive, 3 harness/build error.",
    "not_applicable": na,
}
with open(os.path.join(ROOT, "MANIFEST.json"), "w") as f:
    json.dump(m, f, indent=1)
    f.write("\n")
print("wrote MANIFEST.json:", len(checks), "checks,", len(na), "not claimed")
