#!/usr/bin/env python3
"""Files a confirmed seeded change under /verif/seeded/<ID>-<k>/ (patch.diff, demonstration, notes, meta.json)
and regenerates /verif/seeded/INDEX.md.

  driver/keep_seed.py <seed dir> <property ID> <seedtest log> [<seedtest log> ...]

The seed must have a confirm.json (driver/confirm_seed.py) with confirmed=true. The seedtest logs are searched
for `SEED <ID>/<k>/patch.diff <CHECK> exit=..` lines to record which checks caught it.
"""
import glob
import json
import os
import re
import shutil
import sys

ROOT = os.path.dirname(os.path.dirname(os.path.abspath(__file__)))


def first_paragraphs(notes, n=1200):
    t = notes.strip()
    return t[:n] + ("…" if len(t) > n else "")


def main():
    d, pid = os.path.abspath(sys.argv[1]), sys.argv[2]
    logs = sys.argv[3:]
    k = os.path.basename(d)
    name = f"{pid}-{k}"
    conf = json.load(open(os.path.join(d, "confirm.json")))
    if not conf.get("confirmed"):
        print(f"NOT KEPT {name}: not confirmed ({conf})")
        return 1
    results = {}
    logs = [x for x in logs if not x.startswith("--prefix=")]
    for lg in logs:
        for line in open(lg, errors="replace"):
            m = re.match(rf"SEED {pid}/{k}/patch\.diff (C\d+) exit=(\d+) violations=(\d+)", line)
            if m:
                results[m.group(1)] = {"exit": int(m.group(2)), "violation_lines": int(m.group(3))}
    prefix = ""
    if len(sys.argv) > 3 and sys.argv[-1].startswith("--prefix="):
        prefix = sys.argv[-1].split("=", 1)[1]
        logs = logs[:-1]
        name = f"{pid}-{prefix}{k}"
    out = os.path.join(ROOT, "seeded", name)
    os.makedirs(out, exist_ok=True)
    for f in os.listdir(d):
        if f == "patch.diff" or f == "notes.md" or (f.endswith(".rs")) or f in ("run_demo.sh", "harness_lib.rs", "placement.json", "demo_setup.diff") or f.endswith(".pest"):
            shutil.copy2(os.path.join(d, f), os.path.join(out, f))
        elif os.path.isdir(os.path.join(d, f)) and os.path.exists(os.path.join(d, f, "Cargo.toml")):
            shutil.copytree(os.path.join(d, f), os.path.join(out, f), dirs_exist_ok=True, ignore=shutil.ignore_patterns("target", "Cargo.lock"))
    # the kept patch must apply to /repo's HEAD: use the rebased diff when later commits moved the context
    import subprocess
    chk = subprocess.run(["git", "-C", "/repo", "apply", "--check", os.path.join(out, "patch.diff")], capture_output=True)
    if chk.returncode != 0 and os.path.exists(os.path.join(d, "patch.rebased.diff")):
        shutil.copy2(os.path.join(out, "patch.diff"), os.path.join(out, "patch.as_written.diff"))
        shutil.copy2(os.path.join(d, "patch.rebased.diff"), os.path.join(out, "patch.diff"))
        chk = subprocess.run(["git", "-C", "/repo", "apply", "--check", os.path.join(out, "patch.diff")], capture_output=True)
    applies = chk.returncode == 0
    notes = open(os.path.join(d, "notes.md")).read() if os.path.exists(os.path.join(d, "notes.md")) else ""
    files = re.findall(r"^\+\+\+ b/(\S+)", open(os.path.join(d, "patch.diff")).read(), re.M)
    meta = {
        "id": name,
        "breaks_property": pid,
        "files_changed": files,
        "patch_applies_to_repo_head": applies,
        "needs_to_manifest": first_paragraphs(notes),
        "confirmed_by": {
            "how": "driver/confirm_seed.py in a scratch worktree of /repo: patch applied to HEAD; `cargo test --workspace --offline --no-fail-fast`; demonstration run with and without the change",
            "suite_with_change": conf.get("suite_with_change"),
            "demonstration_passes_with_change": conf.get("demo_passes_with_change"),
            "demonstration_passes_without_change": conf.get("demo_passes_without_change"),
        },
        "checks_run": {c: r for c, r in sorted(results.items())},
        "caught_by": sorted(c for c, r in results.items() if r["exit"] == 1),
        "how_checks_were_run": "driver/seedtest.py <patch> <ID>: quick tier, seed 1, in an isolated sandbox (scratch worktree of /repo + path-rewritten copy of /verif)",
    }
    with open(os.path.join(out, "meta.json"), "w") as f:
        json.dump(meta, f, indent=1, ensure_ascii=False)
    print(f"KEPT {name}: caught_by={meta['caught_by']}")
    index()
    return 0


def index():
    rows = []
    for m in sorted(glob.glob(os.path.join(ROOT, "seeded", "*", "meta.json"))):
        j = json.load(open(m))
        what = ""
        notes = os.path.join(os.path.dirname(m), "notes.md")
        if os.path.exists(notes):
            for line in open(notes):
                line = line.strip()
                if line and not line.startswith("#"):
                    what = line[:160]
                    break
            else:
                what = ""
            head = [l.strip("# \n") for l in open(notes) if l.startswith("#")]
            if head:
                what = head[0][:170]
        rows.append((j["id"], ", ".join(j["files_changed"]), what, ", ".join(j["caught_by"]) or "**missed**"))
    with open(os.path.join(ROOT, "seeded", "INDEX.md"), "w") as f:
        f.write("# Seeded changes kept after confirmation\n\n")
        f.write("Each directory holds patch.diff (applies to /repo HEAD), the demonstration, the author's notes and meta.json.\n")
        f.write("`caught by` = checks that printed a VIOLATION line for it (quick tier, seed 1) in the sandbox.\n\n")
        f.write("| seed | files | change | caught by |\n|---|---|---|---|\n")
        for r in rows:
            f.write("| " + " | ".join(x.replace("|", "\\|") for x in r) + " |\n")


if __name__ == "__main__":
    sys.exit(main())
