"""Sanitizer / interpreter layers of the thorough tier: Miri (C03, C04, C11) and ThreadSanitizer (C17).

Both run the SAME monitor binaries (same oracles) on a small slice of the workload; what they add is the
interpreter's / sanitizer's own verdict on the code the workload reaches (memchr's and Rc's unsafe through
pest's API for Miri; std's park/unpark/channel and the debugger's shared state for TSan).
"""
import json
import os
import re
import resource
import shutil
import subprocess
import time


def _run_parallel(cmds, env, cwd, rundir, max_s):
    procs = []
    for i, cmd in enumerate(cmds):
        ef = open(os.path.join(rundir, f"s{i}.stderr"), "w")
        procs.append((i, subprocess.Popen(cmd, cwd=cwd, env=env, stdout=subprocess.DEVNULL, stderr=ef), ef))
    deadline = time.time() + max_s
    out = []
    for i, p, ef in procs:
        try:
            rc = p.wait(timeout=max(1.0, deadline - time.time()))
        except subprocess.TimeoutExpired:
            p.kill()
            p.wait()
            rc = "watchdog"
        ef.close()
        out.append((i, rc, open(os.path.join(rundir, f"s{i}.stderr")).read()))
    return out


def miri_stage(ctx):
    spec = ctx["spec"]
    root, target, log = ctx["root"], ctx["target"], ctx["log"]
    crate, sub = spec["bin"], spec["sub"]
    nshards = spec.get("shards", 16)
    scale = spec.get("scale", 0.001) * ctx["scale"]
    rundir = os.path.join(target, "run", f"{ctx['pid']}-miri-{os.getpid()}")
    shutil.rmtree(rundir, ignore_errors=True)
    os.makedirs(rundir)
    env = dict(os.environ)
    env["CARGO_NET_OFFLINE"] = "true"
    env["MIRIFLAGS"] = "-Zmiri-disable-isolation -Zmiri-ignore-leaks"
    env.pop("RUSTFLAGS", None)
    base = ["cargo", "+nightly", "miri", "run", "--offline", "-p", crate, "--target-dir", os.path.join(target, "miri")]
    if spec.get("features"):
        base += ["--features", spec["features"]]
    harness = os.path.join(root, "harness")

    def cmd(i, sc, out):
        return base + ["--", sub, "--shard", str(i), "--nshards", str(nshards), "--seed", str(ctx["seed"]), "--tier", "quick",
                       "--scale", str(sc), "--out", out, "--known", ctx["known"], "--max-s", str(spec.get("max_s", 900))] + spec.get("extra", [])
    t0 = time.time()
    # one tiny run first: builds everything under the cargo lock
    warm = os.path.join(rundir, "warm.json")
    r = _run_parallel([cmd(0, scale / 50.0, warm)], env, harness, rundir, 1800)
    info = {"layer": f"Miri ({crate} {sub})", "shards": nshards, "scale": scale, "build_and_warm_s": round(time.time() - t0, 1)}
    if r[0][1] != 0:
        log(r[0][2][-3000:])
        return [], [{"shard": "miri-warm", "rc": r[0][1], "case": {"miri": "warm-up run"} if "Undefined Behavior" in r[0][2] else None,
                     "stderr_tail": r[0][2][-1500:]}], info
    t0 = time.time()
    outs = [os.path.join(rundir, f"s{i}.json") for i in range(nshards)]
    res = _run_parallel([cmd(i, scale, outs[i]) for i in range(nshards)], env, harness, rundir, spec.get("max_s", 900) * 2 + 300)
    info["run_s"] = round(time.time() - t0, 1)
    reports, dead = [], []
    ub = 0
    for i, rc, err in res:
        if "Undefined Behavior" in err or "error: unsupported operation" in err:
            ub += 1
        if rc == 0 and os.path.exists(outs[i]):
            reports.append(json.load(open(outs[i])))
        else:
            is_ub = "Undefined Behavior" in err
            dead.append({"shard": f"miri-{i}", "rc": rc, "case": {"miri_report": err[-1200:]} if is_ub else None, "stderr_tail": err[-1500:]})
    info["miri_error_reports"] = ub
    info["programs_interpreted"] = sum(r.get("counters", {}).get("evaluations", 0) for r in reports)
    # evidence from this layer is kept apart: do not add its evaluations to the native totals twice
    for r in reports:
        r["counters"] = {("miri:" + k): v for k, v in r.get("counters", {}).items() if k in ("evaluations", "violations")}
        r["distinct"], r["signatures"], r["samples"] = [], [], []
    if not dead:
        shutil.rmtree(rundir, ignore_errors=True)
    log(f"[miri {crate} {sub}] {info}")
    return reports, dead, info


def tsan_stage(ctx):
    spec = ctx["spec"]
    root, target, log = ctx["root"], ctx["target"], ctx["log"]
    crate, sub = spec["bin"], spec["sub"]
    nshards = spec.get("shards", 8)
    scale = spec.get("scale", 0.17) * ctx["scale"]
    harness = os.path.join(root, "harness")
    tdir = os.path.join(target, "tsan")
    env = dict(os.environ)
    env["CARGO_NET_OFFLINE"] = "true"
    env["RUSTFLAGS"] = "--cfg pest_parser_pest_verif -Zsanitizer=thread"
    t0 = time.time()
    b = subprocess.run(["cargo", "+nightly", "build", "--release", "--offline", "-Zbuild-std", "--target", "x86_64-unknown-linux-gnu",
                        "-p", crate, "--target-dir", tdir], cwd=harness, env=env, stdout=subprocess.PIPE, stderr=subprocess.STDOUT, text=True)
    info = {"layer": f"ThreadSanitizer ({crate} {sub})", "build_s": round(time.time() - t0, 1), "shards": nshards, "scale": scale}
    if b.returncode != 0:
        log(b.stdout[-3000:])
        return [], [{"shard": "tsan-build", "rc": "tsan build failed", "case": None, "stderr_tail": b.stdout[-1500:]}], info
    exe = os.path.join(tdir, "x86_64-unknown-linux-gnu", "release", crate)
    rundir = os.path.join(target, "run", f"{ctx['pid']}-tsan-{os.getpid()}")
    shutil.rmtree(rundir, ignore_errors=True)
    os.makedirs(rundir)
    env2 = dict(os.environ)
    env2["TSAN_OPTIONS"] = "halt_on_error=0 exitcode=66"
    outs = [os.path.join(rundir, f"s{i}.json") for i in range(nshards)]
    cmds = [[exe, sub, "--shard", str(i), "--nshards", str(nshards), "--seed", str(ctx["seed"]), "--tier", "quick", "--scale", str(scale),
             "--out", outs[i], "--known", ctx["known"], "--max-s", "600"] for i in range(nshards)]
    t0 = time.time()
    res = _run_parallel(cmds, env2, root, rundir, 1500)
    info["run_s"] = round(time.time() - t0, 1)
    reports, dead, blocks = [], [], 0
    first = None
    for i, rc, err in res:
        n = len(re.findall(r"WARNING: ThreadSanitizer", err))
        blocks += n
        if n and first is None:
            first = err[err.index("WARNING: ThreadSanitizer"):][:2500]
        if os.path.exists(outs[i]):
            reports.append(json.load(open(outs[i])))
        elif rc != 66:
            dead.append({"shard": f"tsan-{i}", "rc": rc, "case": None, "stderr_tail": err[-1500:]})
    info["tsan_report_blocks"] = blocks
    info["histories"] = sum(r.get("counters", {}).get("evaluations", 0) for r in reports)
    if blocks:
        dead.append({"shard": "tsan", "rc": f"{blocks} ThreadSanitizer report blocks", "case": {"tsan_report": first}, "stderr_tail": first or ""})
    for r in reports:
        r["counters"] = {("tsan:" + k): v for k, v in r.get("counters", {}).items() if k in ("evaluations", "violations")}
        r["distinct"], r["signatures"], r["samples"] = [], [], []
    if not dead:
        shutil.rmtree(rundir, ignore_errors=True)
    log(f"[tsan {crate} {sub}] {info}")
    return reports, dead, info
