#!/usr/bin/env python3
"""Confirms a seeded change independently of its author, in a scratch worktree of /repo:

  1. the patch applies to /repo's HEAD and the workspace compiles;
  2. the repository's suite still passes with it (only the test that already fails on the unchanged
     tree, pest_vm::surround::quote, may fail);
  3. the demonstration FAILS with the change and PASSES without it.

  driver/confirm_seed.py <seed dir> [<seed dir> ...]      (seed dir = .../<ID>/out/<k>)

Writes <seed dir>/confirm.json and prints one line per seed. Demo placement: demo file names that
contain 'derive' go to derive/tests, 'vm' to vm/tests; otherwise the directory named most often in
notes.md; a run_demo.sh next to the demo is used when present.
"""
import json
import os
import re
import shutil
import subprocess
import sys

WT = os.environ.get("CONFIRM_WT", "/tmp/mut/confirm")


def sh(cmd, cwd=None, timeout=3600):
    r = subprocess.run(cmd, shell=isinstance(cmd, str), cwd=cwd, stdout=subprocess.PIPE, stderr=subprocess.STDOUT, text=True, timeout=timeout)
    return r.returncode, r.stdout


def setup():
    os.makedirs(os.path.dirname(WT), exist_ok=True)
    if not os.path.exists(os.path.join(WT, ".git")):
        sh(["git", "-C", "/repo", "worktree", "prune"])
        rc, out = sh(["git", "-C", "/repo", "worktree", "add", "--detach", WT, "HEAD"])
        if rc != 0:
            raise SystemExit(out)


def reset():
    head = sh(["git", "-C", "/repo", "rev-parse", "HEAD"])[1].strip()
    sh(["git", "-C", WT, "checkout", "--detach", "-q", head])
    sh(["git", "-C", WT, "checkout", "--", "."])
    sh(["git", "-C", WT, "clean", "-fdq", "-e", "target"])


def suite():
    rc, out = sh("cargo test --workspace --offline --no-fail-fast 2>&1", cwd=WT)
    failed = re.findall(r"^test (\S+) \.\.\. FAILED", out, re.M)
    passed = sum(int(x) for x in re.findall(r"test result: \w+\. (\d+) passed", out))
    compile_error = "error: could not compile" in out or "error[E" in out
    return {"passed": passed, "failed": sorted(set(failed)), "compile_error": compile_error}


def place_demos(d):
    """Returns list of (crate, test name, features) after copying demo files into the worktree."""
    notes = open(os.path.join(d, "notes.md")).read() if os.path.exists(os.path.join(d, "notes.md")) else ""
    dirs = re.findall(r"\b(pest|vm|meta|derive|generator|grammars|debugger)/tests\b", notes)
    default = max(set(dirs), key=dirs.count) if dirs else "vm"
    feats = "grammar-extras" if re.search(r"demo[^\n]*--features grammar-extras|--features grammar-extras[^\n]*demo", notes) else ""
    out = []
    override = {}
    if os.path.exists(os.path.join(d, "placement.json")):
        override = json.load(open(os.path.join(d, "placement.json")))
    for f in sorted(os.listdir(d)):
        if not (f.endswith(".rs") and ("demo" in f or f in override)):
            continue
        crate = override.get(f) or ("derive" if "derive" in f else ("vm" if "_vm" in f else default))
        name = "seeddemo_" + re.sub(r"\W", "_", f[:-3])
        dst = os.path.join(WT, crate, "tests", name + ".rs")
        os.makedirs(os.path.dirname(dst), exist_ok=True)
        shutil.copy2(os.path.join(d, f), dst)
        for extra in os.listdir(d):
            if extra.endswith(".pest"):
                shutil.copy2(os.path.join(d, extra), os.path.join(os.path.dirname(dst), extra))
        pkg = {"pest": "pest", "vm": "pest_vm", "meta": "pest_meta", "derive": "pest_derive", "generator": "pest_generator",
               "grammars": "pest_grammars", "debugger": "pest_debugger"}[crate]
        out.append((pkg, name, override.get("features", feats)))
    return out


def run_demos(d, demos):
    pkgs = [x for x in os.listdir(d) if os.path.isdir(os.path.join(d, x)) and os.path.exists(os.path.join(d, x, "Cargo.toml"))]
    if pkgs:
        # a stand-alone demo package meant to be copied into the checkout root
        ok_all, log = True, ""
        for pk in pkgs:
            dst = os.path.join(WT, pk)
            shutil.rmtree(dst, ignore_errors=True)
            shutil.copytree(os.path.join(d, pk), dst, ignore=shutil.ignore_patterns("target"))
            k = os.path.basename(d)
            tests = [f[:-3] for f in os.listdir(os.path.join(dst, "tests"))] if os.path.isdir(os.path.join(dst, "tests")) else []
            sel = [t for t in tests if t.endswith(k)] or tests
            for t in sel:
                rc, out = sh(f"CARGO_TARGET_DIR=/tmp/mut/demo-pkg-target cargo test --offline --manifest-path {pk}/Cargo.toml --test {t} 2>&1 | tail -25", cwd=WT)
                results = re.findall(r"test result: (\w+)\.", out)
                ok = bool(results) and all(r == "ok" for r in results)
                ok_all &= ok
                log += out[-600:]
        return ok_all, log
    if os.path.exists(os.path.join(d, "run_demo.sh")):
        env_dir = "/tmp/mut/c02demo"
        rc, out = sh(f"C02_DEMO_DIR={env_dir} CARGO_TARGET_DIR=/tmp/mut/c02demo-target sh {d}/run_demo.sh {WT} 2>&1 | tail -30")
        ok = "test result: ok" in out and "FAILED" not in out and "error" not in out.split("test result")[0][-200:]
        return ok, out[-1500:]
    all_ok = True
    log = ""
    for pkg, name, feats in demos:
        cmd = f"cargo test -p {pkg} --test {name} --offline" + (f" --features {feats}" if feats and (pkg in ("pest_vm", "pest_meta", "pest_derive") or feats != "grammar-extras") else "") + " 2>&1 | tail -25"
        rc, out = sh(cmd, cwd=WT)
        results = re.findall(r"test result: (\w+)\.", out)
        ok = bool(results) and all(r == "ok" for r in results)
        all_ok &= ok
        log += f"$ {cmd}\n{out[-700:]}\n"
    return all_ok, log


def confirm(d):
    d = os.path.abspath(d)
    patch = os.path.join(d, "patch.diff")
    res = {"seed": d}
    setup()
    reset()
    rc, out = sh(["git", "-C", WT, "apply", patch])
    if rc != 0:
        # HEAD moved under the patch (later hook/fix commits): three-way apply, unstage, and keep the rebased diff
        rc, out = sh(["git", "-C", WT, "apply", "-3", patch])
        sh(["git", "-C", WT, "reset", "-q"])
        if rc == 0:
            rebased = sh(["git", "-C", WT, "diff"])[1]
            open(os.path.join(d, "patch.rebased.diff"), "w").write(rebased)
            patch = os.path.join(d, "patch.rebased.diff")
            res["rebased"] = True
    res["applies"] = rc == 0
    if rc != 0:
        res["error"] = out[-500:]
        return res
    s = suite()
    res["suite_with_change"] = s
    res["suite_ok"] = (not s["compile_error"]) and all(f.endswith("quote") for f in s["failed"]) and s["passed"] > 500
    # a set-up diff that only makes the demonstration buildable (e.g. a dev-dependency); stays for both runs
    for setup_diff in (os.path.join(d, "demo_setup.diff"), os.path.join(os.path.dirname(d), "demo_setup.diff")):
        if os.path.exists(setup_diff):
            rc2, out2 = sh(["git", "-C", WT, "apply", setup_diff])
            res["demo_setup"] = "applied" if rc2 == 0 else out2[-300:]
            break
    demos = place_demos(d)
    res["demos"] = [x[1] for x in demos]
    ok_with, log_with = run_demos(d, demos)
    res["demo_passes_with_change"] = ok_with
    # undo only the patch, keep the demos
    sh(["git", "-C", WT, "apply", "-R", patch])
    ok_without, log_without = run_demos(d, demos)
    res["demo_passes_without_change"] = ok_without
    res["confirmed"] = bool(res["suite_ok"] and (not ok_with) and ok_without)
    if not res["confirmed"]:
        res["log_with"] = log_with[-1500:]
        res["log_without"] = log_without[-1500:]
    reset()
    return res


if __name__ == "__main__":
    for d in sys.argv[1:]:
        try:
            r = confirm(d)
        except Exception as e:  # noqa: BLE001
            r = {"seed": d, "confirmed": False, "error": repr(e)}
        with open(os.path.join(d, "confirm.json"), "w") as f:
            json.dump(r, f, indent=1)
        print(f"CONFIRM {d} confirmed={r.get('confirmed')} suite_ok={r.get('suite_ok')} demo_with={r.get('demo_passes_with_change')} "
              f"demo_without={r.get('demo_passes_without_change')} failed={r.get('suite_with_change', {}).get('failed')}", flush=True)
