"""C04 entry for driver/props.py (merged by the maintainer)."""

SPEC = dict(
    runs=[
        dict(bin="mon", sub="c04", features="", config="default"),
        dict(bin="mon", sub="c04", features="grammar-extras", config="grammar-extras"),
    ],
    rule=("Trees come from two sources, 60 : 40. PARSE: random grammars (generator G, profile full) accepted by parse_and_optimize; per grammar a random "
          "selection of <= 240 (start rule, input) cases (inputs: short exhaustive + derivation walks + mutants); a case is run on pest_vm only if the "
          "reference interpreter finishes it within 50,000 steps, and under a call limit of 2,000,000. Monitor (1) judges the raw Tokens stream of EVERY "
          "successful parse (balanced, properly nested, End closes the Start of the same rule, positions non-decreasing, every position a char "
          "boundary inside the input; then, on the rebuilt tree, children inside parents and siblings ordered and disjoint). Per grammar at most 1 "
          "empty, 2 small and 16 non-trivial distinct trees go on to monitor (2). BUILDER: random well-formed trees fed to PairsBuilder (rule / "
          "rule_with / tag) over inputs of 0-14 chars drawn from {a b c x SP LF CRLF, 2-, 3- and 4-byte chars}: 0-4 top-level pairs, depth <= 8, "
          "<= 48 nodes, empty spans, shared boundaries, tags on 40% of the trees; the builder's stream must be well-formed and be the tree that was fed. "
          "Monitor (2), per tree, against a plain Node{rule,start,end,tag,children} model, each group of views under its own catch_unwind: the forward "
          "walk (next + into_inner); Pairs len/size_hint/is_empty/as_str/concat/get_input/peek/rev/Eq/Hash; 2 random interleavings of next, next_back, "
          "len, size_hint, peek, as_str, concat, is_empty until exhaustion (model: VecDeque) on the top-level Pairs and 1 on the into_inner() of every "
          "selected pair; flatten() forward, reversed, fresh len, tokens, Debug, and 2 random interleavings of next/next_back/len/size_hint (plus 1 per "
          "selected inner Pairs); tokens() forward, reversed, after next+next_back, Debug, and a random interleaving of next/next_back/len/size_hint; "
          "find_tagged / find_first_tagged for every tag of the tree, t0 and an absent tag, on the whole Pairs and below the first pair; Display, {:#}, "
          "Debug of the Pairs; to_json of the Pairs, of the Pairs after next / next_back / exhaustion, of every selected pair and of its into_inner(), "
          "parsed back with serde_json and compared field by field (pos, rule, inner/pairs); per pair: as_rule, as_str, as_span (start, end, as_str, "
          "get_input), as_node_tag, get_input, line_col vs the naive count, Display, {:#}, Debug, tokens(), Eq/Hash of clones and inequality with the "
          "next pair, into_inner forward/backward/len/as_str/concat/tokens/flatten; Pairs::single(p): round trip and 19 observations (len, peek, "
          "as_str, concat, next, next_back and what follows them, tokens, flatten, Display, {:#}, to_json, Debug). Every pair reached by any route must "
          "show the node's rule/span/text/tag AND be == the pair the forward walk reached. evaluations = streams judged by (1) + trees judged by (2); "
          "view:* counters give the number of checks per view kind, interleaving_ops the number of iterator operations compared. Non-trivial = tree "
          "with >= 3 nodes and depth >= 2; distinct = hashes of (input, token stream); behaviour_signatures = (depth, node-count bucket, source, has tags)."),
    level_text=("Exploration: the real Pairs / Pair / FlatPairs / Tokens / PairsBuilder / LineIndex code is run on token queues produced by real parses "
                "of generated grammars and by the builder, while a plain tree model judges every public observation, including seeded random "
                "interleavings of forward/backward iteration and length queries until exhaustion. Reach is the generated trees (quick 50,000, thorough "
                "2,000,000; depth up to 8 from the builder and as deep as the parses go) and the sampled interleavings, not all of them."),
    level_note=("Trusted: the ~60-line stream monitor and the Node model in harness/mon/src/c04.rs; the printed layouts of Display / {:#} / JSON are the "
                "ones the repository's tests pin. For parsed trees the stream carries no tags, so the tag annotation is read once through the forward "
                "walk and every other route to the same pair must agree with it (tags of builder trees are judged against what was fed). The monitor "
                "was shown to fire, within one quick shard, on 5 defects injected into a scratch copy of pest (Pairs::next_back not updating the cached "
                "count; LineIndex partition_point with < instead of <=; Pair::tokens one token short; FlatPairs::next_back stopping one pair early; "
                "ParserState::sequence not truncating the queue on failure -> monitor (1)), none of which was downgraded to a known finding."),
    technique="runtime monitoring: invariant monitor over recorded token streams + reference-model monitor (plain tree, VecDeque) over every public view under seeded random operation interleavings, both feature configurations",
    assumptions=[
        "a panic of any view on a well-formed tree is a violation; each group of views is guarded separately so one finding does not mask another",
        "to_json of a Pairs that holds no pair must not panic and must say \"pairs\": []; its `pos` is not judged (nothing documented)",
        "JSON of trees deeper than 38 is produced but not parsed back (serde_json's 128-level recursion limit); counted in json_not_parsed_back_too_deep",
        "Debug output is only required not to panic and to mention every rule of the tree",
        "as_str / to_json of a partly consumed Pairs are judged against the remaining pairs (first remaining start .. last remaining end)",
        "parses that panic (POP/PEEK on an empty stack, by contract) yield no stream and are only counted; whether a panic was due is C01's question",
        "known findings are downgraded only when their explaining predicate holds for the concrete case and known_findings.jsonl lists the key: "
        "c04-pairs-single-window (all 19 observations equal what a window one token short shows), c04-flatpairs-len (every yielded pair agrees and "
        "each wrong len()/size_hint() equals half the raw token window), c04-pairs-to-json-empty (to_json panics and the Pairs holds no pair)",
    ],
)
