#!/bin/sh
# MANIFEST.setup_cmd: warm-build the monitors offline against /repo's current tree.
set -e
cd "$(dirname "$0")/harness"
export CARGO_NET_OFFLINE=true
cargo build --release --offline -p mon
cargo build --release --offline -p mon --features grammar-extras
cargo build --release --offline -p mon_fixed
cargo build --release --offline -p mon_meta
