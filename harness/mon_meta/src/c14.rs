//! C14: on every text, (1) the checked-in self-hosted parser (meta/src/grammar.rs), (2) the VM
//! over optimize(parse(grammar.pest)) and (3) a parser freshly derived from grammar.pest by the
//! working tree's generator agree on acceptance, token tree and error.

#![allow(clippy::all)]
include!(concat!(env!("OUT_DIR"), "/meta_rules.rs"));

use pest::Parser;
use serde_json::{json, Value};
use std::panic::{catch_unwind, AssertUnwindSafe};
use vmon::model::Tok;
use vmon::pestrun::{err_info, toks_of, ErrInfo};
use vmon::rng::{hash_bytes, Rng};
use vmon::shard::{Args, Report};

const LIMIT: usize = 300_000;

#[derive(Clone, Debug, PartialEq)]
enum Res {
    Ok(Vec<Tok>),
    Err(ErrInfo),
    Limit,
    Panic(String),
}

fn show(r: &Res) -> Value {
    match r {
        Res::Ok(t) => {
            let s = vmon::model::toks_to_string(t);
            json!({"ok": if s.len() > 600 { format!("{}… ({} tokens)", &s[..600], t.len()) } else { s }})
        }
        Res::Err(e) => json!({"err": {"pos": e.pos, "positives": e.positives, "negatives": e.negatives, "custom": e.custom}}),
        Res::Limit => json!("call limit"),
        Res::Panic(m) => json!({"panic": m}),
    }
}

fn guarded(f: impl FnOnce() -> Res) -> Res {
    pest::set_call_limit(std::num::NonZeroUsize::new(LIMIT));
    pest::verif::enable(true);
    pest::verif::set_cap(0);
    let r = catch_unwind(AssertUnwindSafe(f));
    let fin = pest::verif::last_final();
    pest::verif::enable(false);
    pest::set_call_limit(None);
    match r {
        Err(p) => Res::Panic(vmon::pestrun::panic_message(&p)),
        Ok(Res::Err(e)) if e.custom.as_deref() == Some("call limit reached") => Res::Limit,
        Ok(_) if fin.map_or(false, |f| f.calls >= LIMIT) => Res::Limit,
        Ok(r) => r,
    }
}

fn same(a: &Res, b: &Res) -> bool {
    let set = |v: &Vec<String>| {
        let mut x = v.clone();
        x.sort();
        x.dedup();
        x
    };
    match (a, b) {
        (Res::Ok(x), Res::Ok(y)) => x == y,
        (Res::Err(x), Res::Err(y)) => x.pos == y.pos && set(&x.positives) == set(&y.positives) && set(&x.negatives) == set(&y.negatives),
        (Res::Panic(_), Res::Panic(_)) => true,
        _ => false,
    }
}

struct Ctx {
    vm: pest_vm::Vm,
    /// rules present in all three parsers: (name, checked-in variant, fresh variant)
    rules: Vec<(String, pest_meta::parser::Rule, fresh::Rule)>,
}

fn check(rep: &mut Report, ctx: &Ctx, rule_i: usize, text: &str, kind: &str) {
    let (name, checked, fresh_rule) = &ctx.rules[rule_i];
    rep.count("evaluations");
    let r1 = guarded(|| match pest_meta::parser::parse(*checked, text) {
        Ok(p) => Res::Ok(toks_of(p, |r| format!("{r:?}"))),
        Err(e) => Res::Err(err_info(&e, |r| format!("{r:?}"))),
    });
    let r2 = guarded(|| match ctx.vm.parse(name, text) {
        Ok(p) => Res::Ok(toks_of(p, |r| r.to_string())),
        Err(e) => Res::Err(err_info(&e, |r| r.to_string())),
    });
    let r3 = guarded(|| match fresh::FreshParser::parse(*fresh_rule, text) {
        Ok(p) => Res::Ok(toks_of(p, |r| format!("{r:?}"))),
        Err(e) => Res::Err(err_info(&e, |r| format!("{r:?}"))),
    });
    if matches!(r1, Res::Limit) || matches!(r2, Res::Limit) || matches!(r3, Res::Limit) {
        rep.count("skipped_call_limit");
        return;
    }
    let outcome = match &r1 {
        Res::Ok(_) => "accepted",
        Res::Err(_) => "rejected",
        _ => "other",
    };
    rep.count(&format!("outcome:{outcome}"));
    if text.len() >= 4 {
        let ntok = if let Res::Ok(t) = &r1 { t.len().min(64) / 8 } else { 0 };
        rep.nontrivial(hash_bytes(&[name.as_bytes(), text.as_bytes()]), hash_bytes(&[name.as_bytes(), outcome.as_bytes(), &[ntok as u8]]));
        rep.sample_slot(&format!("{outcome}:{}", rule_i % 3), || json!({"rule": name, "text": if text.len() > 240 { format!("{}…", text.chars().take(200).collect::<String>()) } else { text.to_string() }, "mutation": kind, "all_three": show(&r1)}));
    }
    if same(&r1, &r2) && same(&r1, &r3) {
        return;
    }
    rep.violation(json!({"property":"C14","rule":name,"text":text,"mutation":kind,
        "expected":{"checked_in_parser": show(&r1)},
        "observed":{"vm_over_grammar_pest": show(&r2), "freshly_generated_parser": show(&r3)}}));
}

pub fn run(args: &Args) {
    let mut rep = Report::new(args);
    let grammar_text = std::fs::read_to_string(GRAMMAR_PEST).expect("grammar.pest");
    let optimized = match pest_meta::parse_and_optimize(&grammar_text) {
        Ok((_, o)) => o,
        Err(e) => {
            rep.violation(json!({"property":"C14","text":"","rule":"","expected":"grammar.pest is a grammar","observed": e.iter().map(|x| x.to_string()).collect::<Vec<_>>()}));
            rep.finish(args);
            return;
        }
    };
    // the three parsers must know the same rules
    let mut rules = vec![];
    let checked_names: Vec<&str> = CHECKED_IN_RULES.iter().map(|x| x.0).collect();
    let fresh_names: Vec<&str> = FRESH_RULES.iter().map(|x| x.0).collect();
    if args.shard == 0 {
        rep.count("evaluations");
        let mut a: Vec<&str> = checked_names.clone();
        let mut b: Vec<&str> = fresh_names.clone();
        a.sort();
        b.sort();
        if a != b {
            rep.violation(json!({"property":"C14","text":"","rule":"","kind":"rule_sets_differ",
                "expected":{"rules_of_checked_in_parser": a},"observed":{"rules_of_grammar_pest": b}}));
        }
    }
    for (n, c) in CHECKED_IN_RULES {
        if let Some((_, f)) = FRESH_RULES.iter().find(|x| x.0 == *n) {
            if *n != "EOI" {
                rules.push((n.to_string(), *c, *f));
            }
        }
    }
    let ctx = Ctx { vm: pest_vm::Vm::new(optimized), rules };
    rep.add("rules_in_all_three", ctx.rules.len() as u64);
    if let Some(path) = &args.replay {
        let v: Value = serde_json::from_str(&std::fs::read_to_string(path).expect("replay file")).expect("json");
        let w = if v["witness"].is_object() { v["witness"].clone() } else { v.clone() };
        if let Some(i) = ctx.rules.iter().position(|r| Some(r.0.as_str()) == w["rule"].as_str()) {
            check(&mut rep, &ctx, i, w["text"].as_str().unwrap_or(""), "replay");
        }
        rep.finish(args);
        return;
    }
    let mut rng = Rng::new(args.seed, "c14", args.shard);
    let files = vmon::textgen::corpus(args.opt("corpus").unwrap_or("/repo"));
    let cfg = vmon::textgen::default_cfg();
    let top = ctx.rules.iter().position(|r| r.0 == "grammar_rules").unwrap_or(0);
    if args.shard == 0 {
        for (name, t) in &files {
            if !name.contains("fuzzsample") && t.len() < 64 * 1024 {
                check(&mut rep, &ctx, top, t, "unmodified");
            }
        }
    }
    let n = args.budget(300_000, 10_000_000);
    for i in 0..n {
        if rep.elapsed() > args.max_s {
            rep.notes.insert("stopped_early_at".into(), json!(i));
            break;
        }
        let mut r = rng.fork();
        let (text, kind, _source) = vmon::textgen::gen_text(&mut r, i, &files, &cfg);
        // sub-rules get short snippets more often: take a window of the text
        let rule_i = if r.chance(1, 3) { top } else { r.below(ctx.rules.len()) };
        let text = if rule_i != top && text.len() > 8 && r.chance(2, 3) {
            let cs: Vec<char> = text.chars().collect();
            let a = r.below(cs.len());
            let b = (a + 1 + r.below(40)).min(cs.len());
            cs[a..b].iter().collect()
        } else {
            text
        };
        rep.journal(|| json!({"rule": ctx.rules[rule_i].0, "text": text}));
        check(&mut rep, &ctx, rule_i, &text, kind);
    }
    rep.finish(args);
}
