//! mon_meta: C14 — the bootstrapped grammar parser is the parser its grammar file denotes.
mod c14;

use vmon::shard::Args;

fn main() {
    let argv: Vec<String> = std::env::args().collect();
    let args = Args::parse(&argv);
    vmon::pestrun::quiet_panics();
    let a = args.clone();
    std::thread::Builder::new()
        .stack_size(1 << 30)
        .spawn(move || match a.prop.as_str() {
            "c14" => c14::run(&a),
            other => {
                eprintln!("unknown sub-command {other}");
                std::process::exit(3);
            }
        })
        .unwrap()
        .join()
        .unwrap();
}
