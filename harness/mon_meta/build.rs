//! Generates, from the working tree:
//!  * CHECKED_IN_RULES: name -> pest_meta::parser::Rule, read from the `pub enum Rule { .. }` of the
//!    checked-in meta/src/grammar.rs (so it always compiles against that file);
//!  * mod fresh: `#[derive(Parser)] #[grammar = "<abs>/meta/src/grammar.pest"]` built by the working
//!    tree's generator, and FRESH_RULES: name -> fresh::Rule, from the rules pest_meta reads in
//!    grammar.pest.

use std::fmt::Write as _;
use std::path::PathBuf;

fn main() {
    let manifest_dir = PathBuf::from(std::env::var("CARGO_MANIFEST_DIR").unwrap());
    let out_dir = PathBuf::from(std::env::var("OUT_DIR").unwrap());
    let manifest = std::fs::read_to_string(manifest_dir.join("Cargo.toml")).unwrap();
    // the meta crate's directory, from this crate's own `pest_meta = { path = ... }` line
    let meta_dir = manifest
        .lines()
        .find(|l| l.trim_start().starts_with("pest_meta"))
        .and_then(|l| l.split("path = \"").nth(1))
        .and_then(|r| r.split('"').next())
        .map(PathBuf::from)
        .expect("pest_meta path dependency");
    let meta_dir = if meta_dir.is_absolute() { meta_dir } else { manifest_dir.join(meta_dir) };
    let grammar_rs = meta_dir.join("src/grammar.rs");
    let grammar_pest = meta_dir.join("src/grammar.pest");
    println!("cargo:rerun-if-changed={}", grammar_rs.display());
    println!("cargo:rerun-if-changed={}", grammar_pest.display());
    println!("cargo:rerun-if-changed=build.rs");

    // ---- variants of the checked-in enum
    let rs = std::fs::read_to_string(&grammar_rs).expect("grammar.rs");
    let start = rs.find("pub enum Rule").expect("pub enum Rule in grammar.rs");
    let body_start = start + rs[start..].find('{').unwrap() + 1;
    let mut depth = 1usize;
    let mut in_str = false;
    let mut esc = false;
    let mut attr_depth = 0usize;
    let mut clean = String::new();
    let mut end = body_start;
    let bytes: Vec<char> = rs[body_start..].chars().collect();
    let mut i = 0;
    while i < bytes.len() {
        let c = bytes[i];
        if in_str {
            if esc {
                esc = false;
            } else if c == '\\' {
                esc = true;
            } else if c == '"' {
                in_str = false;
            }
        } else if c == '"' {
            in_str = true;
        } else if c == '[' {
            attr_depth += 1;
        } else if c == ']' {
            attr_depth = attr_depth.saturating_sub(1);
        } else if attr_depth == 0 {
            if c == '{' {
                depth += 1;
            } else if c == '}' {
                depth -= 1;
                if depth == 0 {
                    end = i;
                    break;
                }
            } else {
                clean.push(c);
            }
        }
        i += 1;
    }
    let _ = end;
    let checked_in: Vec<String> = clean.split(',').map(|v| v.trim().trim_start_matches(|c: char| c == '#' || c.is_whitespace()).trim_start_matches("r#").trim().to_string()).filter(|v| !v.is_empty()).collect();

    // ---- rules of grammar.pest as the working tree reads it
    let text = std::fs::read_to_string(&grammar_pest).expect("grammar.pest");
    let (_, rules) = pest_meta::parse_and_optimize(&text).unwrap_or_else(|e| {
        panic!("meta/src/grammar.pest is not a grammar the working tree accepts: {}", e.iter().map(|x| x.to_string()).collect::<Vec<_>>().join("\n"))
    });
    let uses_eoi = text.contains("EOI");
    let mut fresh: Vec<String> = vec![];
    if uses_eoi {
        fresh.push("EOI".into());
    }
    for r in &rules {
        fresh.push(r.name.clone());
    }

    let mut out = String::new();
    writeln!(out, "pub static GRAMMAR_PEST: &str = {:?};", grammar_pest.display().to_string()).unwrap();
    writeln!(out, "pub static CHECKED_IN_RULES: &[(&str, pest_meta::parser::Rule)] = &[").unwrap();
    for v in &checked_in {
        writeln!(out, "    ({v:?}, pest_meta::parser::Rule::r#{v}),").unwrap();
    }
    writeln!(out, "];").unwrap();
    writeln!(out, "pub mod fresh {{\n    #[derive(pest_derive::Parser)]\n    #[grammar = {:?}]\n    pub struct FreshParser;\n}}", grammar_pest.display().to_string()).unwrap();
    writeln!(out, "pub static FRESH_RULES: &[(&str, fresh::Rule)] = &[").unwrap();
    for v in &fresh {
        writeln!(out, "    ({v:?}, fresh::Rule::r#{v}),").unwrap();
    }
    writeln!(out, "];").unwrap();
    std::fs::write(out_dir.join("meta_rules.rs"), out).unwrap();
}
