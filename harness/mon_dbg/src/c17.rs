//! C17: the debugger reports exactly the breakpoint hits of the parse under any timing.
//!
//! One HISTORY = (grammar, input, controller operation sequence, delay seed). A controller
//! thread drives the real `pest_debugger::DebuggerContext` exactly the way `debugger/src/main.rs`
//! does (a fresh `sync_channel(1)` per `run`, the previous receiver kept alive until `run` has
//! returned) while hook H4 (`pest_debugger::verif`) appends every named point of both threads
//! to one globally sequenced log and injects seeded delays between the synchronisation
//! operations. The controller writes its own records (`c_*`) into the same log, before each call
//! and after each return. The ORACLE is offline: `judge` replays the merged log against
//!
//!   expected events of a run = the (rule, pos) entry sequence of a plain listener-VM parse
//!   (listener records and returns false) filtered by the breakpoint set in force when each
//!   entry is reached, then `Eof` or `Error(plain error text)`.
//!
//! Edits are only issued while the parser is known not to be between two listener calls (before
//! `run`, after a Breakpoint event was received and before the `cont` answering it, after the
//! final event), so the set in force is a function of the controller's own record order: an
//! edit made while stopped at event k decides which entry becomes event k+1.
//!
//! The controller stays inside the regime of the statement: it calls `cont` once per received
//! Breakpoint event, and calls `run` again only when it has received every delivered event
//! (stopped at a breakpoint with no `cont` outstanding, or after the final event).
//! A re-run while a `cont` is outstanding is NOT exercised in general: there the old parser may
//! deliver one more event into the old channel after the controller's last look, the statement's
//! premise ("has received every delivered event") is not under the controller's control, and the
//! documented CLI never does it (it always receives after `cont`). The one exception are the
//! SLOW-PARSE histories (`build_slow`): there the parser needs hundreds of milliseconds of pure
//! `"a"*` matching to reach its next rule entry, so a `run` issued right after `cont` provably
//! comes before anything further is delivered (`Op::RunBusy`, which still looks once more).
//! Those histories (and their variant that re-runs while parked in front of the long stretch)
//! check that `run` terminates a previous session that is busy inside one long rule: when `run`
//! has returned, the old thread's `th_exit` is in the log and the old channel carries no
//! Breakpoint.
//!
//! While the parse is running the controller otherwise only issues OUTCOME-NEUTRAL breakpoint
//! commands (`Op::Noise`: list, add and delete of a name that is no rule), which contend for the
//! breakpoint lock with the listener but cannot change the expected sequence.
//!
//! With `--cli <pest_debugger binary>` a sub-workload drives the command-line front end
//! (debugger/src/main.rs) over stdin, one process per history, with the same generator and
//! model restricted to what the command line can express, and judges what it prints
//! (`cli_workload`, `judge_cli`).
//!
//! Hangs are judged from the log, not from the clock: see `classify_hang`.

use pest_debugger::{verif, DebuggerContext, DebuggerError, DebuggerEvent};
use pest_meta::ast::Rule;
use pest_meta::optimizer::OptimizedRule;
use serde_json::{json, Value};
use std::collections::{BTreeMap, BTreeSet, HashMap, HashSet, VecDeque};
use std::panic::{catch_unwind, AssertUnwindSafe};
use std::sync::mpsc::{channel, sync_channel, Receiver, RecvTimeoutError, TryRecvError};
use std::sync::Arc;
use std::time::{Duration, Instant};
use vmon::gen::{gen_grammar, GenCfg, Profile};
use vmon::model::Outcome;
use vmon::rng::{hash_bytes, Rng};
use vmon::shard::{Args, Report};

type Rec = verif::Rec;

// ------------------------------------------------------------------------------------------
// Case description (also the replay format)
// ------------------------------------------------------------------------------------------

#[derive(Clone, Debug, PartialEq, Eq)]
enum Op {
    Add(String),
    Del(String),
    AddAll,
    DelAll,
    /// `run(rule)` on a fresh channel. Only executed when no `cont` is outstanding.
    Run(String),
    /// blocking receive (only executed while an event is owed: after `run` / after `cont`)
    Recv,
    Cont,
    /// wait `us` microseconds, then `try_recv`: nothing may be there
    Probe(u64),
    /// controller-side delay (not logged)
    Pause(u64),
    /// after the final event: wait until the parser thread's `th_exit` is in the log
    WaitExit,
    /// While an event is owed (after `run` / `cont`, before the matching `recv`): `n` rounds of
    /// outcome-neutral breakpoint commands in a tight loop - `list_breakpoints()`,
    /// `add_breakpoint(NEVER_A_RULE)`, `delete_breakpoint(NEVER_A_RULE)` - i.e. the controller
    /// takes the breakpoint lock again and again WHILE THE PARSE IS RUNNING. The set of rules
    /// the parse can enter is unchanged by construction, so the expected event sequence is too.
    Noise(u64),
    /// `run(rule)` right after a `cont`, without a `recv` in between. Only used by the slow-parse
    /// histories, where the parser needs hundreds of milliseconds to reach its next rule entry,
    /// so nothing can have been delivered since the last received event and the statement's
    /// premise holds. The executor still looks (`try_recv`) first: an event found there is
    /// received normally and the op degrades to an ordinary re-run.
    RunBusy(String),
}

/// A name no grammar of the workload defines and no parse enters.
const NEVER_A_RULE: &str = "__never_a_rule__";

impl Op {
    fn to_json(&self) -> Value {
        match self {
            Op::Add(r) => json!({"op":"add_breakpoint","rule":r}),
            Op::Del(r) => json!({"op":"delete_breakpoint","rule":r}),
            Op::AddAll => json!({"op":"add_all"}),
            Op::DelAll => json!({"op":"delete_all"}),
            Op::Run(r) => json!({"op":"run","rule":r}),
            Op::Recv => json!({"op":"recv"}),
            Op::Cont => json!({"op":"cont"}),
            Op::Probe(u) => json!({"op":"probe","us":u}),
            Op::Pause(u) => json!({"op":"pause","us":u}),
            Op::WaitExit => json!({"op":"wait_exit"}),
            Op::Noise(n) => json!({"op":"noise","n":n}),
            Op::RunBusy(r) => json!({"op":"run_while_busy","rule":r}),
        }
    }
    fn from_json(v: &Value, default_rule: &str) -> Option<Op> {
        let rule = || v["rule"].as_str().unwrap_or(default_rule).to_string();
        Some(match v["op"].as_str()? {
            "add_breakpoint" | "add" => Op::Add(rule()),
            "delete_breakpoint" | "del" => Op::Del(rule()),
            "add_all" => Op::AddAll,
            "delete_all" | "del_all" => Op::DelAll,
            "run" => Op::Run(rule()),
            "recv" => Op::Recv,
            "cont" => Op::Cont,
            "probe" => Op::Probe(v["us"].as_u64().unwrap_or(0)),
            "pause" => Op::Pause(v["us"].as_u64().unwrap_or(0)),
            "wait_exit" => Op::WaitExit,
            "noise" => Op::Noise(v["n"].as_u64().unwrap_or(100)),
            "run_while_busy" => Op::RunBusy(rule()),
            _ => return None,
        })
    }
}

#[derive(Clone, Debug)]
struct Case {
    grammar: String,
    rule: String,
    input: String,
    ops: Vec<Op>,
    delay_seed: u64,
    origin: String,
    /// After a re-run has returned while the superseded parser thread has NOT logged `th_exit`:
    /// how long the old receiver is watched (until it disconnects) for what that thread still
    /// delivers. Never waited for on a tree where `run` joins the previous thread.
    old_watch_ms: u64,
    /// `{"prefix","repeat","times","suffix"}`: how `input` was built, for the multi-megabyte
    /// inputs of the slow-parse histories (written to witnesses instead of the text itself).
    /// Such a case is a fixed, known-terminating one: the reference interpreter is not consulted.
    input_spec: Option<Value>,
}

fn expand_input_spec(v: &Value) -> Option<String> {
    let times = v["times"].as_u64()? as usize;
    if times > 200_000_000 {
        return None;
    }
    let mut s = String::with_capacity(times + 16);
    s.push_str(v["prefix"].as_str().unwrap_or(""));
    let r = v["repeat"].as_str()?;
    for _ in 0..times {
        s.push_str(r);
    }
    s.push_str(v["suffix"].as_str().unwrap_or(""));
    Some(s)
}

impl Case {
    fn to_json(&self) -> Value {
        let mut v = json!({
            "grammar": self.grammar, "rule": self.rule,
            "history": self.ops.iter().map(|o| o.to_json()).collect::<Vec<_>>(),
            "delay_seed": self.delay_seed, "origin": self.origin, "old_channel_watch_ms": self.old_watch_ms,
        });
        match &self.input_spec {
            Some(spec) => v["input_spec"] = spec.clone(),
            None => v["input"] = json!(self.input),
        }
        v
    }
    fn hash(&self) -> u64 {
        let h = serde_json::to_string(&self.ops.iter().map(|o| o.to_json()).collect::<Vec<_>>()).unwrap();
        hash_bytes(&[self.grammar.as_bytes(), self.rule.as_bytes(), self.input.as_bytes(), h.as_bytes()])
    }
}

// ------------------------------------------------------------------------------------------
// Grammars, plain traces
// ------------------------------------------------------------------------------------------

struct Prepared {
    text: String,
    ast: Vec<Rule>,
    opt: Vec<OptimizedRule>,
    /// the names `add_all_rules_breakpoints` inserts
    names: Vec<String>,
}

fn prepare(text: &str, ast: Option<Vec<Rule>>) -> Option<Prepared> {
    let opt = match pest_meta::parse_and_optimize(text) {
        Ok((_, o)) => o,
        Err(_) => return None,
    };
    let ast = match ast {
        Some(a) => a,
        None => {
            let pairs = pest_meta::parser::parse(pest_meta::parser::Rule::grammar_rules, text).ok()?;
            pest_meta::parser::consume_rules(pairs).ok()?
        }
    };
    let names = opt.iter().map(|r| r.name.clone()).collect();
    Some(Prepared { text: text.to_string(), ast, opt, names })
}

/// The entry sequence of a plain parse and its final event.
#[derive(Clone, Debug)]
struct Plain {
    entries: Vec<(String, usize)>,
    fin: String,
}

fn ev_str(e: &DebuggerEvent) -> String {
    match e {
        DebuggerEvent::Breakpoint(r, p) => format!("bp:{r}@{p}"),
        DebuggerEvent::Eof => "eof".to_string(),
        DebuggerEvent::Error(m) => format!("error:{}", abbrev(m)),
    }
}

/// Error texts quote the whole input line; with the multi-megabyte inputs of the slow-parse
/// cases that must not go into logs and witnesses. Long texts are compared by (prefix, length,
/// FNV-1a hash of the complete text), on both sides of the oracle.
fn abbrev(m: &str) -> String {
    if m.len() <= 600 {
        return m.to_string();
    }
    let mut cut = 200;
    while !m.is_char_boundary(cut) {
        cut -= 1;
    }
    format!("{}...[{} bytes, fnv1a {:016x}]", &m[..cut], m.len(), hash_bytes(&[m.as_bytes()]))
}

/// Plain listener-VM parse: the listener records every (rule, pos) and never stops the parse.
fn plain_trace(opt: &[OptimizedRule], rule: &str, input: &str) -> Result<Plain, String> {
    // The entry sequence of the parse comes from hook H3 (a guard at the very top of
    // `Vm::parse_rule`, before the listener is consulted), not from a listener: the listener is
    // the mechanism under test, so "every rule entry reaches the listener" must not be assumed.
    // Guard: the reference interpreter has finished on this case within 50,000 steps, but the VM
    // need not agree with it (e.g. recursion through the implicit skip); a plain parse that needs
    // more than a million calls is excluded instead of being waited for. The limit is process
    // global: it is set only here, while no parser thread of the debugger exists, and removed
    // again before anything else runs.
    pest::set_call_limit(std::num::NonZeroUsize::new(1_000_000));
    pest::verif::enable(true);
    pest::verif::set_cap(200_000);
    let vm = pest_vm::Vm::new(opt.to_vec());
    let fin = catch_unwind(AssertUnwindSafe(|| match vm.parse(rule, input) {
        Ok(_) => "eof".to_string(),
        Err(e) => format!("error:{}", abbrev(&e.to_string())),
    }));
    let overflowed = pest::verif::overflowed();
    let events = pest::verif::take_events();
    pest::verif::enable(false);
    pest::set_call_limit(None);
    let fin = fin.map_err(|p| vmon::pestrun::panic_message(&p))?;
    if fin.contains("call limit reached") {
        return Err("over the call limit".into());
    }
    if overflowed {
        return Err("more hook events than the cap".into());
    }
    let entries: Vec<(String, usize)> = events
        .into_iter()
        .filter_map(|e| match e {
            pest::verif::Event::VmRuleEnter { rule, pos } => Some((rule, pos)),
            _ => None,
        })
        .take(100_000)
        .collect();
    Ok(Plain { entries, fin })
}

/// What the VM does, without any thread or debugger, when its listener answers `false` for the
/// first `n` rule entries and `true` from then on - exactly what the debugger's listener does
/// once `run` has set `is_done`. Used only to EXPLAIN an observed failure of a mid-parse re-run
/// (attached to the witness; a downgrade to a known finding happens only when
/// known_findings.jsonl lists the key with status "known").
enum AbortOutcome {
    Terminates,
    Panics(String),
    /// the listener was called 20 000 more times after it first asked the parse to stop
    Diverges,
}

fn vm_abort_outcome(opt: &[OptimizedRule], rule: &str, input: &str, n: usize) -> AbortOutcome {
    const BUDGET_MSG: &str = "C17-ABORT-BUDGET";
    let cnt = Arc::new(std::sync::atomic::AtomicUsize::new(0));
    let c2 = Arc::clone(&cnt);
    let vm = pest_vm::Vm::new_with_listener(
        opt.to_vec(),
        Box::new(move |_, _| {
            let i = c2.fetch_add(1, std::sync::atomic::Ordering::SeqCst);
            if i >= n + 20_000 {
                panic!("{}", BUDGET_MSG);
            }
            i >= n
        }),
    );
    match catch_unwind(AssertUnwindSafe(|| {
        let _ = vm.parse(rule, input);
    })) {
        Ok(()) => AbortOutcome::Terminates,
        Err(pn) => {
            let m = vmon::pestrun::panic_message(&pn);
            if m == BUDGET_MSG {
                AbortOutcome::Diverges
            } else {
                AbortOutcome::Panics(m)
            }
        }
    }
}

/// REF first: a case the reference interpreter cannot finish is never handed to the debugger,
/// so a parse can not hang by itself.
fn ref_terminates(ast: &[Rule], rule: &str, input: &str) -> bool {
    let mut r = vmon::reference::Ref::new(ast, input);
    r.max_steps = 50_000;
    r.max_depth = 400;
    matches!(r.parse(rule), Outcome::Match { .. } | Outcome::NoMatch)
}

// ------------------------------------------------------------------------------------------
// The model of the statement (used to GENERATE well-formed histories and to JUDGE logs)
// ------------------------------------------------------------------------------------------

#[derive(Clone, Copy, Debug, PartialEq, Eq)]
enum St {
    Idle,
    /// an event is owed (after `run`, after a `cont` that answered a Breakpoint event)
    Running,
    /// a Breakpoint event was received and not yet answered
    Stopped,
    /// the final event was received
    Finished,
}

fn st_name(s: St) -> &'static str {
    match s {
        St::Idle => "idle",
        St::Running => "running",
        St::Stopped => "stopped",
        St::Finished => "finished",
    }
}

#[derive(Clone)]
struct Model {
    bps: BTreeSet<String>,
    all: Vec<String>,
    idx: usize,
    st: St,
}

impl Model {
    fn new(all: &[String]) -> Model {
        Model { bps: BTreeSet::new(), all: all.to_vec(), idx: 0, st: St::Idle }
    }
    fn edit(&mut self, e: &str) {
        if let Some(r) = e.strip_prefix("add:") {
            self.bps.insert(r.to_string());
        } else if let Some(r) = e.strip_prefix("del:") {
            self.bps.remove(r);
        } else if e == "add_all" {
            for n in &self.all {
                self.bps.insert(n.clone());
            }
        } else if e == "del_all" {
            self.bps.clear();
        }
    }
    fn run(&mut self) {
        self.idx = 0;
        self.st = St::Running;
    }
    /// The next event of the session: the next entry whose rule is in the set in force.
    fn next_event(&mut self, plain: &Plain) -> String {
        for j in self.idx..plain.entries.len() {
            if self.bps.contains(&plain.entries[j].0) {
                self.idx = j + 1;
                self.st = St::Stopped;
                return format!("bp:{}@{}", plain.entries[j].0, plain.entries[j].1);
            }
        }
        self.idx = plain.entries.len();
        self.st = St::Finished;
        plain.fin.clone()
    }
    fn remaining_hits(&self, plain: &Plain) -> usize {
        plain.entries[self.idx.min(plain.entries.len())..].iter().filter(|e| self.bps.contains(&e.0)).count()
    }
}

fn op_edit_string(op: &Op) -> Option<String> {
    match op {
        Op::Add(r) => Some(format!("add:{r}")),
        Op::Del(r) => Some(format!("del:{r}")),
        Op::AddAll => Some("add_all".into()),
        Op::DelAll => Some("del_all".into()),
        _ => None,
    }
}

// ------------------------------------------------------------------------------------------
// History generator (model-driven, so every op is legal in the state the statement predicts)
// ------------------------------------------------------------------------------------------

fn gen_edit(rng: &mut Rng, m: &Model, cands: &[String]) -> Op {
    match rng.weighted(&[5, 4, 1, 1]) {
        0 => Op::Add(rng.pick(cands).clone()),
        1 => {
            if m.bps.is_empty() || rng.chance(1, 6) {
                Op::Del(rng.pick(cands).clone())
            } else {
                let v: Vec<&String> = m.bps.iter().collect();
                Op::Del((*rng.pick(&v)).clone())
            }
        }
        2 => Op::AddAll,
        _ => Op::DelAll,
    }
}

fn push_edit(ops: &mut Vec<Op>, m: &mut Model, op: Op) {
    if let Some(e) = op_edit_string(&op) {
        m.edit(&e);
    }
    ops.push(op);
}

/// `noisy`: after (almost) every `run` / `cont` the controller issues a block of outcome-neutral
/// breakpoint commands while the parser is on its way to the next stop; such histories prefer
/// large breakpoint sets, so that many stops (each a chance for the lock to be contended exactly
/// when a breakpoint rule is entered) follow each other.
fn gen_history(rng: &mut Rng, prep: &Prepared, plains: &HashMap<String, Plain>, start: &str, noisy: bool) -> Vec<Op> {
    const NOISE: &[u64] = &[100, 300, 1000, 2000];
    const PAUSES: &[u64] = &[0, 10, 50, 200, 1000];
    const PROBES: &[u64] = &[0, 20, 100, 500, 2000];
    let mut ops: Vec<Op> = vec![];
    let mut m = Model::new(&prep.names);
    // breakpoint candidates: the rules this parse enters (user rules, silent rules, built-ins),
    // every grammar rule, and one name that never occurs
    let mut hit_names: Vec<String> = vec![];
    for p in plains.values() {
        for (r, _) in &p.entries {
            if !hit_names.contains(r) {
                hit_names.push(r.clone());
            }
        }
    }
    hit_names.sort();
    let mut cands = hit_names.clone();
    for n in &prep.names {
        if !cands.contains(n) {
            cands.push(n.clone());
        }
    }
    cands.push("no_such_rule".to_string());
    if hit_names.is_empty() {
        hit_names = cands.clone();
    }

    if rng.chance(1, 10) {
        ops.push(Op::Cont); // before any run: RunRuleFirst
    }
    match if noisy { 1 + rng.below(4) } else { rng.below(10) } {
        0 => {}
        1 | 2 => push_edit(&mut ops, &mut m, Op::AddAll),
        3 => {
            push_edit(&mut ops, &mut m, Op::AddAll);
            let d = rng.pick(&cands).clone();
            push_edit(&mut ops, &mut m, Op::Del(d));
        }
        _ => {
            for _ in 0..1 + rng.below(3) {
                let a = rng.pick(&hit_names).clone();
                push_edit(&mut ops, &mut m, Op::Add(a));
            }
            if rng.chance(1, 4) {
                let a = rng.pick(&cands).clone();
                push_edit(&mut ops, &mut m, Op::Add(a));
            }
        }
    }
    let rule_pool: Vec<&String> = {
        let mut v: Vec<&String> = plains.keys().collect();
        v.sort();
        v
    };
    let mut cur = start.to_string();
    ops.push(Op::Run(cur.clone()));
    m.run();
    let mut reruns = 0;
    let mut conts = 0;
    let max_conts = if noisy { 12 + rng.below(30) } else { 4 + rng.below(24) };
    loop {
        if ops.len() > 160 {
            break;
        }
        match m.st {
            St::Idle => unreachable!(),
            St::Running => {
                if (noisy && rng.chance(5, 6)) || (!noisy && rng.chance(1, 25)) {
                    ops.push(Op::Noise(*rng.pick(NOISE)));
                } else if rng.chance(1, 5) {
                    ops.push(Op::Pause(*rng.pick(PAUSES)));
                }
                ops.push(Op::Recv);
                m.next_event(&plains[&cur]);
            }
            St::Stopped => {
                for _ in 0..rng.weighted(if noisy { &[75, 20, 5, 0] } else { &[50, 30, 15, 5] }) {
                    match rng.below(10) {
                        0..=2 => ops.push(Op::Probe(*rng.pick(PROBES))),
                        3 | 4 => ops.push(Op::Pause(*rng.pick(PAUSES))),
                        _ => {
                            let e = gen_edit(rng, &m, &cands);
                            push_edit(&mut ops, &mut m, e);
                        }
                    }
                }
                if reruns < 3 && rng.chance(1, 8) {
                    // re-run mid-parse: stopped at a breakpoint, everything delivered was received
                    cur = (*rng.pick(&rule_pool)).clone();
                    ops.push(Op::Run(cur.clone()));
                    m.run();
                    reruns += 1;
                } else {
                    if conts >= max_conts && m.remaining_hits(&plains[&cur]) > 3 {
                        push_edit(&mut ops, &mut m, Op::DelAll);
                    }
                    ops.push(Op::Cont);
                    m.st = St::Running;
                    conts += 1;
                }
            }
            St::Finished => {
                match rng.below(10) {
                    0 | 1 => ops.push(Op::Cont), // inside or after the window before is_done is stored
                    2 | 3 => {
                        ops.push(Op::WaitExit);
                        ops.push(Op::Cont); // must be EofReached
                    }
                    4 => ops.push(Op::Probe(*rng.pick(PROBES))),
                    5 | 6 => {
                        for _ in 0..1 + rng.below(2) {
                            let e = gen_edit(rng, &m, &cands);
                            push_edit(&mut ops, &mut m, e);
                        }
                    }
                    7 => ops.push(Op::Pause(*rng.pick(PAUSES))),
                    _ => {}
                }
                if reruns < 3 && rng.chance(2, 5) {
                    if m.bps.is_empty() && rng.chance(2, 3) {
                        let a = rng.pick(&hit_names).clone();
                        push_edit(&mut ops, &mut m, Op::Add(a));
                    }
                    cur = (*rng.pick(&rule_pool)).clone();
                    ops.push(Op::Run(cur.clone()));
                    m.run();
                    reruns += 1;
                } else {
                    break;
                }
            }
        }
    }
    // run the session to its end, so that the complete sequence is judged and the parser thread
    // is gone before the next history starts
    let mut guard = 0;
    while m.st != St::Finished && guard < 64 {
        guard += 1;
        match m.st {
            St::Running => {
                if noisy && rng.chance(1, 2) {
                    ops.push(Op::Noise(*rng.pick(NOISE)));
                }
                ops.push(Op::Recv);
                m.next_event(&plains[&cur]);
            }
            St::Stopped => {
                if m.remaining_hits(&plains[&cur]) > 4 || guard > 40 {
                    push_edit(&mut ops, &mut m, Op::DelAll);
                }
                ops.push(Op::Cont);
                m.st = St::Running;
            }
            _ => break,
        }
    }
    ops.push(Op::WaitExit);
    ops.push(Op::Cont);
    ops
}

// ------------------------------------------------------------------------------------------
// Controller (runs in its own thread; a hung `run()` cannot be cancelled)
// ------------------------------------------------------------------------------------------

/// Controller-side record. The info is prefixed with a monotonic timestamp (ns since process
/// start, taken under the log's lock) and a \x01 separator (a prefix, because inputs and hence
/// error texts may contain any character); the parser's H4 records have none.
fn p(point: &'static str, info: String) {
    verif::point(point, move || format!("{}\x01{info}", now_ns()));
}

fn now_ns() -> u64 {
    static T0: std::sync::OnceLock<Instant> = std::sync::OnceLock::new();
    T0.get_or_init(Instant::now).elapsed().as_nanos() as u64
}

/// (info without the timestamp, timestamp)
fn split_info(info: &str) -> (&str, Option<u64>) {
    match info.split_once('\x01') {
        Some((t, a)) if !t.is_empty() && t.bytes().all(|b| b.is_ascii_digit()) => (a, t.parse().ok()),
        _ => (info, None),
    }
}

/// The delay `pest_debugger::verif::point` injects AFTER logging record `seq` (a lower bound on
/// the time the thread spends before its next action). Mirrors the plan in debugger/src/lib.rs;
/// used for evidence only (which racy windows were provably hit), never for a verdict.
fn hook_delay_ns(seed: u64, seq: u64, point: &str) -> u64 {
    fn mix(mut z: u64) -> u64 {
        z = z.wrapping_add(0x9e3779b97f4a7c15);
        z = (z ^ (z >> 30)).wrapping_mul(0xbf58476d1ce4e5b9);
        z = (z ^ (z >> 27)).wrapping_mul(0x94d049bb133111eb);
        z ^ (z >> 31)
    }
    if seed == 0 {
        return 0;
    }
    let h = mix(seed ^ mix(seq ^ (point.len() as u64) << 32));
    match h % 100 {
        0..=64 => 0,
        65..=84 => (5 + (h >> 8) % 60) * 1000,
        85..=96 => (50 + (h >> 8) % 300) * 1000,
        _ => (1000 + (h >> 8) % 2000) * 1000,
    }
}

fn delay_us(us: u64) {
    if us == 0 {
        std::thread::yield_now();
    } else if us < 100 {
        let until = Instant::now() + Duration::from_micros(us);
        while Instant::now() < until {
            std::hint::spin_loop();
        }
    } else {
        std::thread::sleep(Duration::from_micros(us));
    }
}

#[derive(Debug)]
enum ExecEnd {
    /// history and clean-up executed; every parser thread logged `th_exit`
    Done,
    /// a blocking receive saw nothing for the whole timeout
    RecvTimeout,
    /// execution stopped at an observation the judge will explain (parser may still be alive)
    Aborted(String),
}

fn execute(case: &Case, timeout: Duration) -> ExecEnd {
    let mut ctx = DebuggerContext::default();
    if let Err(e) = ctx.load_grammar_direct("c17", &case.grammar) {
        return ExecEnd::Aborted(format!("grammar rejected: {e}"));
    }
    ctx.load_input_direct(case.input.clone());
    let mut rx: Option<Receiver<DebuggerEvent>> = None;
    let mut st = St::Idle;
    let mut runs_ok = 0usize;
    let mut waited_exit = false;
    let mut ops: VecDeque<Op> = case.ops.iter().cloned().collect();
    let mut cleanup_steps = 0;
    loop {
        let op = match ops.pop_front() {
            Some(o) => o,
            None => {
                // clean-up (only when the given history ends mid-session, e.g. a hand-written replay)
                cleanup_steps += 1;
                if cleanup_steps > 24 {
                    return ExecEnd::Aborted("clean-up did not reach the end of the session".into());
                }
                match st {
                    St::Idle => break,
                    St::Running => Op::Recv,
                    St::Stopped => {
                        ops.push_back(Op::Cont);
                        Op::DelAll
                    }
                    St::Finished => {
                        if waited_exit {
                            break;
                        }
                        Op::WaitExit
                    }
                }
            }
        };
        match op {
            Op::Pause(us) => delay_us(us),
            Op::Add(_) | Op::Del(_) | Op::AddAll | Op::DelAll => {
                if st == St::Running {
                    p("c_skip", "edit".into());
                    continue;
                }
                p("c_edit", op_edit_string(&op).unwrap());
                match op {
                    Op::Add(r) => ctx.add_breakpoint(r),
                    Op::Del(r) => ctx.delete_breakpoint(&r),
                    Op::AddAll => ctx.add_all_rules_breakpoints().expect("grammar is loaded"),
                    _ => ctx.delete_all_breakpoints(),
                }
            }
            Op::Noise(n) => {
                if st != St::Running {
                    p("c_skip", "noise".into());
                    continue;
                }
                // one record before and one after: a record per command would put the log's
                // lock and the hook's delays between the commands
                p("c_noise_begin", n.to_string());
                let mut listed = 0usize;
                for _ in 0..n {
                    listed += ctx.list_breakpoints().len();
                    ctx.add_breakpoint(NEVER_A_RULE.to_string());
                    ctx.delete_breakpoint(NEVER_A_RULE);
                }
                p("c_noise_end", format!("{}|{listed}", 3 * n));
            }
            Op::Run(_) | Op::RunBusy(_) => {
                let (rule, busy) = match op {
                    Op::Run(r) => (r, false),
                    Op::RunBusy(r) => (r, true),
                    _ => unreachable!(),
                };
                if st == St::Running && !busy {
                    p("c_skip", "run".into());
                    continue;
                }
                if st == St::Running {
                    // the premise "every delivered event was received": look once more
                    match rx.as_ref().unwrap().try_recv() {
                        Ok(ev) => {
                            p("c_recv_call", String::new());
                            st = if matches!(ev, DebuggerEvent::Breakpoint(..)) { St::Stopped } else { St::Finished };
                            p("c_recv", ev_str(&ev));
                        }
                        Err(TryRecvError::Empty) => {}
                        Err(TryRecvError::Disconnected) => {
                            p("c_recv_disc", String::new());
                            return ExecEnd::Aborted("event channel disconnected".into());
                        }
                    }
                }
                let kind = match st {
                    St::Idle => "first",
                    St::Stopped => "mid",
                    St::Running => "busy",
                    _ => "end",
                };
                // as debugger/src/main.rs: a new channel per run; the old receiver lives until
                // `run` has returned
                let (tx, nrx) = sync_channel(1);
                p("c_run_call", format!("{rule}|{kind}"));
                let r = catch_unwind(AssertUnwindSafe(|| ctx.run(&rule, tx)));
                let s = match r {
                    Ok(Ok(())) => "ok".to_string(),
                    Ok(Err(e)) => format!("err:{e}"),
                    Err(pn) => format!("panic:{}", vmon::pestrun::panic_message(&pn)),
                };
                p("c_run_ret", s.clone());
                if let Some(old) = rx.take() {
                    // whatever the terminated session still put into its own channel
                    while let Ok(ev) = old.try_recv() {
                        p("c_old", ev_str(&ev));
                    }
                    // `run` has returned, so the previous parser thread is expected to be gone
                    // (th_exit logged). If it is not, keep the OLD channel open and watch what
                    // that thread still delivers, until it disconnects or the watch time is over.
                    let exited = verif::log().iter().filter(|r| r.point == "th_exit").count();
                    if s == "ok" && exited < runs_ok {
                        let deadline = Instant::now() + Duration::from_millis(case.old_watch_ms);
                        let how = loop {
                            let left = deadline.saturating_duration_since(Instant::now());
                            if left.is_zero() {
                                break "watch_time_over";
                            }
                            match old.recv_timeout(left) {
                                Ok(ev) => {
                                    let is_bp = matches!(ev, DebuggerEvent::Breakpoint(..));
                                    p("c_old", ev_str(&ev));
                                    if is_bp {
                                        // a superseded session reporting a breakpoint hit: the
                                        // judge needs nothing more, and that thread now parks
                                        break "breakpoint_delivered";
                                    }
                                }
                                Err(RecvTimeoutError::Timeout) => break "watch_time_over",
                                Err(RecvTimeoutError::Disconnected) => break "disconnected",
                            }
                        };
                        p("c_old_watch", how.into());
                        if how != "disconnected" {
                            return ExecEnd::Aborted("the previous parser thread is still alive after run returned".into());
                        }
                    }
                }
                if s != "ok" {
                    return ExecEnd::Aborted(format!("run returned {s}"));
                }
                rx = Some(nrx);
                st = St::Running;
                runs_ok += 1;
                waited_exit = false;
            }
            Op::Recv => {
                if st != St::Running {
                    p("c_skip", "recv".into());
                    continue;
                }
                p("c_recv_call", String::new());
                match rx.as_ref().unwrap().recv_timeout(timeout) {
                    Ok(ev) => {
                        st = if matches!(ev, DebuggerEvent::Breakpoint(..)) { St::Stopped } else { St::Finished };
                        p("c_recv", ev_str(&ev));
                    }
                    Err(RecvTimeoutError::Timeout) => {
                        p("c_recv_timeout", String::new());
                        return ExecEnd::RecvTimeout;
                    }
                    Err(RecvTimeoutError::Disconnected) => {
                        p("c_recv_disc", String::new());
                        return ExecEnd::Aborted("event channel disconnected".into());
                    }
                }
            }
            Op::Cont => {
                if st == St::Running {
                    p("c_skip", "cont".into());
                    continue;
                }
                p("c_cont_call", st_name(st).into());
                let s = match ctx.cont() {
                    Ok(()) => "ok".to_string(),
                    Err(DebuggerError::EofReached) => "err:EofReached".to_string(),
                    Err(DebuggerError::RunRuleFirst) => "err:RunRuleFirst".to_string(),
                    Err(e) => format!("err:{e}"),
                };
                p("c_cont_ret", s.clone());
                if st == St::Stopped {
                    if s == "ok" {
                        st = St::Running;
                    } else {
                        return ExecEnd::Aborted(format!("cont returned {s} at a breakpoint"));
                    }
                }
            }
            Op::Probe(us) => {
                if st != St::Stopped && st != St::Finished {
                    p("c_skip", "probe".into());
                    continue;
                }
                delay_us(us);
                match rx.as_ref().unwrap().try_recv() {
                    Ok(ev) => {
                        p("c_probe", format!("event:{}", ev_str(&ev)));
                        return ExecEnd::Aborted("an event arrived while none was owed".into());
                    }
                    Err(TryRecvError::Empty) => p("c_probe", "empty".into()),
                    Err(TryRecvError::Disconnected) => p("c_probe", "disconnected".into()),
                }
            }
            Op::WaitExit => {
                if st != St::Finished {
                    p("c_skip", "wait_exit".into());
                    continue;
                }
                let t0 = Instant::now();
                loop {
                    let n = verif::log().iter().filter(|r| r.point == "th_exit").count();
                    if n >= runs_ok {
                        break;
                    }
                    if t0.elapsed() > timeout {
                        p("c_wait_exit", "timeout".into());
                        return ExecEnd::Aborted("parser thread did not log th_exit".into());
                    }
                    std::thread::sleep(Duration::from_micros(30));
                }
                p("c_wait_exit", "ok".into());
                waited_exit = true;
            }
        }
    }
    ExecEnd::Done
}

enum Outcome17 {
    Ended(ExecEnd),
    /// no log progress for timeout + 2 s while the controller thread is still inside a call
    Hung,
    HarnessError(String),
}

/// Runs one history: controller in its own thread, this thread is the watchdog.
fn run_history(case: &Case, timeout: Duration) -> (Outcome17, Vec<Rec>) {
    verif::reset(case.delay_seed);
    let (dtx, drx) = channel();
    let c = case.clone();
    let th = std::thread::Builder::new().name("c17-controller".into()).spawn(move || {
        let end = catch_unwind(AssertUnwindSafe(|| execute(&c, timeout)));
        let _ = dtx.send(end);
    });
    let th = match th {
        Ok(t) => t,
        Err(e) => return (Outcome17::HarnessError(format!("spawn: {e}")), vec![]),
    };
    let mut last_len = usize::MAX;
    let mut last_change = Instant::now();
    let out = loop {
        match drx.recv_timeout(Duration::from_millis(200)) {
            Ok(Ok(end)) => break Outcome17::Ended(end),
            Ok(Err(pn)) => break Outcome17::HarnessError(format!("controller panicked: {}", vmon::pestrun::panic_message(&pn))),
            Err(std::sync::mpsc::RecvTimeoutError::Timeout) => {
                let n = verif::log().len();
                if n != last_len {
                    last_len = n;
                    last_change = Instant::now();
                } else if last_change.elapsed() > timeout + Duration::from_secs(2) {
                    break Outcome17::Hung;
                }
            }
            Err(std::sync::mpsc::RecvTimeoutError::Disconnected) => break Outcome17::HarnessError("controller vanished".into()),
        }
    };
    if !matches!(out, Outcome17::Hung) {
        let _ = th.join();
    }
    (out, verif::log())
}

// ------------------------------------------------------------------------------------------
// Offline oracle over the merged log
// ------------------------------------------------------------------------------------------

#[derive(Default, Debug)]
struct Sess {
    rule: String,
    kind: String,
    run_call: u64,
    run_ok: bool,
    thread: Option<String>,
    /// parser side
    bbs: Vec<u64>,
    bas: Vec<u64>,
    bap: Vec<u64>,
    final_sent: Option<u64>,
    exit: Option<u64>,
    /// controller side: `cont` calls that answer a received Breakpoint event
    cont_calls: Vec<u64>,
    cont_rets: Vec<u64>,
    /// (stop index the edit was made at, seq)
    edits: Vec<(usize, u64)>,
    cbu: Vec<u64>,
    cau: Vec<u64>,
    /// seq of the `c_recv` of each Breakpoint event
    recvs: Vec<u64>,
    final_recv: Option<u64>,
    /// H4 points of the `run` call that started this session (= terminated the previous one)
    r_has_handle: Option<u64>,
    r_before_flag: Option<u64>,
    r_after_unpark: Option<u64>,
    r_joined: Option<u64>,
    /// seq of the `c_run_call` that superseded this session
    superseded: Option<u64>,
}

#[derive(Default)]
struct Judged {
    violation: Option<(String, Value, Value)>,
    inconclusive: Option<String>,
    counters: BTreeMap<String, u64>,
    bp_events: u64,
    real_conts: u64,
    ilv: u64,
    shape: u64,
    saw_recv_timeout: bool,
    /// (rule, entries entered) of the session the LAST mid-parse re-run superseded
    last_mid_ctx: Option<(String, usize)>,
    /// checks switched off with `--skip-check kind[,kind]` (trust experiments only: shows that
    /// the remaining checks catch an injected defect on their own)
    skip: HashSet<String>,
}

impl Judged {
    fn c(&mut self, k: &str) {
        *self.counters.entry(k.to_string()).or_insert(0) += 1;
    }
    fn add(&mut self, k: &str, n: u64) {
        *self.counters.entry(k.to_string()).or_insert(0) += n;
    }
    fn v(&mut self, kind: &str, expected: Value, observed: Value) {
        if self.skip.contains(kind) {
            self.c(&format!("check_switched_off:{kind}"));
            return;
        }
        if self.violation.is_none() {
            self.violation = Some((kind.to_string(), expected, observed));
        }
    }
}

fn controller_tid(log: &[Rec]) -> Option<String> {
    log.iter().find(|r| r.point.starts_with("c_")).map(|r| r.thread.clone())
}

fn judge(case: &Case, names: &[String], log: &[Rec], skip: &HashSet<String>, plain_of: &mut dyn FnMut(&str) -> Option<Plain>) -> Judged {
    let mut j = Judged { skip: skip.clone(), ..Default::default() };
    let ctid = match controller_tid(log) {
        Some(t) => t,
        None => {
            if !log.is_empty() {
                j.inconclusive = Some("log without controller records".into());
            }
            return j;
        }
    };
    // interleaving signature: cross-thread order of (role, point); shape: the two projections
    {
        let mut all = Vec::with_capacity(log.len() * 16);
        let mut cs = Vec::new();
        let mut ps = Vec::new();
        for r in log {
            let role = if r.thread == ctid { b'C' } else { b'P' };
            all.push(role);
            all.extend_from_slice(r.point.as_bytes());
            all.push(b';');
            let side = if role == b'C' { &mut cs } else { &mut ps };
            side.extend_from_slice(r.point.as_bytes());
            side.push(b';');
        }
        j.ilv = hash_bytes(&[&all]);
        j.shape = hash_bytes(&[&cs, &ps]);
    }

    let mut m = Model::new(names);
    let mut sess: Vec<Sess> = vec![];
    let mut plains: Vec<Option<Plain>> = vec![];
    let mut thread_sess: HashMap<String, usize> = HashMap::new();
    let mut ok_sessions: Vec<usize> = vec![]; // indices of sessions whose run returned ok, in order
    let mut in_real_cont = false;
    let mut cont_state = St::Idle;
    let mut cont_call_seq = 0u64;
    let mut in_run = false;
    let mut old_events_this_run = 0;
    // for the noise evidence: where the parser was last resumed (run / cont) and the first
    // bp_before_send / th_final_sent it logged after that
    let mut resume_seq = 0u64;
    let mut stop_after_resume: Option<u64> = None;
    let mut noise_began_after_stop = false;
    let ill = |j: &mut Judged, what: &str| {
        if j.inconclusive.is_none() {
            j.inconclusive = Some(format!("ill-formed history / harness: {what}"));
        }
    };

    let mut ctimes: Vec<(u64, u64)> = vec![]; // (seq, ns) of the controller's stamped records
    for r in log {
        if let (_, Some(t)) = split_info(&r.info) {
            ctimes.push((r.seq, t));
        }
    }
    let stripped: Vec<Rec> = log
        .iter()
        .map(|r| Rec { seq: r.seq, thread: r.thread.clone(), point: r.point, info: split_info(&r.info).0.to_string() })
        .collect();
    for r in &stripped {
        if j.violation.is_some() {
            break;
        }
        let seq = r.seq;
        if r.thread == ctid {
            match r.point {
                "c_skip" => j.c("ops_skipped_not_legal_in_state"),
                "c_edit" => {
                    if m.st == St::Running {
                        ill(&mut j, "edit while an event is owed");
                    }
                    m.edit(&r.info);
                    j.c("breakpoint_edits");
                    j.c(&format!("op:{}", r.info.split(':').next().unwrap_or("")));
                    if let Some(s) = sess.last_mut() {
                        if m.st == St::Stopped && !s.bbs.is_empty() {
                            s.edits.push((s.bbs.len() - 1, seq));
                            if s.bas.len() < s.bbs.len() {
                                j.c("window:edit_logged_before_bp_after_send");
                            }
                        }
                    }
                }
                "c_run_call" => {
                    let (rule, kind) = r.info.split_once('|').unwrap_or((&r.info, "?"));
                    // kind "busy": the slow-parse histories' re-run right after a cont (nothing
                    // can have been delivered since; the executor looked once more)
                    if m.st == St::Running && kind != "busy" {
                        ill(&mut j, "run while an event is owed");
                    }
                    resume_seq = seq;
                    stop_after_resume = None;
                    if !names.iter().any(|n| n == rule) {
                        ill(&mut j, "run of a rule the grammar does not define");
                    }
                    let mut prev_stop = None;
                    if let Some(prev) = sess.last_mut() {
                        prev.superseded = Some(seq);
                        if m.st == St::Stopped {
                            prev_stop = Some((prev.rule.clone(), m.idx));
                        }
                    }
                    // (rule of the superseded session, number of plain entries it had entered)
                    j.last_mid_ctx = prev_stop;
                    sess.push(Sess { rule: rule.to_string(), kind: kind.to_string(), run_call: seq, ..Default::default() });
                    plains.push(plain_of(rule));
                    if plains.last().unwrap().is_none() {
                        ill(&mut j, "no plain trace for the rule");
                    }
                    m.run();
                    in_run = true;
                    old_events_this_run = 0;
                    j.c("runs");
                    match kind {
                        "mid" => j.c("reruns_mid_parse"),
                        "end" => j.c("reruns_after_end"),
                        "busy" => j.c("reruns_while_parser_busy_in_one_long_rule"),
                        _ => {}
                    }
                }
                "c_noise_begin" => {
                    if m.st != St::Running {
                        ill(&mut j, "noise while no event is owed");
                    }
                    noise_began_after_stop = stop_after_resume.is_some();
                }
                "c_noise_end" => {
                    // outcome-neutral by construction: the model's set is untouched
                    let n: u64 = r.info.split('|').next().and_then(|x| x.parse().ok()).unwrap_or(0);
                    j.c("noise_blocks");
                    j.add("noise_commands_issued", n);
                    if noise_began_after_stop {
                        j.c("noise_blocks_begun_after_parser_reached_its_next_stop");
                    } else if stop_after_resume.is_none() {
                        // neither bp_before_send nor th_final_sent of the resumed parser was
                        // logged before the block ended: every command ran next to a parser
                        // that was on its way to the next stop
                        j.c("noise_blocks_entirely_while_parser_on_its_way");
                        j.add("noise_commands_while_parser_on_its_way", n);
                    } else {
                        j.c("noise_blocks_during_which_parser_reached_its_next_stop");
                    }
                    let _ = resume_seq;
                }
                "c_old_watch" => j.c(&format!("old_channel_watched_after_rerun:{}", r.info)),
                "run_has_handle" => {
                    if let Some(s) = sess.last_mut() {
                        s.r_has_handle = Some(seq);
                    }
                }
                "run_before_flag" => {
                    if let Some(s) = sess.last_mut() {
                        s.r_before_flag = Some(seq);
                    }
                }
                "run_after_flag" => {}
                "run_after_unpark" => {
                    if let Some(s) = sess.last_mut() {
                        s.r_after_unpark = Some(seq);
                    }
                }
                "run_joined" => {
                    if let Some(s) = sess.last_mut() {
                        s.r_joined = Some(seq);
                    }
                }
                "c_run_ret" => {
                    in_run = false;
                    let s = sess.last_mut().unwrap();
                    if r.info == "ok" {
                        s.run_ok = true;
                        ok_sessions.push(sess.len() - 1);
                        // "starting a new run always terminates the previous one": when `run`
                        // has returned, the previous parser thread must be gone, i.e. its th_exit
                        // is in the log. (Behaviour, not mechanism: `run_joined` is not required.)
                        if sess.len() >= 2 {
                            let prev = &sess[sess.len() - 2];
                            if prev.run_ok && prev.exit.is_none() {
                                let later: Vec<String> = stripped
                                    .iter()
                                    .filter(|x| x.seq > seq && (x.point == "c_old" || x.point == "c_old_watch" || (x.thread != ctid && Some(&x.thread) == prev.thread.as_ref())))
                                    .take(12)
                                    .map(|x| format!("{} {} {}", x.seq, x.point, x.info))
                                    .collect();
                                j.v(
                                    "previous_session_not_terminated_when_run_returned",
                                    json!("th_exit of the previous parser thread logged before run returns"),
                                    json!({"previous_session": sess.len() - 1, "its_last_point_before_run_returned": stripped.iter().rev().find(|x| x.seq < seq && Some(&x.thread) == prev.thread.as_ref()).map(|x| x.point), "what_it_did_afterwards": later}),
                                );
                            }
                        }
                    } else {
                        // "starting a new run always terminates the previous one": the new run
                        // must start; Err(PreviousRunPanic) / a panic is not that
                        j.v("run_failed", json!("Ok(())"), json!(r.info));
                    }
                }
                "c_old" => {
                    // The superseded session was waiting for a continue that never came (kind
                    // "mid") or had delivered its final event (kind "end"): the statement's
                    // "delivers nothing while waiting for a continue" / "exactly the sequence"
                    // forbid a further Breakpoint / any further event. After a mid-parse re-run
                    // the aborted parse still reports how it ended (Eof / Error) into its own
                    // channel; the statement says nothing about that one event: permitted.
                    old_events_this_run += 1;
                    let kind = sess.last().map(|s| s.kind.clone()).unwrap_or_default();
                    j.c("old_channel_events_after_rerun");
                    if r.info.starts_with("bp:") {
                        j.v("stale_breakpoint_event_after_rerun", json!("no Breakpoint event from a session that was not continued"), json!(r.info));
                    } else if kind == "end" || old_events_this_run > 1 {
                        j.v("stale_event_after_rerun", json!("nothing further on the old channel"), json!(r.info));
                    }
                }
                "c_recv_call" => {}
                "c_recv" => {
                    if m.st != St::Running {
                        ill(&mut j, "recv while no event is owed");
                        continue;
                    }
                    let si = sess.len() - 1;
                    let plain = match &plains[si] {
                        Some(p) => p,
                        None => continue,
                    };
                    let exp = m.next_event(plain);
                    j.c("evaluations");
                    j.c("events_checked");
                    if r.info != exp {
                        let k = sess[si].recvs.len() + 1;
                        j.v(
                            "event_mismatch",
                            json!({"session": si + 1, "event_number": k, "event": exp, "breakpoints_in_force": m.bps.iter().collect::<Vec<_>>()}),
                            json!({"event": r.info}),
                        );
                        continue;
                    }
                    if r.info.starts_with("bp:") {
                        sess[si].recvs.push(seq);
                        j.bp_events += 1;
                        j.c("events:breakpoint");
                    } else {
                        sess[si].final_recv = Some(seq);
                        j.c(if r.info == "eof" { "events:eof" } else { "events:error" });
                        j.c("sessions_run_to_end");
                    }
                }
                "c_recv_timeout" => j.saw_recv_timeout = true,
                "c_recv_disc" => {
                    let exp = sess.len().checked_sub(1).and_then(|si| plains[si].as_ref().map(|p| m.clone().next_event(p)));
                    j.v("event_channel_disconnected", json!({"event": exp}), json!("all senders dropped without delivering it (parser thread died)"));
                }
                "c_cont_call" => {
                    if m.st == St::Stopped {
                        resume_seq = seq;
                        stop_after_resume = None;
                    }
                    cont_state = m.st;
                    cont_call_seq = seq;
                    if m.st == St::Running {
                        ill(&mut j, "cont while an event is owed");
                    }
                    if m.st == St::Stopped {
                        in_real_cont = true;
                        sess.last_mut().unwrap().cont_calls.push(seq);
                    }
                }
                "cont_before_unpark" => {
                    if in_real_cont {
                        sess.last_mut().unwrap().cbu.push(seq);
                    }
                }
                "cont_after_unpark" => {
                    if in_real_cont {
                        sess.last_mut().unwrap().cau.push(seq);
                    }
                }
                "c_cont_ret" => {
                    in_real_cont = false;
                    match cont_state {
                        St::Stopped => {
                            sess.last_mut().unwrap().cont_rets.push(seq);
                            j.real_conts += 1;
                            j.c("conts");
                            if r.info == "ok" {
                                m.st = St::Running;
                            } else {
                                j.v("cont_refused_at_breakpoint", json!("Ok(())"), json!(r.info));
                            }
                        }
                        St::Idle => {
                            j.c("cont_before_any_run");
                            j.c("evaluations");
                            if r.info != "err:RunRuleFirst" {
                                j.v("cont_before_run", json!("Err(RunRuleFirst)"), json!(r.info));
                            }
                        }
                        St::Finished => {
                            // Inherent window between the final send and is_done.store(true):
                            // Err(EofReached) is only required once th_exit is in the log.
                            let exited = sess.last().and_then(|s| s.exit).map(|e| e < cont_call_seq).unwrap_or(false);
                            if exited {
                                j.c("cont_after_thread_exit");
                                j.c("evaluations");
                                if r.info != "err:EofReached" {
                                    j.v("cont_after_end", json!("Err(EofReached) once th_exit is logged"), json!(r.info));
                                }
                            } else if r.info == "ok" {
                                j.c("window:cont_ok_between_final_send_and_is_done");
                            } else {
                                j.c("cont_after_final_before_exit_refused");
                            }
                        }
                        St::Running => {}
                    }
                }
                "c_probe" => {
                    j.c("probes");
                    j.c("evaluations");
                    if let Some(ev) = r.info.strip_prefix("event:") {
                        if m.st == St::Stopped {
                            j.v("delivered_while_waiting_for_continue", json!("nothing before the next cont"), json!({"event": ev}));
                        } else {
                            j.v("event_after_final", json!("nothing after the final event"), json!({"event": ev}));
                        }
                    } else if r.info == "disconnected" && m.st == St::Stopped {
                        j.v("event_channel_disconnected", json!("parser parked at the breakpoint"), json!("all senders dropped"));
                    }
                }
                "c_wait_exit" => {
                    if r.info != "ok" {
                        j.inconclusive = Some("th_exit not logged within the timeout after the final event".into());
                    }
                }
                _ => {}
            }
        } else {
            // parser thread: the k-th distinct parser thread belongs to the k-th successful run
            let si = match thread_sess.get(&r.thread) {
                Some(s) => *s,
                None => {
                    let k = thread_sess.len();
                    // the run may not have returned yet (thread starts inside run): it is the
                    // session being started, i.e. the last one
                    let si = if k < ok_sessions.len() {
                        ok_sessions[k]
                    } else if in_run && k == ok_sessions.len() && !sess.is_empty() {
                        sess.len() - 1
                    } else {
                        ill(&mut j, "parser thread that belongs to no run");
                        continue;
                    };
                    if sess[si].thread.is_some() || seq < sess[si].run_call {
                        ill(&mut j, "parser thread / session mapping");
                        continue;
                    }
                    sess[si].thread = Some(r.thread.clone());
                    thread_sess.insert(r.thread.clone(), si);
                    si
                }
            };
            if si + 1 == sess.len() && stop_after_resume.is_none() && seq > resume_seq && matches!(r.point, "bp_before_send" | "th_final_sent") {
                stop_after_resume = Some(seq);
            }
            let s = &mut sess[si];
            match r.point {
                "bp_before_send" => {
                    let k = s.bbs.len() + 1; // this is stop number k of the session
                    s.bbs.push(seq);
                    // one event per continue: stop k needs k-1 answered continues
                    if s.cont_calls.len() < k - 1 {
                        j.v(
                            "delivered_without_continue",
                            json!(format!("stop {k} of session {} reached only after cont number {} was called", si + 1, k - 1)),
                            json!({"bp_before_send": r.info, "seq": seq, "conts_called_so_far": s.cont_calls.len(), "superseded_by_rerun": s.superseded.is_some()}),
                        );
                    }
                }
                "bp_after_send" => s.bas.push(seq),
                "bp_after_park" => {
                    let k = s.bap.len() + 1;
                    s.bap.push(seq);
                    // leaving the park of stop k needs cont k to have begun (cont_before_unpark
                    // precedes the unpark) or a re-run to have begun (run_before_flag precedes its
                    // unpark). Leaving it otherwise = resumed without a continue, which always
                    // ends in a delivery (next Breakpoint or the final event) nobody asked for.
                    let by_cont = s.cbu.len() >= k;
                    let by_run = sess.get(si + 1).map(|n| n.r_before_flag.is_some()).unwrap_or(false);
                    if !by_cont && !by_run {
                        j.v(
                            "resumed_without_continue",
                            json!(format!("park of stop {k} of session {} left only after cont/run started an unpark", si + 1)),
                            json!({"bp_after_park_seq": seq, "conts_begun": sess[si].cbu.len()}),
                        );
                    }
                }
                "th_final_sent" => {
                    s.final_sent = Some(seq);
                    if s.cont_calls.len() < s.bbs.len() && s.superseded.is_none() {
                        j.v(
                            "final_event_without_continue",
                            json!("the final event only after every stop was continued (or the session was superseded by run)"),
                            json!({"stops": s.bbs.len(), "conts": s.cont_calls.len(), "seq": seq}),
                        );
                    }
                }
                "th_exit" => s.exit = Some(seq),
                _ => {}
            }
        }
    }

    // Racy windows actually hit (evidence, not verdicts).
    // (1) by log order alone: the hook logs `bp_after_send` right after the send and injects its
    //     delay only afterwards, so "controller record logged before bp_after_send" needs the
    //     parser to be pre-empted within nanoseconds of the send: rare.
    // (2) proven with the delay plan: the parser calls thread::park() no earlier than
    //     T(latest stamped controller record logged before bp_after_send) + delay injected at
    //     bp_after_send; a controller action stamped before that instant provably happened
    //     while the parser had not parked yet. A lower bound on how often the window was hit.
    let time_of = |seq: u64| -> Option<u64> { ctimes.binary_search_by_key(&seq, |x| x.0).ok().map(|i| ctimes[i].1) };
    let stamped_before = |seq: u64| -> Option<u64> {
        let i = ctimes.partition_point(|x| x.0 < seq);
        if i == 0 {
            None
        } else {
            Some(ctimes[i - 1].1)
        }
    };
    let not_parked_before = |bas_seq: u64| -> Option<u64> { stamped_before(bas_seq).map(|t| t + hook_delay_ns(case.delay_seed, bas_seq, "bp_after_send")) };
    for si in 0..sess.len() {
        let s = &sess[si];
        for k in 0..s.bas.len() {
            let park_entry = s.bas[k];
            if let Some(c) = s.cbu.get(k) {
                if *c < park_entry {
                    j.c("window:cont_before_unpark_logged_before_bp_after_send");
                }
            }
            if let Some(c) = s.cau.get(k) {
                if *c < park_entry {
                    j.c("window:cont_after_unpark_logged_before_bp_after_send");
                }
            }
            if let Some(c) = s.recvs.get(k) {
                if *c < park_entry {
                    j.c("window:event_received_before_bp_after_send_logged");
                }
            }
            if let Some(limit) = not_parked_before(park_entry) {
                j.c("stops_with_park_time_bound");
                if s.cont_calls.get(k).and_then(|c| time_of(*c)).map(|t| t < limit).unwrap_or(false) {
                    j.c("window:cont_called_before_parser_parked(proven)");
                }
                if s.cont_rets.get(k).and_then(|c| time_of(*c)).map(|t| t <= limit).unwrap_or(false) {
                    j.c("window:unpark_completed_before_park,token_kept(proven)");
                }
                if s.edits.iter().any(|(kk, q)| *kk == k && time_of(*q).map(|t| t < limit).unwrap_or(false)) {
                    j.c("window:breakpoint_edit_before_parser_parked(proven)");
                }
                if k + 1 == s.bbs.len() {
                    if let Some(n) = sess.get(si + 1) {
                        if n.kind == "mid" && time_of(n.run_call).map(|t| t < limit).unwrap_or(false) {
                            j.c("window:rerun_called_before_parser_parked(proven)");
                        }
                    }
                }
            }
        }
        if let Some(n) = sess.get(si + 1) {
            if n.kind == "mid" {
                if let (Some(f), Some(last_bbs)) = (n.r_before_flag, s.bbs.last()) {
                    let park_entry = s.bas.get(s.bbs.len() - 1).copied();
                    let left = s.bap.get(s.bbs.len() - 1).copied();
                    if f > *last_bbs && park_entry.map(|a| f < a).unwrap_or(true) {
                        j.c("window:run_before_flag_logged_before_bp_after_send");
                    }
                    if let (Some(u), Some(a)) = (n.r_after_unpark, park_entry) {
                        if u < a {
                            j.c("window:run_after_unpark_logged_before_bp_after_send");
                        }
                    }
                    if left.is_some() {
                        j.c("rerun_mid_parse_parser_woken_and_left");
                    }
                }
            }
            if n.kind == "end" {
                if let Some(fs) = s.final_sent {
                    if n.run_call < fs {
                        j.c("window:rerun_called_before_th_final_sent_logged");
                    }
                }
                if n.r_before_flag.is_some() {
                    j.c("window:rerun_saw_is_done_false_after_final_event");
                }
                if let Some(e) = s.exit {
                    if n.run_call < e {
                        j.c("window:rerun_called_before_thread_exit");
                    }
                }
            }
        }
    }
    j
}

/// What a stalled history means, read off the log. Returns (Some(kind) for a violation | None
/// for inconclusive, description).
fn classify_hang(log: &[Rec], timeout: Duration) -> (Option<&'static str>, String) {
    let ctid = match controller_tid(log) {
        Some(t) => t,
        None => return (None, "no controller record".into()),
    };
    let c_last = log.iter().rev().find(|r| r.thread == ctid);
    // the live parser thread is the one that logged last among the non-controller threads
    let p_last = log.iter().rev().find(|r| r.thread != ctid);
    let ptid = p_last.map(|r| r.thread.clone());
    let in_run = {
        let call = log.iter().rposition(|r| r.point == "c_run_call");
        let ret = log.iter().rposition(|r| r.point == "c_run_ret");
        match (call, ret) {
            (Some(c), Some(r)) => c > r,
            (Some(_), None) => true,
            _ => false,
        }
    };
    let c_point = c_last.map(|r| r.point).unwrap_or("");
    let desc = format!(
        "no progress for {:?}: controller last point `{}`{}, parser last point `{}`",
        timeout,
        c_point,
        if in_run { " (inside run)" } else { "" },
        p_last.map(|r| r.point).unwrap_or("<none>")
    );
    let busy_rerun = log.iter().rev().find(|r| r.point == "c_run_call").map(|r| split_info(&r.info).0.ends_with("|busy")).unwrap_or(false);
    if in_run && busy_rerun {
        // re-run right after a cont: if the old parser did reach its next stop before the stop
        // request (the slow stretch was not slow enough), an unreceived event sits in the old
        // channel and the premise of the statement did not hold
        return (None, format!("{desc}; re-run was issued right after a cont (premise not verifiable)"));
    }
    if in_run {
        // the only blocking operation inside run() is the join of the previous parser thread
        if !matches!(c_point, "run_has_handle" | "run_before_flag" | "run_after_flag" | "run_after_unpark") {
            return (None, desc);
        }
        // the previous session's thread: last parser record before/after the run call that is
        // not th_exit
        return match p_last.map(|r| r.point) {
            Some("bp_after_send") => (Some("deadlock_run_joins_parked_parser"), desc),
            Some("bp_before_send") => (Some("deadlock_run_joins_parser_blocked_in_send"), desc),
            // woken by run, then neither th_final_sent nor another stop: the old parse does not
            // end (or its final send is blocked)
            Some("bp_after_park") => (Some("run_never_returns_previous_parse_does_not_finish"), desc),
            _ => (None, desc),
        };
    }
    if c_point == "c_recv_timeout" {
        let ptid = match ptid {
            Some(t) => t,
            None => return (None, desc),
        };
        // records of the current session only (after the last c_run_call)
        let start = log.iter().rposition(|r| r.point == "c_run_call").unwrap_or(0);
        let cur = &log[start..];
        let sent = cur.iter().filter(|r| r.thread == ptid && r.point == "bp_after_send").count();
        let reached = cur.iter().filter(|r| r.thread == ptid && r.point == "bp_before_send").count();
        let received = cur.iter().filter(|r| r.point == "c_recv" && split_info(&r.info).0.starts_with("bp:")).count();
        let unparks = {
            // cont calls that answered a received breakpoint and returned Ok, as the controller saw them at the
            // API boundary (not the unpark point inside cont: a cont that returns Ok without waking the parser
            // is exactly the defect to be seen here)
            let mut n = 0;
            let mut real = false;
            for r in cur {
                match r.point {
                    "c_cont_call" => real = split_info(&r.info).0 == "stopped",
                    "c_cont_ret" if real && split_info(&r.info).0 == "ok" => {
                        n += 1;
                        real = false;
                    }
                    _ => {}
                }
            }
            n
        };
        return match p_last.map(|r| r.point) {
            // parked at stop `sent`; the controller received it and answered it: the wake-up was lost
            Some("bp_after_send") if received == sent && unparks >= sent => (Some("lost_wakeup_parser_still_parked_after_cont"), desc),
            // the parser is at a breakpoint, the channel is empty (everything sent was received),
            // so the send cannot block: the event is simply not delivered
            Some("bp_before_send") if reached == sent + 1 && received == sent => (Some("breakpoint_reached_but_event_not_delivered"), desc),
            _ => (None, desc),
        };
    }
    (None, desc)
}

// ------------------------------------------------------------------------------------------
// Workload
// ------------------------------------------------------------------------------------------

const HAND_GRAMMARS: &[(&str, &str, &[(&str, &str)])] = &[
    (
        "lib_rs_test",
        "alpha = { 'a'..'z' | 'A'..'Z' }\ndigit = { '0'..'9' }\n\nident = { !digit ~ (alpha | digit)+ }\n\nident_list = _{ ident ~ (\" \" ~ ident)* }",
        &[("ident_list", "test test2"), ("ident_list", "a b c"), ("ident", "9x"), ("ident_list", "ab 1")],
    ),
    (
        "sum",
        "num = @{ ASCII_DIGIT+ }\nop = { \"+\" | \"-\" }\nexpr = { SOI ~ num ~ (op ~ num)* ~ EOI }\nWHITESPACE = _{ \" \" }",
        &[("expr", "1 + 23-4"), ("expr", "1 + + 2"), ("num", "77"), ("expr", "")],
    ),
    (
        "nested",
        "list = { \"[\" ~ (item ~ (\",\" ~ item)*)? ~ \"]\" }\nitem = { list | leaf }\nleaf = _{ ANY }",
        &[("list", "[x,[y],[]]"), ("list", "[x,"), ("item", "q")],
    ),
    (
        // many rule entries between and at the stops (index 3: used by the noisy histories)
        "chunks",
        "a = { \"a\" }\nb = { \"b\" }\nchunk = { a* ~ b }\nlist = { chunk* }",
        &[("list", "aabaaabababaaaabaabaaabababaaaabaabaaabababaaaab"), ("list", "abababababababababababababab"), ("list", "aaabaaabaaabaaa"), ("chunk", "aaaaaaaaaaaab")],
    ),
];
const HAND_CHUNKS: usize = 3;

struct Work {
    prep: Prepared,
    /// (rule, input) pairs that the reference finished and whose plain trace is small
    pairs: Vec<(String, String)>,
    plains: HashMap<(String, String), Plain>,
    label: String,
}

fn vet_pair(prep: &Prepared, rule: &str, input: &str, rep: &mut Report) -> Option<Plain> {
    if !ref_terminates(&prep.ast, rule, input) {
        rep.count("excluded:reference_diverges_or_budget");
        return None;
    }
    match plain_trace(&prep.opt, rule, input) {
        Ok(p) if p.entries.len() <= 400 => Some(p),
        Ok(_) => {
            rep.count("excluded:plain_trace_too_long");
            None
        }
        Err(e) if e == "over the call limit" || e == "more hook events than the cap" => {
            rep.count(&format!("excluded:plain_parse_{}", e.replace(' ', "_")));
            rep.sample_slot("excluded_plain_parse_over_budget", || json!({"grammar": prep.text, "rule": rule, "input": input, "why": e, "note": "the reference interpreter finished on this case within 50,000 steps"}));
            None
        }
        Err(_) => {
            rep.count("excluded:plain_parse_panics");
            None
        }
    }
}

fn hand_work(i: usize, rep: &mut Report) -> Option<Work> {
    let (label, text, pairs) = HAND_GRAMMARS[i % HAND_GRAMMARS.len()];
    let prep = prepare(text, None)?;
    let mut w = Work { prep, pairs: vec![], plains: HashMap::new(), label: label.to_string() };
    for (r, inp) in pairs.iter() {
        if let Some(p) = vet_pair(&w.prep, r, inp, rep) {
            w.pairs.push((r.to_string(), inp.to_string()));
            w.plains.insert((r.to_string(), inp.to_string()), p);
        }
    }
    if w.pairs.is_empty() {
        None
    } else {
        Some(w)
    }
}

fn gen_work(rng: &mut Rng, rep: &mut Report) -> Option<Work> {
    let mut cfg = GenCfg::new(Profile::NoStack);
    cfg.max_rules = 4;
    let rules = gen_grammar(rng, &cfg);
    let text = vmon::print::rules_to_string(&rules);
    rep.count("grammars_generated");
    let prep = match prepare(&text, Some(rules)) {
        Some(p) => p,
        None => {
            rep.count("grammars_rejected_by_pest");
            return None;
        }
    };
    let (inputs, _, _) = vmon::inputs::inputs_for(&prep.ast, rng, 6, 2, 40);
    let mut w = Work { prep, pairs: vec![], plains: HashMap::new(), label: "generated".into() };
    // a handful of (rule, input) pairs, preferring those with several entries
    let mut tries = 0;
    while w.pairs.len() < 6 && tries < 40 && !inputs.is_empty() {
        tries += 1;
        let rule = rng.pick(&w.prep.names).clone();
        let input = rng.pick(&inputs).clone();
        if w.plains.contains_key(&(rule.clone(), input.clone())) {
            continue;
        }
        if let Some(p) = vet_pair(&w.prep, &rule, &input, rep) {
            if p.entries.len() < 3 && rng.chance(3, 4) {
                continue;
            }
            w.pairs.push((rule.clone(), input.clone()));
            w.plains.insert((rule, input), p);
        }
    }
    if w.pairs.is_empty() {
        rep.count("grammars_without_usable_input");
        None
    } else {
        Some(w)
    }
}

/// Builds one case over a prepared grammar: picks the input and start rule, and up to two more
/// start rules (for re-runs) that the reference also finishes on this input.
fn make_case(rng: &mut Rng, w: &mut Work, rep: &mut Report, noisy: bool) -> Option<(Case, HashMap<String, Plain>)> {
    let (rule, input) = if noisy {
        // the pair whose parse enters the most rules: many stops, many lock acquisitions
        w.pairs.iter().max_by_key(|k| w.plains[*k].entries.len()).unwrap().clone()
    } else {
        rng.pick(&w.pairs).clone()
    };
    let mut plains: HashMap<String, Plain> = HashMap::new();
    plains.insert(rule.clone(), w.plains[&(rule.clone(), input.clone())].clone());
    for _ in 0..2 {
        let r2 = rng.pick(&w.prep.names).clone();
        if plains.contains_key(&r2) {
            continue;
        }
        let key = (r2.clone(), input.clone());
        let p = match w.plains.get(&key) {
            Some(p) => Some(p.clone()),
            None => vet_pair(&w.prep, &r2, &input, rep),
        };
        if let Some(p) = p {
            w.plains.insert(key, p.clone());
            plains.insert(r2, p);
        }
    }
    let ops = gen_history(rng, &w.prep, &plains, &rule, noisy);
    let delay_seed = if rng.chance(1, 10) { 0 } else { rng.next() | 1 };
    Some((Case { grammar: w.prep.text.clone(), rule, input, ops, delay_seed, origin: if noisy { format!("{}+noise", w.label) } else { w.label.clone() }, old_watch_ms: 300, input_spec: None }, plains))
}

fn log_json(log: &[Rec], ctid: Option<&str>) -> Value {
    let skip = log.len().saturating_sub(600);
    let lines: Vec<String> = log
        .iter()
        .skip(skip)
        .map(|r| {
            let role = if Some(r.thread.as_str()) == ctid { "C" } else { "P" };
            let (info, t) = split_info(&r.info);
            match t {
                Some(t) => format!("{:>4} {} {} {} {} [t={}us]", r.seq, role, r.thread, r.point, info, t / 1000),
                None => format!("{:>4} {} {} {} {}", r.seq, role, r.thread, r.point, info),
            }
        })
        .collect();
    json!(lines)
}

struct Stats {
    skip: HashSet<String>,
    ilv_all: HashSet<u64>,
    by_shape: HashMap<u64, HashSet<u64>>,
    canon: BTreeMap<String, (u64, HashSet<u64>)>,
}

/// Runs and judges one case. Returns false when the shard must stop (a thread may be stuck or a
/// parser thread may still be alive and would pollute the next history's log).
#[allow(clippy::too_many_arguments)]
fn run_case(rep: &mut Report, stats: &mut Stats, known_keys: &HashSet<String>, case: &Case, names: &[String], opt: &[OptimizedRule], ast: &[Rule], known_plains: &HashMap<String, Plain>, timeout: Duration) -> bool {
    rep.journal(|| case.to_json());
    rep.count("histories");
    rep.count(if case.delay_seed == 0 { "histories_without_injected_delays" } else { "histories_with_injected_delays" });
    let (out, log) = run_history(case, timeout);
    rep.add("log_records", log.len() as u64);
    let ctid = controller_tid(&log);
    let mut cache = known_plains.clone();
    let mut plain_of = |rule: &str| -> Option<Plain> {
        if let Some(p) = cache.get(rule) {
            return Some(p.clone());
        }
        // (a case with an input_spec is one of the fixed slow-parse cases: known to terminate,
        // and far beyond the reference interpreter's step budget by design)
        if case.input_spec.is_none() && !ref_terminates(ast, rule, &case.input) {
            return None;
        }
        let p = if case.input_spec.is_some() { plain_trace_big(opt, rule, &case.input).ok()? } else { plain_trace(opt, rule, &case.input).ok()? };
        cache.insert(rule.to_string(), p.clone());
        Some(p)
    };
    let mut j = judge(case, names, &log, &stats.skip, &mut plain_of);
    for (k, v) in std::mem::take(&mut j.counters) {
        rep.add(&k, v);
    }
    let witness = |kind: &str, expected: Value, observed: Value| {
        json!({
            "property": "C17", "kind": kind, "witness": case.to_json(), "expected": expected, "observed": observed,
            "log": log_json(&log, ctid.as_deref()),
            "replay_note": "best effort: the OS scheduler contributes to the interleaving; the recorded log is the witness",
        })
    };
    let mut keep_going = true;
    let mut verdict_given = false;
    let mut explained = false;
    // Explanation of a failed mid-parse re-run by the thread-free reproduction of the VM's
    // listener abort. Returns (key, text) when the reproduction shows the same failure.
    let explain = |want_panic: bool| -> Option<(&'static str, String)> {
        let (old_rule, n) = j.last_mid_ctx.clone()?;
        match vm_abort_outcome(opt, &old_rule, &case.input, n) {
            AbortOutcome::Panics(msg) if want_panic => Some((
                "vm_listener_abort_panics",
                format!("Vm::new_with_listener + parse({old_rule:?}, input) with a listener returning false for the first {n} entries and true afterwards panics without any thread involved: {msg}"),
            )),
            AbortOutcome::Diverges if !want_panic => Some((
                "vm_listener_abort_never_terminates",
                format!("Vm::new_with_listener + parse({old_rule:?}, input) with a listener returning false for the first {n} entries and true afterwards does not return (listener called 20000 more times) without any thread involved"),
            )),
            _ => None,
        }
    };
    let report = |rep: &mut Report, mut w: Value, expl: Option<(&'static str, String)>| -> bool {
        match expl {
            Some((key, text)) => {
                w["explained_by"] = json!(text);
                if known_keys.contains(key) {
                    rep.known_finding(key, w);
                    true
                } else {
                    rep.violation(w);
                    false
                }
            }
            None => {
                rep.violation(w);
                false
            }
        }
    };
    if let Some((kind, e, o)) = j.violation.take() {
        // a violation may leave a parser thread behind (e.g. a superseded session that was
        // not terminated): its records would end up in the next history's log
        keep_going = false;
        let expl = if kind == "run_failed" && o.as_str().map(|x| x.contains("Previous parsing execution panic")).unwrap_or(false) { explain(true) } else { None };
        explained = report(rep, witness(&kind, e, o), expl);
        if explained {
            keep_going = true;
        }
        verdict_given = true;
    }
    match &out {
        Outcome17::Ended(ExecEnd::Done) => {}
        // the panicked parser thread was joined by `run` and no new one was started
        Outcome17::Ended(ExecEnd::Aborted(_)) if explained => {}
        Outcome17::Ended(ExecEnd::Aborted(why)) => {
            keep_going = false;
            if !verdict_given {
                rep.inconclusive(json!({"reason": format!("history stopped early without an explained violation: {why}"), "witness": case.to_json(), "log": log_json(&log, ctid.as_deref())}));
                verdict_given = true;
            }
        }
        Outcome17::Ended(ExecEnd::RecvTimeout) | Outcome17::Hung => {
            keep_going = false;
            if verdict_given && !explained {
                // the history also stalled: say so in the witness
                let (kind, desc) = classify_hang(&log, timeout);
                if let Some(v) = rep.violations.last_mut() {
                    v["then_stalled"] = json!({"classified_as": kind, "what": desc});
                }
            }
            if !verdict_given {
                let (kind, desc) = classify_hang(&log, timeout);
                match kind {
                    Some(k) => {
                        let expl = if k == "run_never_returns_previous_parse_does_not_finish" { explain(false) } else { None };
                        report(rep, witness(k, json!("progress: the event is delivered / run returns"), json!(desc)), expl);
                    }
                    None => rep.inconclusive(json!({"reason": format!("watchdog: {desc}"), "witness": case.to_json(), "log": log_json(&log, ctid.as_deref())})),
                }
                verdict_given = true;
            }
        }
        Outcome17::HarnessError(e) => {
            keep_going = false;
            if !verdict_given {
                rep.inconclusive(json!({"reason": format!("harness error: {e}"), "witness": case.to_json()}));
                verdict_given = true;
            }
        }
    }
    if let Some(why) = j.inconclusive.take() {
        if !verdict_given {
            rep.inconclusive(json!({"reason": why, "witness": case.to_json(), "log": log_json(&log, ctid.as_deref())}));
        }
        keep_going = false;
    }
    // evidence
    if stats.ilv_all.insert(j.ilv) {
        rep.count("interleavings_distinct_in_shard");
    }
    let set = stats.by_shape.entry(j.shape).or_default();
    set.insert(j.ilv);
    if case.origin.starts_with("canon:") {
        let e = stats.canon.entry(case.origin.clone()).or_insert((0, HashSet::new()));
        e.0 += 1;
        e.1.insert(j.ilv);
    }
    if j.bp_events >= 2 && j.real_conts >= 1 {
        rep.nontrivial(case.hash(), j.ilv);
        rep.count("histories_nontrivial");
    }
    let slot = if case.ops.iter().filter(|o| matches!(o, Op::Run(_))).count() > 1 { "with_rerun" } else { "single_run" };
    if j.bp_events >= 2 {
        rep.sample_slot(slot, || json!({"case": case.to_json(), "breakpoint_events": j.bp_events, "conts": j.real_conts, "log_records": log.len()}));
    }
    keep_going
}

fn finish_stats(rep: &mut Report, stats: &Stats) {
    rep.add("history_shapes_in_shard", stats.by_shape.len() as u64);
    rep.add("history_shapes_with_2plus_interleavings_in_shard", stats.by_shape.values().filter(|s| s.len() >= 2).count() as u64);
    let max = stats.by_shape.values().map(|s| s.len()).max().unwrap_or(0);
    rep.notes.insert("max_distinct_interleavings_of_one_shape_in_this_shard".into(), json!(max));
    let canon: BTreeMap<String, Value> = stats.canon.iter().map(|(k, (n, s))| (k.clone(), json!({"histories": n, "distinct_interleavings": s.len()}))).collect();
    rep.notes.insert("fixed_histories_in_this_shard".into(), json!(canon));
    rep.notes.insert(
        "reach".into(),
        json!("interleavings are OBSERVED (OS scheduler + seeded delays at the H4 points), not enumerated; replay of a witness is best effort; a spurious wake-up of thread::park cannot be produced on Linux (futex parker) and is not claimed"),
    );
}

/// The fixed histories: same (grammar, input, ops) in every shard, fresh delay seeds, so that
/// "distinct interleavings of one history" is measured on something that repeats.
fn canon_cases(seed: u64, rep: &mut Report) -> Vec<(Case, Work)> {
    let mut out = vec![];
    let r = |s: &str| s.to_string();
    // the two flows of the repository's own tests
    if let Some(w) = hand_work(0, rep) {
        let full = vec![
            Op::Add(r("ident")), Op::Run(r("ident_list")), Op::Recv, Op::Cont, Op::Recv, Op::Cont, Op::Recv, Op::AddAll, Op::Del(r("ident")), Op::DelAll, Op::WaitExit, Op::Cont,
        ];
        out.push((Case { grammar: w.prep.text.clone(), rule: r("ident_list"), input: r("test test2"), ops: full, delay_seed: 0, origin: r("canon:test_full_flow"), old_watch_ms: 300, input_spec: None }, w));
    }
    if let Some(w) = hand_work(0, rep) {
        let restart = vec![
            Op::Add(r("ident")), Op::Run(r("ident_list")), Op::Recv, Op::Run(r("ident_list")), Op::Recv, Op::Cont, Op::Recv, Op::Cont, Op::Recv, Op::WaitExit, Op::Cont,
        ];
        out.push((Case { grammar: w.prep.text.clone(), rule: r("ident_list"), input: r("test test2"), ops: restart, delay_seed: 0, origin: r("canon:test_restart"), old_watch_ms: 300, input_spec: None }, w));
    }
    if let Some(w) = hand_work(0, rep) {
        // step through everything, then run again after the end
        let mut ops = vec![Op::AddAll, Op::Add(r("ANY")), Op::Run(r("ident_list"))];
        let p = &w.plains[&(r("ident_list"), r("a b c"))];
        let hits = p.entries.iter().filter(|e| w.prep.names.contains(&e.0)).count();
        for _ in 0..hits {
            ops.push(Op::Recv);
            ops.push(Op::Cont);
        }
        ops.push(Op::Recv);
        ops.push(Op::Run(r("ident")));
        ops.push(Op::Recv);
        ops.push(Op::DelAll);
        ops.push(Op::Cont);
        ops.push(Op::Recv);
        ops.push(Op::WaitExit);
        ops.push(Op::Cont);
        out.push((Case { grammar: w.prep.text.clone(), rule: r("ident_list"), input: r("a b c"), ops, delay_seed: 0, origin: r("canon:step_all_then_rerun"), old_watch_ms: 300, input_spec: None }, w));
    }
    // a few generated ones, fixed by the run seed only (not by the shard)
    let mut rng = Rng::new(seed, "c17-canon", 0);
    // one fixed history with breakpoint commands issued while the parse is running
    if let Some(mut w) = hand_work(HAND_CHUNKS, rep) {
        if let Some((mut c, _)) = make_case(&mut rng, &mut w, rep, true) {
            c.origin = r("canon:noisy_chunks");
            out.push((c, w));
        }
    }
    let mut k = 0;
    let mut tries = 0;
    while k < 5 && tries < 200 {
        tries += 1;
        let w = if tries % 2 == 0 { gen_work(&mut rng, rep) } else { hand_work(1 + tries / 2, rep) };
        if let Some(mut w) = w {
            if let Some((mut c, _)) = make_case(&mut rng, &mut w, rep, false) {
                let hits = c.ops.iter().filter(|o| matches!(o, Op::Cont)).count();
                if hits < 3 {
                    continue;
                }
                c.origin = format!("canon:gen{k}");
                out.push((c, w));
                k += 1;
            }
        }
    }
    out
}

/// The slow-parse cases: `r = { x ~ "a"* ~ x ~ x }` on "b" + "a"*N + "bb". The listener is only
/// called at rule entries, so the `"a"*` stretch is one long piece of parsing during which the
/// parser thread cannot look at the stop request. N is calibrated on this machine so that the
/// plain VM parse takes about `target_ms` (bounded, so that a sanitizer build or a loaded machine
/// does not blow up the input).
struct Slow {
    prep: Prepared,
    input: String,
    spec: Value,
    plains: HashMap<String, Plain>,
    plain_ms: u64,
}

/// Plain trace for the multi-megabyte inputs of the slow-parse cases. The hook-based
/// `plain_trace` keeps at most 200,000 events, which the millions of repetition events of the
/// long stretch overflow, so here the entries are recorded by a listener (four calls in all).
/// `build_slow` ties this back to the hook: on a short input of the same shape the hook-based
/// trace must be the analogous four entries.
fn plain_trace_big(opt: &[OptimizedRule], rule: &str, input: &str) -> Result<Plain, String> {
    let rec: Arc<std::sync::Mutex<Vec<(String, usize)>>> = Arc::new(std::sync::Mutex::new(Vec::new()));
    let r2 = Arc::clone(&rec);
    let vm = pest_vm::Vm::new_with_listener(
        opt.to_vec(),
        Box::new(move |rule, pos| {
            let mut g = r2.lock().unwrap_or_else(|e| e.into_inner());
            if g.len() < 100_000 {
                g.push((rule, pos.pos()));
            }
            false
        }),
    );
    let fin = catch_unwind(AssertUnwindSafe(|| match vm.parse(rule, input) {
        Ok(_) => "eof".to_string(),
        Err(e) => format!("error:{}", abbrev(&e.to_string())),
    }))
    .map_err(|p| vmon::pestrun::panic_message(&p))?;
    let entries = rec.lock().unwrap_or_else(|e| e.into_inner()).clone();
    Ok(Plain { entries, fin })
}

fn build_slow(rep: &mut Report, target_ms: u64) -> Option<Slow> {
    let prep = prepare("x = { \"b\" }\nr = { x ~ \"a\"* ~ x ~ x }\n", None)?;
    let make = |n: usize| -> String {
        let mut s = String::with_capacity(n + 3);
        s.push('b');
        for _ in 0..n {
            s.push('a');
        }
        s.push_str("bb");
        s
    };
    let timed = |n: usize| -> Option<(f64, Plain, String)> {
        let input = make(n);
        let t0 = Instant::now();
        let p = plain_trace_big(&prep.opt, "r", &input).ok()?;
        Some((t0.elapsed().as_secs_f64(), p, input))
    };
    // the shape of the entry sequence, from hook H3 on a short input
    let short = plain_trace(&prep.opt, "r", &make(5)).ok()?;
    let short_expected: Vec<(String, usize)> = vec![("r".into(), 0), ("x".into(), 0), ("x".into(), 6), ("x".into(), 7)];
    if short.entries != short_expected || short.fin != "eof" {
        rep.count("slow_case_unusable:unexpected_hook_trace_on_short_input");
        return None;
    }
    let n0 = 200_000usize;
    let d0 = timed(n0)?.0.min(timed(n0)?.0).max(1e-6);
    const CAP: f64 = 40_000_000.0;
    let target = target_ms as f64 / 1000.0;
    let mut n = ((n0 as f64) * target / d0).clamp(n0 as f64, CAP) as usize;
    let (mut d, mut p, mut input) = timed(n)?;
    // the small measurement may have been taken while the machine was busier than it is now
    for _ in 0..2 {
        if d >= 0.75 * target || (n as f64) >= CAP {
            break;
        }
        n = ((n as f64) * 1.1 * target / d.max(1e-6)).clamp(n0 as f64, CAP) as usize;
        let t = timed(n)?;
        d = t.0;
        p = t.1;
        input = t.2;
    }
    let expected: Vec<(String, usize)> = vec![("r".into(), 0), ("x".into(), 0), ("x".into(), n + 1), ("x".into(), n + 2)];
    if p.entries != expected || p.fin != "eof" {
        rep.count("slow_case_unusable:unexpected_plain_trace");
        return None;
    }
    let px = plain_trace_big(&prep.opt, "x", &input).ok()?;
    let mut plains = HashMap::new();
    plains.insert("r".to_string(), p);
    plains.insert("x".to_string(), px);
    let plain_ms = (d * 1000.0) as u64;
    rep.notes.insert("slow_parse_case".into(), json!({"a_count": n, "plain_parse_ms": plain_ms, "target_ms": target_ms}));
    Some(Slow { prep, input, spec: json!({"prefix": "b", "repeat": "a", "times": n, "suffix": "bb"}), plains, plain_ms })
}

fn slow_case(slow: &Slow, busy: bool, delay_seed: u64) -> Case {
    let r = |s: &str| s.to_string();
    let ops = if busy {
        // cont, then run again at once: nothing can have been delivered in between
        vec![Op::Add(r("x")), Op::Run(r("r")), Op::Recv, Op::Cont, Op::RunBusy(r("x")), Op::Recv, Op::Cont, Op::Recv, Op::WaitExit, Op::Cont]
    } else {
        // run again while parked at x@0: the woken parser first has to cross the long stretch
        vec![Op::Add(r("x")), Op::Run(r("r")), Op::Recv, Op::Run(r("r")), Op::Recv, Op::DelAll, Op::Cont, Op::Recv, Op::WaitExit, Op::Cont]
    };
    Case {
        grammar: slow.prep.text.clone(),
        rule: r("r"),
        input: slow.input.clone(),
        ops,
        delay_seed,
        origin: r(if busy { "slow:rerun_right_after_cont" } else { "slow:rerun_while_parked" }),
        // the old parse needs about plain_ms to reach its next rule entry
        old_watch_ms: slow.plain_ms * 3 + 1000,
        input_spec: Some(slow.spec.clone()),
    }
}


// ------------------------------------------------------------------------------------------
// CLI sub-workload: the same statement observed at the command-line front end
// (debugger/src/main.rs), driven over stdin, one process per history
// ------------------------------------------------------------------------------------------

/// What main.rs prints, and all the oracle relies on:
///   r <rule> / c  -> one report: a stop = pest's rendering of a custom error "parsing <rule>" at
///                    the stop position (` --> LINE:COL` ... `= parsing <rule>`); the end =
///                    `end-of-input reached`; a failed parse = the VM error text;
///                    a DebuggerError = `Error: <text>` ("Run rule first", "End-of-input reached")
///   l             -> `Breakpoints: a, b` (sorted)
///   b d ba da g id -> nothing
/// Every command is followed by an `l` (unless it is one), whose `Breakpoints:` line delimits the
/// command's output and is compared with the model's set. Of a stop only the rule name and the
/// LINE:COL are compared.
struct CliOut {
    stdout: String,
    stderr: String,
    finished: bool,
}

fn cli_input_ok(input: &str) -> bool {
    // `id <text>` is one line and main.rs trims the command line
    !input.is_empty() && input == input.trim() && !input.chars().any(|c| c.is_control())
}

fn ops_to_cli(ops: &[Op]) -> Vec<String> {
    // r and c wait for their event themselves: there is no separate recv; what the command line
    // cannot express (pauses, probes of the channel, noise) is dropped, a probe becomes `l`
    ops.iter()
        .filter_map(|o| match o {
            Op::Add(r) => Some(format!("b {r}")),
            Op::Del(r) => Some(format!("d {r}")),
            Op::AddAll => Some("ba".to_string()),
            Op::DelAll => Some("da".to_string()),
            Op::Run(r) | Op::RunBusy(r) => Some(format!("r {r}")),
            Op::Cont => Some("c".to_string()),
            Op::Probe(_) => Some("l".to_string()),
            Op::Recv | Op::Pause(_) | Op::WaitExit | Op::Noise(_) => None,
        })
        .collect()
}

fn run_cli(bin: &std::path::Path, grammar: &str, input: &str, commands: &[String], tag: &str) -> Result<CliOut, String> {
    use std::io::{Read, Write};
    use std::process::{Command, Stdio};
    let gfile = std::env::temp_dir().join(format!("c17cli-{}-{tag}.pest", std::process::id()));
    std::fs::write(&gfile, grammar).map_err(|e| format!("write grammar file: {e}"))?;
    let mut script = String::new();
    script.push_str(&format!("g {}\nl\nid {input}\nl\n", gfile.display()));
    for c in commands {
        script.push_str(c);
        script.push('\n');
        if c != "l" {
            script.push_str("l\n");
        }
    }
    let child = Command::new(bin).arg("--no-update").stdin(Stdio::piped()).stdout(Stdio::piped()).stderr(Stdio::piped()).spawn();
    let mut child = match child {
        Ok(c) => c,
        Err(e) => {
            let _ = std::fs::remove_file(&gfile);
            return Err(format!("cannot start {}: {e}", bin.display()));
        }
    };
    let mut so = child.stdout.take().unwrap();
    let mut se = child.stderr.take().unwrap();
    let t_out = std::thread::spawn(move || {
        let mut b = Vec::new();
        let _ = so.read_to_end(&mut b);
        String::from_utf8_lossy(&b).into_owned()
    });
    let t_err = std::thread::spawn(move || {
        let mut b = Vec::new();
        let _ = se.read_to_end(&mut b);
        String::from_utf8_lossy(&b).into_owned()
    });
    {
        let mut si = child.stdin.take().unwrap();
        let _ = si.write_all(script.as_bytes());
    } // EOF ends the debugger
    let deadline = Instant::now() + Duration::from_secs(90);
    let mut finished = false;
    loop {
        match child.try_wait() {
            Ok(Some(_)) => {
                finished = true;
                break;
            }
            Ok(None) => {}
            Err(_) => break,
        }
        if Instant::now() > deadline {
            break;
        }
        std::thread::sleep(Duration::from_millis(2));
    }
    if !finished {
        let _ = child.kill();
        let _ = child.wait();
    }
    let stdout = t_out.join().unwrap_or_default();
    let stderr = t_err.join().unwrap_or_default();
    let _ = std::fs::remove_file(&gfile);
    Ok(CliOut { stdout, stderr, finished })
}

#[derive(Default)]
struct CliJudged {
    violation: Option<(String, Value, Value)>,
    inconclusive: Option<String>,
    stops: u64,
    finals: u64,
    conts: u64,
    restarts_stopped: u64,
    restarts_after_end: u64,
    checks: u64,
    sig: Vec<u8>,
}

/// Output of one command = the lines up to its `Breakpoints:` line, and the listed set.
fn cli_segments(stdout: &str) -> Vec<(Vec<String>, String)> {
    let mut segs = vec![];
    let mut cur: Vec<String> = vec![];
    for line in stdout.lines() {
        let l = line.trim_end();
        if let Some(rest) = l.strip_prefix("Breakpoints:") {
            segs.push((std::mem::take(&mut cur), rest.trim().to_string()));
        } else if !l.trim().is_empty() && !l.starts_with("pest_debugger v") {
            cur.push(l.to_string());
        }
    }
    if !cur.is_empty() {
        segs.push((cur, "<no Breakpoints: line>".to_string()));
    }
    segs
}

fn judge_cli(names: &[String], input: &str, commands: &[String], out: &CliOut, plain_of: &mut dyn FnMut(&str) -> Option<Plain>) -> CliJudged {
    let mut j = CliJudged::default();
    let low = format!("{}\n{}", out.stdout, out.stderr);
    let segs = cli_segments(&out.stdout);
    let mut m = Model::new(names);
    let mut plain: Option<Plain> = None;
    let timed_out = out.stderr.contains("parsing timed out");
    // the two set-up commands
    for (i, what) in ["g <file>", "id <text>"].iter().enumerate() {
        match segs.get(i) {
            Some((lines, listed)) if lines.is_empty() && listed.is_empty() => {}
            Some((lines, listed)) => {
                j.inconclusive = Some(format!("set-up command `{what}` printed {lines:?} / listed {listed:?}"));
                return j;
            }
            None => {
                j.inconclusive = Some(format!("no output for the set-up command `{what}`; stderr: {}", out.stderr.chars().take(300).collect::<String>()));
                return j;
            }
        }
    }
    let line_col = |pos: usize| -> String { format!("1:{}", input.get(..pos).map(|p| p.chars().count()).unwrap_or(0) + 1) };
    for (ci, cmd) in commands.iter().enumerate() {
        let (verb, arg) = match cmd.split_once(' ') {
            Some((v, a)) => (v, a),
            None => (cmd.as_str(), ""),
        };
        // what the model expects this command to print
        #[derive(Debug)]
        enum Want {
            Nothing,
            Stop(String, String),
            Eof,
            ErrorText(String),
            Line(&'static str),
            /// `c` after the end: "Error: End-of-input reached", or nothing on stdout (inside the
            /// window before is_done is stored cont() succeeds and the wait ends at once because
            /// the channel is disconnected)
            EofReachedOrNothing,
        }
        let event = |m: &mut Model, plain: &Option<Plain>, j: &mut CliJudged| -> Want {
            let p = match plain {
                Some(p) => p,
                None => return Want::Nothing,
            };
            let ev = m.next_event(p);
            if let Some(rest) = ev.strip_prefix("bp:") {
                let (rule, pos) = rest.rsplit_once('@').unwrap_or((rest, "0"));
                j.stops += 1;
                Want::Stop(rule.to_string(), line_col(pos.parse().unwrap_or(0)))
            } else if ev == "eof" {
                j.finals += 1;
                Want::Eof
            } else {
                j.finals += 1;
                Want::ErrorText(ev.strip_prefix("error:").unwrap_or(&ev).to_string())
            }
        };
        let want = match verb {
            "b" => {
                m.edit(&format!("add:{arg}"));
                Want::Nothing
            }
            "d" => {
                m.edit(&format!("del:{arg}"));
                Want::Nothing
            }
            "ba" => {
                m.edit("add_all");
                Want::Nothing
            }
            "da" => {
                m.edit("del_all");
                Want::Nothing
            }
            "l" => Want::Nothing,
            "r" => {
                if !names.iter().any(|n| n == arg) {
                    j.inconclusive = Some(format!("ill-formed history: run of `{arg}`, which the grammar does not define"));
                    return j;
                }
                match m.st {
                    St::Stopped => j.restarts_stopped += 1,
                    St::Finished => j.restarts_after_end += 1,
                    _ => {}
                }
                plain = plain_of(arg);
                if plain.is_none() {
                    j.inconclusive = Some(format!("no plain trace for `{arg}`"));
                    return j;
                }
                m.run();
                event(&mut m, &plain, &mut j)
            }
            "c" => match m.st {
                St::Idle => Want::Line("Error: Run rule first"),
                St::Stopped => {
                    j.conts += 1;
                    event(&mut m, &plain, &mut j)
                }
                St::Finished => Want::EofReachedOrNothing,
                St::Running => Want::Nothing,
            },
            other => {
                j.inconclusive = Some(format!("ill-formed history: command `{other}`"));
                return j;
            }
        };
        j.sig.extend_from_slice(verb.as_bytes());
        j.sig.extend_from_slice(format!("{want:?}").split('(').next().unwrap_or("").as_bytes());
        let (lines, listed) = match segs.get(ci + 2) {
            Some(s) => s.clone(),
            None => {
                if !out.finished {
                    j.inconclusive = Some(format!("the debugger process did not finish within 90 s (stopped before command {} `{cmd}`)", ci + 1));
                } else {
                    j.violation = Some(("cli_transcript_ends_early".into(), json!(format!("output of command {} `{cmd}`: {want:?}", ci + 1)), json!({"stderr": out.stderr.chars().take(600).collect::<String>()})));
                }
                return j;
            }
        };
        j.checks += 1;
        let text = lines.join("\n");
        let ok = match &want {
            Want::Nothing => lines.is_empty(),
            Want::Line(l) => lines.len() == 1 && lines[0].trim() == *l,
            Want::Eof => lines.len() == 1 && lines[0].trim() == "end-of-input reached",
            Want::EofReachedOrNothing => lines.is_empty() || (lines.len() == 1 && lines[0].trim() == "Error: End-of-input reached"),
            Want::Stop(rule, lc) => {
                let arrow = lines.iter().filter(|l| l.trim_start().starts_with("--> ")).map(|l| l.trim_start()[4..].trim().to_string()).collect::<Vec<_>>();
                let parsing = lines.iter().filter_map(|l| l.trim_start().strip_prefix("= parsing ").map(|x| x.trim().to_string())).collect::<Vec<_>>();
                arrow.len() == 1 && parsing.len() == 1 && arrow[0] == *lc && parsing[0] == *rule
            }
            Want::ErrorText(msg) => {
                if msg.contains("...[") {
                    lines.first().map(|l| msg.starts_with(l.as_str())).unwrap_or(false)
                } else {
                    let want_lines: Vec<&str> = msg.lines().map(|l| l.trim_end()).filter(|l| !l.trim().is_empty()).collect();
                    want_lines.len() == lines.len() && want_lines.iter().zip(lines.iter()).all(|(a, b)| *a == b.as_str())
                }
            }
        };
        if !ok {
            if lines.is_empty() && timed_out && !matches!(want, Want::Nothing | Want::EofReachedOrNothing) {
                // the front end itself gave up after its 5 s wait: a clock verdict, not ours
                j.inconclusive = Some(format!("command {} `{cmd}`: the debugger printed `parsing timed out` instead of {want:?}", ci + 1));
            } else {
                j.violation = Some((
                    "cli_report_mismatch".into(),
                    json!({"command_number": ci + 1, "command": cmd, "report": format!("{want:?}"), "breakpoints_in_force": m.bps.iter().collect::<Vec<_>>()}),
                    json!({"printed": text}),
                ));
            }
            return j;
        }
        let want_list = m.bps.iter().cloned().collect::<Vec<_>>().join(", ");
        if listed != want_list {
            j.violation = Some(("cli_breakpoint_list_mismatch".into(), json!({"after_command": cmd, "list": want_list}), json!({"list": listed})));
            return j;
        }
    }
    // nothing the model does not predict: no panic text anywhere
    for needle in ["panicked at", "Previous parsing execution panic"] {
        if low.contains(needle) {
            j.violation = Some(("cli_panic_text".into(), json!("no panic of the debugger or of a parser thread"), json!({"found": needle, "stderr": out.stderr.chars().take(600).collect::<String>()})));
            return j;
        }
    }
    if segs.len() > commands.len() + 2 {
        j.violation = Some(("cli_unexpected_trailing_output".into(), json!("nothing after the last command"), json!({"printed": segs[commands.len() + 2..].iter().map(|s| s.0.join("\n")).collect::<Vec<_>>()})));
    }
    j
}

struct CliCase {
    grammar: String,
    input: String,
    commands: Vec<String>,
}

impl CliCase {
    fn to_json(&self) -> Value {
        json!({"cli": true, "grammar": self.grammar, "input": self.input, "commands": self.commands})
    }
}

/// Runs and judges one CLI history. Returns false on a harness problem that makes further CLI
/// histories pointless (binary cannot be started).
fn run_cli_case(rep: &mut Report, bin: &std::path::Path, case: &CliCase, prep: &Prepared, known_plains: &HashMap<String, Plain>, tag: &str) -> bool {
    rep.journal(|| case.to_json());
    rep.count("cli_histories");
    rep.add("cli_commands", case.commands.len() as u64);
    let out = match run_cli(bin, &case.grammar, &case.input, &case.commands, tag) {
        Ok(o) => o,
        Err(e) => {
            rep.inconclusive(json!({"reason": format!("cli: {e}"), "witness": case.to_json()}));
            return false;
        }
    };
    let mut cache = known_plains.clone();
    let mut plain_of = |rule: &str| -> Option<Plain> {
        if let Some(p) = cache.get(rule) {
            return Some(p.clone());
        }
        if !ref_terminates(&prep.ast, rule, &case.input) {
            return None;
        }
        let p = plain_trace(&prep.opt, rule, &case.input).ok()?;
        cache.insert(rule.to_string(), p.clone());
        Some(p)
    };
    let j = judge_cli(&prep.names, &case.input, &case.commands, &out, &mut plain_of);
    rep.add("evaluations", j.checks);
    rep.add("cli_reports_checked", j.checks);
    rep.add("cli_stops_checked", j.stops);
    rep.add("cli_final_reports_checked", j.finals);
    rep.add("cli_conts", j.conts);
    rep.add("cli_restarts_while_stopped", j.restarts_stopped);
    rep.add("cli_restarts_after_end", j.restarts_after_end);
    let clip = |s: &str| -> String { s.chars().take(6000).collect() };
    if let Some((kind, e, o)) = j.violation {
        if !rep.notes.contains_key("cli_first_violation_at_cli_history") {
            let n = rep.counters.get("cli_histories").copied().unwrap_or(0);
            rep.notes.insert("cli_first_violation_at_cli_history".into(), json!(n));
        }
        rep.violation(json!({
            "property": "C17", "kind": kind, "witness": case.to_json(), "expected": e, "observed": o,
            "stdout": clip(&out.stdout), "stderr": clip(&out.stderr),
        }));
    } else if let Some(why) = j.inconclusive {
        rep.inconclusive(json!({"reason": format!("cli: {why}"), "witness": case.to_json(), "stdout": clip(&out.stdout), "stderr": clip(&out.stderr)}));
    }
    if j.stops >= 2 && j.conts >= 1 {
        let h = hash_bytes(&[b"cli", case.grammar.as_bytes(), case.input.as_bytes(), case.commands.join("\n").as_bytes()]);
        rep.nontrivial(h, hash_bytes(&[b"cli", &j.sig]));
        rep.count("cli_histories_nontrivial");
    }
    if j.restarts_stopped > 0 {
        rep.sample_slot("cli_restart_while_stopped", || json!({"case": case.to_json(), "stops": j.stops}));
    }
    true
}

/// The CLI sub-workload of one shard: the API history generator restricted to what the command
/// line can express.
fn cli_workload(rep: &mut Report, args: &Args) {
    let n = args.budget(640, 32_000);
    let bin = match args.opt("cli") {
        Some(p) if std::path::Path::new(p).is_file() => std::path::PathBuf::from(p),
        Some(p) => {
            rep.add("cli_histories_skipped", n);
            rep.inconclusive(json!({"reason": format!("--cli {p}: no such file")}));
            return;
        }
        None => {
            rep.add("cli_histories_skipped", n);
            return;
        }
    };
    let mut rng = Rng::new(args.seed, "c17-cli", args.shard);
    let mut done = 0u64;
    let mut tries = 0u64;
    while done < n && tries < n * 20 {
        tries += 1;
        if rep.elapsed() > args.max_s * 0.5 {
            rep.notes.insert("cli_stopped_early_at_history".into(), json!(done));
            break;
        }
        let w = if rng.chance(1, 4) { hand_work(rng.below(HAND_GRAMMARS.len()), rep) } else { gen_work(&mut rng, rep) };
        let mut w = match w {
            Some(w) => w,
            None => continue,
        };
        w.pairs.retain(|(_, input)| cli_input_ok(input));
        if w.pairs.is_empty() {
            continue;
        }
        for _ in 0..4 {
            if done >= n {
                break;
            }
            let (case, plains) = match make_case(&mut rng, &mut w, rep, false) {
                Some(x) => x,
                None => break,
            };
            let cc = CliCase { grammar: case.grammar.clone(), input: case.input.clone(), commands: ops_to_cli(&case.ops) };
            done += 1;
            if !run_cli_case(rep, &bin, &cc, &w.prep, &plains, &format!("{}-{done}", args.shard)) {
                return;
            }
        }
    }
}

fn case_from_json(w: &Value, origin: &str) -> Option<Case> {
    let rule = w["rule"].as_str().unwrap_or("").to_string();
    let ops: Vec<Op> = w["history"].as_array()?.iter().filter_map(|o| Op::from_json(o, &rule)).collect();
    let input_spec = if w["input_spec"].is_object() { Some(w["input_spec"].clone()) } else { None };
    let input = match &input_spec {
        Some(spec) => expand_input_spec(spec)?,
        None => w["input"].as_str().unwrap_or("").to_string(),
    };
    Some(Case {
        grammar: w["grammar"].as_str()?.to_string(),
        rule,
        input,
        ops,
        delay_seed: w["delay_seed"].as_u64().unwrap_or(0),
        origin: origin.to_string(),
        old_watch_ms: w["old_channel_watch_ms"].as_u64().unwrap_or(300).min(60_000),
        input_spec,
    })
}

fn timeout_from(args: &Args) -> Duration {
    // 10 s; only shortened for the mutant trials (`--hang-ms N`)
    Duration::from_millis(args.opt("hang-ms").and_then(|s| s.parse().ok()).unwrap_or(10_000))
}

pub fn run(args: &Args) {
    let mut rep = Report::new(args);
    let timeout = timeout_from(args);
    let skip: HashSet<String> = args.opt("skip-check").map(|s| s.split(',').map(|x| x.to_string()).collect()).unwrap_or_default();
    if !skip.is_empty() {
        rep.notes.insert("checks_switched_off".into(), json!(skip.iter().collect::<Vec<_>>()));
    }
    let mut stats = Stats { skip, ilv_all: HashSet::new(), by_shape: HashMap::new(), canon: BTreeMap::new() };
    // only entries with status "known" may downgrade an explained failure; "fixed" entries
    // suppress nothing (their witnesses are replayed below as regression cases)
    let known_entries = vmon::shard::load_known(&args.known, "C17");
    let known_keys: HashSet<String> = known_entries.iter().filter(|k| k.status == "known").map(|k| k.key.clone()).collect();

    if let Some(path) = &args.replay {
        let v: Value = serde_json::from_str(&std::fs::read_to_string(path).expect("replay file")).expect("json");
        let w = if v["witness"].is_object() { v["witness"].clone() } else { v.clone() };
        if w["cli"].as_bool() == Some(true) {
            // a CLI history: {"cli": true, "grammar", "input", "commands": [...]}
            let cc = CliCase {
                grammar: w["grammar"].as_str().unwrap_or("").to_string(),
                input: w["input"].as_str().unwrap_or("").to_string(),
                commands: w["commands"].as_array().map(|a| a.iter().filter_map(|c| c.as_str().map(|s| s.to_string())).collect()).unwrap_or_default(),
            };
            match (args.opt("cli"), prepare(&cc.grammar, None)) {
                (Some(bin), Some(prep)) if cli_input_ok(&cc.input) => {
                    run_cli_case(&mut rep, std::path::Path::new(bin), &cc, &prep, &HashMap::new(), "replay");
                }
                (None, _) => rep.inconclusive(json!({"reason": "a CLI witness needs --cli <path to the pest_debugger binary>"})),
                _ => rep.inconclusive(json!({"reason": "CLI replay: grammar rejected or input not expressible with `id`"})),
            }
            rep.finish(args);
            std::process::exit(0);
        }
        let case = case_from_json(&w, "replay").expect("replay file without a history");
        rep.notes.insert("replay".into(), json!("best effort: the history and the delay seed are replayed, the OS scheduler still contributes"));
        match prepare(&case.grammar, None) {
            Some(prep) => {
                // the same history under the recorded seed and a few more, since timing is not reproducible
                let n = args.opt("replay-times").and_then(|s| s.parse().ok()).unwrap_or(20u64);
                for i in 0..n {
                    let mut c = case.clone();
                    if i > 0 {
                        c.delay_seed = case.delay_seed.wrapping_add(i.wrapping_mul(0x9e3779b97f4a7c15)) | 1;
                    }
                    if !run_case(&mut rep, &mut stats, &known_keys, &c, &prep.names, &prep.opt, &prep.ast, &HashMap::new(), timeout) {
                        break;
                    }
                    if !rep.violations.is_empty() || !rep.known.is_empty() {
                        break;
                    }
                }
            }
            None => rep.inconclusive(json!({"reason": "replay grammar rejected by parse_and_optimize"})),
        }
        finish_stats(&mut rep, &stats);
        rep.finish(args);
        std::process::exit(0);
    }

    if args.shard == 0 {
        // canonical witnesses of known / fixed findings are replayed on every run
        for k in &known_entries {
            if let Some(case) = case_from_json(&k.witness, &format!("known:{}", k.key)) {
                if let Some(prep) = prepare(&case.grammar, None) {
                    rep.count("known_witnesses_replayed");
                    if !run_case(&mut rep, &mut stats, &known_keys, &case, &prep.names, &prep.opt, &prep.ast, &HashMap::new(), timeout) {
                        finish_stats(&mut rep, &stats);
                        rep.finish(args);
                        std::process::exit(0);
                    }
                }
            }
        }
    }
    // a history costs ~0.5 ms of CPU plus its injected sleeps (measured: ~8 ms wall per history and shard)
    // the command-line front end first (no in-process threads involved, so nothing of it can
    // leak into the API histories' log)
    cli_workload(&mut rep, args);
    let total = args.budget(12_000, 300_000);
    let mut rng = Rng::new(args.seed, "c17", args.shard);
    let canon = canon_cases(args.seed, &mut rep);
    let mut done = 0u64;
    let mut stopped = false;
    let mut canon_i = args.shard as usize;
    // slow-parse histories (seconds each): two per shard, in the thorough tier a few more
    let slow_target_ms: u64 = args.opt("slow-ms").and_then(|s| s.parse().ok()).unwrap_or(700);
    let mut slow: Option<Option<Slow>> = None;
    let mut slow_done = 0u64;
    let slow_turn = |d: u64| d == 5 || d == 15 || (args.thorough && d % 5_000 == 2_500);
    let mut slow_served = u64::MAX;
    'outer: while done < total {
        if rep.elapsed() > args.max_s {
            rep.notes.insert("stopped_early_at_history".into(), json!(done));
            break;
        }
        if slow_turn(done) && slow_served != done && slow_target_ms == 0 {
            slow_served = done; // switched off (`--slow-ms 0`)
        }
        if slow_turn(done) && slow_served != done {
            slow_served = done;
            if slow.is_none() {
                slow = Some(build_slow(&mut rep, slow_target_ms));
            }
            if let Some(Some(sl)) = &slow {
                // (`--slow-busy-first 1`: trust experiments, start with the other variant)
                let flip = if args.opt("slow-busy-first").is_some() { 1 } else { 0 };
                // the variant that re-runs right after a cont needs a stretch that is certainly
                // longer than the controller's reaction time
                let busy = (slow_done + flip) % 2 == 1 && sl.plain_ms >= 300;
                let c = slow_case(sl, busy, rng.next() | 1);
                slow_done += 1;
                rep.count("slow_parse_histories");
                rep.add("slow_parse_plain_ms_total", sl.plain_ms);
                if !run_case(&mut rep, &mut stats, &known_keys, &c, &sl.prep.names, &sl.prep.opt, &sl.prep.ast, &sl.plains, timeout) {
                    stopped = true;
                    break 'outer;
                }
            }
        }
        // one history in four is one of the fixed ones
        let canon_turn = |d: u64| !canon.is_empty() && d % 4 == 3;
        if canon_turn(done) {
            let (c, w) = &canon[canon_i % canon.len()];
            canon_i += 1;
            let mut c = c.clone();
            c.delay_seed = if rng.chance(1, 10) { 0 } else { rng.next() | 1 };
            done += 1;
            if !run_case(&mut rep, &mut stats, &known_keys, &c, &w.prep.names, &w.prep.opt, &w.prep.ast, &HashMap::new(), timeout) {
                stopped = true;
                break 'outer;
            }
            continue;
        }
        // grammar: mostly generated; sometimes hand-written; sometimes the many-entries grammar
        // with every history of the batch noisy
        let pick = rng.below(24);
        let all_noisy = pick == 3 || pick == 4;
        let w = if pick < 3 {
            hand_work(rng.below(HAND_GRAMMARS.len()), &mut rep)
        } else if all_noisy {
            hand_work(HAND_CHUNKS, &mut rep)
        } else {
            gen_work(&mut rng, &mut rep)
        };
        let mut w = match w {
            Some(w) => w,
            None => continue,
        };
        rep.count("grammars_used");
        for _ in 0..5 {
            if done >= total || canon_turn(done) || (slow_turn(done) && slow_served != done) {
                break;
            }
            let noisy = all_noisy || rng.chance(1, 5);
            if noisy {
                rep.count("histories_with_noise_blocks");
            }
            let (case, plains) = match make_case(&mut rng, &mut w, &mut rep, noisy) {
                Some(x) => x,
                None => break,
            };
            done += 1;
            if !run_case(&mut rep, &mut stats, &known_keys, &case, &w.prep.names, &w.prep.opt, &w.prep.ast, &plains, timeout) {
                stopped = true;
                break 'outer;
            }
        }
    }
    if stopped {
        rep.notes.insert("shard_stopped_after_history".into(), json!(done));
    }
    finish_stats(&mut rep, &stats);
    rep.finish(args);
    // a stuck controller / parser thread may still exist: leave without joining anything
    std::process::exit(0);
}
