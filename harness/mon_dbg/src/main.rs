fn main() {}
