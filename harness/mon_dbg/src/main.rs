//! mon_dbg: the C17 monitor (pest_debugger under schedule stress). One invocation = one shard
//! process = one controller thread + at most one parser thread at a time (the debugger's hook
//! log and delay plan are process-global).
mod c17;

use vmon::shard::Args;

fn main() {
    let argv: Vec<String> = std::env::args().collect();
    let args = Args::parse(&argv);
    if std::env::var_os("VERIF_SHOW_PANICS").is_none() {
        vmon::pestrun::quiet_panics();
    }
    let a = args.clone();
    // the reference interpreter recurses; give the workload thread room
    std::thread::Builder::new()
        .stack_size(256 << 20)
        .spawn(move || match a.prop.as_str() {
            "c17" => c17::run(&a),
            other => {
                eprintln!("unknown sub-command {other}");
                std::process::exit(3);
            }
        })
        .unwrap()
        .join()
        .unwrap();
}
