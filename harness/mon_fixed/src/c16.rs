//! C16: Unicode property rules are consistent for every code point.
//!
//! Base path: the property *functions* `pest::unicode::NAME` (table generated at build time by
//! build.rs from the working tree). Checked against it:
//!   A. structure, exhaustive over all 1,112,064 scalar values, in blocks of 4096 code points
//!      (block b belongs to shard b % nshards): exactly one of the 30 two-letter general
//!      categories holds; each of the 8 grouped categories equals the union of its members
//!      (UAX #44 table 12, hard-coded below); at most one script holds.
//!   B. per advertised name (name i belongs to shard i % nshards): the name has a function, resolves
//!      in `by_name`, is accepted by the validator as a built-in; `by_name(name)(c) == NAME(c)` for
//!      every scalar; membership observed through a VM parse and through a derive-compiled parse
//!      of `scan = { (hit | other)* }  hit = { NAME }  other = { ANY }` over a text holding the
//!      code points (quick: BMP + planes 1 and 14; thorough: every scalar) equals the function's.
//!
//! Counting rule: `evaluations` = one per (name, path) comparison + one per (4096-block, invariant)
//! with 10 invariants per block (category partition, 8 group unions, script disjointness).
//! Non-trivial distinct case = (name, path) whose observed membership set is non-empty.

use pest::iterators::Pairs;
use pest::{Parser, RuleType};
use serde_json::{json, Value};
use std::collections::{BTreeMap, BTreeSet};
use std::panic::{catch_unwind, AssertUnwindSafe};
use vmon::pestrun::panic_message;
use vmon::rng::hash_bytes;
use vmon::shard::{Args, Report};

mod tables {
    include!(concat!(env!("OUT_DIR"), "/unicode_fns.rs"));
}
#[allow(non_camel_case_types, clippy::all)]
mod uni {
    include!(concat!(env!("OUT_DIR"), "/uni_parser.rs"));
}

type PropFn = fn(char) -> bool;

/// UAX #44, General_Category values: (abbreviation, pest rule name).
const GC: [(&str, &str); 30] = [
    ("Cc", "CONTROL"),
    ("Cf", "FORMAT"),
    ("Cn", "UNASSIGNED"),
    ("Co", "PRIVATE_USE"),
    ("Cs", "SURROGATE"),
    ("Ll", "LOWERCASE_LETTER"),
    ("Lm", "MODIFIER_LETTER"),
    ("Lo", "OTHER_LETTER"),
    ("Lt", "TITLECASE_LETTER"),
    ("Lu", "UPPERCASE_LETTER"),
    ("Mc", "SPACING_MARK"),
    ("Me", "ENCLOSING_MARK"),
    ("Mn", "NONSPACING_MARK"),
    ("Nd", "DECIMAL_NUMBER"),
    ("Nl", "LETTER_NUMBER"),
    ("No", "OTHER_NUMBER"),
    ("Pc", "CONNECTOR_PUNCTUATION"),
    ("Pd", "DASH_PUNCTUATION"),
    ("Pe", "CLOSE_PUNCTUATION"),
    ("Pf", "FINAL_PUNCTUATION"),
    ("Pi", "INITIAL_PUNCTUATION"),
    ("Po", "OTHER_PUNCTUATION"),
    ("Ps", "OPEN_PUNCTUATION"),
    ("Sc", "CURRENCY_SYMBOL"),
    ("Sk", "MODIFIER_SYMBOL"),
    ("Sm", "MATH_SYMBOL"),
    ("So", "OTHER_SYMBOL"),
    ("Zl", "LINE_SEPARATOR"),
    ("Zp", "PARAGRAPH_SEPARATOR"),
    ("Zs", "SPACE_SEPARATOR"),
];

/// UAX #44 grouped General_Category values: (pest rule name, members).
const GROUPS: [(&str, &[&str]); 8] = [
    ("CASED_LETTER", &["Lu", "Ll", "Lt"]),
    ("LETTER", &["Lu", "Ll", "Lt", "Lm", "Lo"]),
    ("MARK", &["Mn", "Mc", "Me"]),
    ("NUMBER", &["Nd", "Nl", "No"]),
    ("PUNCTUATION", &["Pc", "Pd", "Ps", "Pe", "Pi", "Pf", "Po"]),
    ("SYMBOL", &["Sm", "Sc", "Sk", "So"]),
    ("SEPARATOR", &["Zs", "Zl", "Zp"]),
    ("OTHER", &["Cc", "Cf", "Cs", "Co", "Cn"]),
];

const BLOCK: u32 = 4096;
const MAX_CP: u32 = 0x10FFFF;
const INVARIANTS_PER_BLOCK: u64 = 10;

fn fn_of(name: &str) -> Option<PropFn> {
    tables::FNS.iter().find(|(n, _)| *n == name).map(|(_, f)| *f)
}

fn kind_of(name: &str) -> &'static str {
    if pest::unicode::BINARY_PROPERTY_NAMES.contains(&name) {
        "binary"
    } else if pest::unicode::CATEGORY_PROPERTY_NAMES.contains(&name) {
        "category"
    } else if pest::unicode::SCRIPT_PROPERTY_NAMES.contains(&name) {
        "script"
    } else {
        "unlisted"
    }
}

struct BitSet(Vec<u64>);
impl BitSet {
    fn new() -> BitSet {
        BitSet(vec![0; (MAX_CP as usize + 64) / 64])
    }
    fn set(&mut self, cp: u32) {
        self.0[(cp / 64) as usize] |= 1 << (cp % 64);
    }
    fn get(&self, cp: u32) -> bool {
        self.0[(cp / 64) as usize] & (1 << (cp % 64)) != 0
    }
    fn len(&self) -> u64 {
        self.0.iter().map(|w| w.count_ones() as u64).sum()
    }
}

fn scalars(lo: u32, hi_incl: u32) -> impl Iterator<Item = char> {
    (lo..=hi_incl).filter_map(char::from_u32)
}

/// Code-point ranges the parser paths scan.
fn scan_ranges(thorough: bool) -> Vec<(u32, u32)> {
    if thorough {
        vec![(0, MAX_CP)]
    } else {
        vec![(0, 0xFFFF), (0x10000, 0x1FFFF), (0xE0000, 0xEFFFF)]
    }
}

fn scan_text(ranges: &[(u32, u32)]) -> String {
    let mut s = String::new();
    for (lo, hi) in ranges {
        s.extend(scalars(*lo, *hi));
    }
    s
}

fn grammar_for(name: &str) -> String {
    format!("scan = {{ (hit | other)* }}\nhit = {{ {name} }}\nother = {{ ANY }}\n")
}

fn cp_json(cp: Option<u32>) -> Value {
    match cp {
        Some(c) => json!(format!("U+{c:04X}")),
        None => Value::Null,
    }
}

fn parse_cp(v: &Value) -> Option<u32> {
    match v {
        Value::String(s) => u32::from_str_radix(s.trim_start_matches("U+"), 16).ok(),
        Value::Number(n) => n.as_u64().map(|x| x as u32),
        _ => None,
    }
}

fn witness(name: &str, path: &str, cp: Option<u32>, expected: Value, observed: Value, detail: &str) -> Value {
    json!({
        "property": "C16", "name": name, "path": path, "cp": cp_json(cp),
        "expected": expected, "observed": observed, "detail": detail,
        "unicode_src": tables::UNICODE_SRC_DIR,
    })
}

// ------------------------------------------------------------------------------------------------
// A. structure over scalar blocks
// ------------------------------------------------------------------------------------------------

struct Structure {
    gc: Vec<(&'static str, PropFn)>,
    groups: Vec<(&'static str, PropFn, Vec<usize>)>,
    scripts: Vec<(&'static str, PropFn)>,
}

/// Resolves the hard-coded UAX #44 names against the function table; a missing one is a violation
/// (the category rule the property statement names does not exist).
fn structure(rep: &mut Report) -> Structure {
    let mut st = Structure { gc: vec![], groups: vec![], scripts: vec![] };
    for (abbr, name) in GC {
        match fn_of(name) {
            Some(f) => st.gc.push((abbr, f)),
            None => rep.violation(witness(name, "fn", None, json!("a function for general category ".to_string() + abbr), json!("no such function"), "UAX #44 category has no rule")),
        }
    }
    for (name, members) in GROUPS {
        match fn_of(name) {
            Some(f) => {
                let idx = members.iter().filter_map(|m| st.gc.iter().position(|(a, _)| a == m)).collect();
                st.groups.push((name, f, idx));
            }
            None => rep.violation(witness(name, "fn", None, json!("a function for the grouped category"), json!("no such function"), "UAX #44 grouped category has no rule")),
        }
    }
    for name in pest::unicode::SCRIPT_PROPERTY_NAMES {
        if let Some(f) = fn_of(name) {
            st.scripts.push((name, f));
        }
    }
    st
}

/// Checks the three structural invariants on scalars lo..=hi. `only`: None = all invariants.
fn check_block(rep: &mut Report, st: &Structure, lo: u32, hi: u32, hist: &mut BTreeMap<&'static str, u64>, only: Option<&str>) {
    let want = |inv: &str| only.map_or(true, |o| o == inv || (inv == "@group_union" && o.starts_with("@group_union")));
    let mut n_scalars = 0u64;
    let mut lookups = 0u64;
    let (mut bad_part, mut bad_script) = (false, false);
    let mut bad_group = vec![false; st.groups.len()];
    let mut scripts_0 = 0u64;
    let mut scripts_1 = 0u64;
    for c in scalars(lo, hi) {
        n_scalars += 1;
        let cp = c as u32;
        // which two-letter categories hold
        let mut holds: u32 = 0;
        for (i, (_, f)) in st.gc.iter().enumerate() {
            if f(c) {
                holds |= 1 << i;
            }
        }
        lookups += st.gc.len() as u64;
        if want("@category_partition") {
            if holds.count_ones() == 1 {
                *hist.entry(st.gc[holds.trailing_zeros() as usize].0).or_insert(0) += 1;
            } else if !bad_part {
                bad_part = true;
                let which: Vec<&str> = st.gc.iter().enumerate().filter(|(i, _)| holds & (1 << i) != 0).map(|(_, (a, _))| *a).collect();
                rep.violation(witness("@category_partition", "fn", Some(cp), json!("exactly one two-letter general category"), json!(which), "general categories do not partition the scalar values"));
            }
        }
        if want("@group_union") {
            for (gi, (gname, gf, members)) in st.groups.iter().enumerate() {
                let union = members.iter().any(|i| holds & (1 << i) != 0);
                let g = gf(c);
                lookups += 1;
                if g != union && !bad_group[gi] {
                    bad_group[gi] = true;
                    rep.violation(witness(&format!("@group_union:{gname}"), "fn", Some(cp), json!({"union_of_members": union}), json!({"group": g}), "grouped category differs from the union of its members"));
                }
            }
        }
        if want("@scripts_disjoint") {
            let mut first: Option<&str> = None;
            let mut n = 0;
            for (sname, sf) in &st.scripts {
                if sf(c) {
                    n += 1;
                    if n == 2 && !bad_script {
                        bad_script = true;
                        rep.violation(witness("@scripts_disjoint", "fn", Some(cp), json!("at most one script"), json!([first.unwrap(), sname]), "two script rules match the same code point"));
                    }
                    first.get_or_insert(sname);
                }
            }
            lookups += st.scripts.len() as u64;
            if n == 0 {
                scripts_0 += 1;
            } else if n == 1 {
                scripts_1 += 1;
            }
        }
    }
    rep.add("scalars_checked_structure", n_scalars);
    rep.add("lookups", lookups);
    rep.add("scalars_with_no_advertised_script", scripts_0);
    rep.add("scalars_with_one_script", scripts_1);
    if only.is_none() {
        rep.add("evaluations", INVARIANTS_PER_BLOCK);
        rep.count("blocks_checked");
    } else {
        rep.count("evaluations");
    }
}

// ------------------------------------------------------------------------------------------------
// B. per name, per access path
// ------------------------------------------------------------------------------------------------

/// Reads the membership set out of one scan parse, checking the tree's shape on the way:
/// one `scan` pair over the whole text whose children are consecutive one-character `hit` or
/// `other` pairs. Err = (code point where the shape breaks, description).
fn membership<R: RuleType>(text: &str, pairs: Pairs<'_, R>, scan: R, hit: R, other: R) -> Result<BitSet, (Option<u32>, String)> {
    let mut set = BitSet::new();
    let mut top = pairs;
    let Some(root) = top.next() else { return Err((None, "no top pair".into())) };
    if root.as_rule() != scan {
        return Err((None, format!("top pair is {:?}", root.as_rule())));
    }
    let sp = root.as_span();
    if sp.start() != 0 || sp.end() != text.len() {
        return Err((text[sp.end().min(text.len())..].chars().next().map(|c| c as u32), format!("scan spans {}..{} of {}", sp.start(), sp.end(), text.len())));
    }
    if let Some(extra) = top.next() {
        return Err((None, format!("unexpected second top pair {:?}", extra.as_rule())));
    }
    let mut pos = 0usize;
    for p in root.into_inner() {
        let s = p.as_span();
        let Some(c) = text[pos..].chars().next() else { return Err((None, "pair past end of text".into())) };
        if s.start() != pos || s.end() != pos + c.len_utf8() {
            return Err((Some(c as u32), format!("pair {:?} spans {}..{}, expected {}..{}", p.as_rule(), s.start(), s.end(), pos, pos + c.len_utf8())));
        }
        let r = p.as_rule();
        if r == hit {
            set.set(c as u32);
        } else if r != other {
            return Err((Some(c as u32), format!("unexpected pair {r:?}")));
        }
        pos = s.end();
    }
    if pos != text.len() {
        return Err((text[pos..].chars().next().map(|c| c as u32), format!("children end at byte {pos} of {}", text.len())));
    }
    Ok(set)
}

fn first_diff(ranges: &[(u32, u32)], base: &BitSet, got: &BitSet) -> Option<u32> {
    for (lo, hi) in ranges {
        for c in scalars(*lo, *hi) {
            if base.get(c as u32) != got.get(c as u32) {
                return Some(c as u32);
            }
        }
    }
    None
}

fn record_path(rep: &mut Report, name: &str, path: &str, members: u64) {
    rep.count("evaluations");
    rep.count(&format!("names_checked:{path}"));
    if members > 0 {
        let bucket = 64 - members.leading_zeros();
        rep.nontrivial(hash_bytes(&[name.as_bytes(), path.as_bytes()]), hash_bytes(&[path.as_bytes(), kind_of(name).as_bytes(), &[bucket as u8]]));
        rep.count(&format!("nonempty_membership:{path}"));
    } else {
        rep.count(&format!("empty_membership:{path}"));
    }
}

fn compare_parser_path(rep: &mut Report, name: &str, path: &str, ranges: &[(u32, u32)], base: &BitSet, got: Result<Result<BitSet, (Option<u32>, String)>, String>, n_chars: u64) {
    rep.add(&format!("scalars_checked:{path}"), n_chars);
    match got {
        Err(panic) => {
            rep.count("evaluations");
            rep.violation(witness(name, path, None, json!("a parse of the scan text"), json!({"panic": panic}), "parser panicked"));
        }
        Ok(Err((cp, what))) => {
            rep.count("evaluations");
            let exp = cp.map(|c| json!({"member": base.get(c)})).unwrap_or(Value::Null);
            rep.violation(witness(name, path, cp, exp, json!(what), "scan parse failed or its tree is not one hit/other pair per character"));
        }
        Ok(Ok(set)) => {
            record_path(rep, name, path, set.len());
            if let Some(cp) = first_diff(ranges, base, &set) {
                rep.violation(witness(name, path, Some(cp), json!({"member": base.get(cp)}), json!({"member": set.get(cp)}), "built-in rule disagrees with the property function"));
            }
        }
    }
}

/// All checks for one advertised name. `paths`: which access paths to run.
fn check_name(rep: &mut Report, name: &str, ranges: &[(u32, u32)], text: &str, paths: &[&str]) {
    rep.count("names_checked");
    rep.count(&format!("names_checked_kind:{}", kind_of(name)));
    // -- fn path: the advertised name has a function
    let Some(f) = fn_of(name) else {
        rep.count("evaluations");
        rep.violation(witness(name, "fn", None, json!("pub fn pest::unicode::NAME"), json!("advertised name has no function"), "advertised name without function"));
        return;
    };
    let mut base = BitSet::new();
    for c in scalars(0, MAX_CP) {
        if f(c) {
            base.set(c as u32);
        }
    }
    rep.add("lookups", 1_112_064);
    if paths.contains(&"fn") {
        rep.add("scalars_checked:fn", 1_112_064);
        record_path(rep, name, "fn", base.len());
        let n = base.len();
        rep.sample_slot(kind_of(name), || json!({"name": name, "members": n, "first": cp_json(scalars(0, MAX_CP).find(|c| f(*c)).map(|c| c as u32))}));
    }
    // -- fn path under concurrent use: the functions are advertised as plain `fn(char) -> bool`, so the answer
    // may not depend on what other threads ask at the same time (8 threads, each walking the scalar values of
    // four planes from its own offset with its own stride, so that neighbours in time are far apart in the tables)
    if paths.contains(&"fn_threads") {
        let bad = std::sync::Mutex::new(None::<(u32, bool)>);
        let calls = std::sync::atomic::AtomicU64::new(0);
        std::thread::scope(|sc| {
            for t in 0..8u32 {
                let (base, bad, calls) = (&base, &bad, &calls);
                sc.spawn(move || {
                    let strides = [1u32, 67, 4099, 64, 65, 257, 129, 8191];
                    let stride = strides[t as usize];
                    let span = 0x40000u32; // planes 0..3, where most properties have members on both sides of U+10000
                    let mut cp = (t * 0x7919) % span;
                    let mut n = 0u64;
                    for _ in 0..120_000 {
                        if let Some(c) = char::from_u32(cp) {
                            n += 1;
                            let got = f(c);
                            if got != base.get(cp) {
                                let mut b = bad.lock().unwrap();
                                if b.is_none() {
                                    *b = Some((cp, got));
                                }
                                break;
                            }
                        }
                        cp = (cp + stride) % span;
                        // jump between the BMP and the supplementary planes now and then
                        if n % 5 == 0 {
                            cp = (cp + 0x10000) % span;
                        }
                    }
                    calls.fetch_add(n, std::sync::atomic::Ordering::Relaxed);
                });
            }
        });
        let n = calls.load(std::sync::atomic::Ordering::Relaxed);
        rep.add("lookups", n);
        rep.add("scalars_checked:fn_threads", n);
        record_path(rep, name, "fn_threads", base.len());
        let first_bad = *bad.lock().unwrap();
        if let Some((cp, got)) = first_bad {
            rep.violation(witness(name, "fn_threads", Some(cp), json!({"member": base.get(cp)}), json!({"member": got}),
                                  "the property function answered differently while 7 other threads were calling the same function"));
        }
    }
    // -- by_name path, exhaustive
    if paths.contains(&"by_name") {
        match pest::unicode::by_name(name) {
            None => {
                rep.count("evaluations");
                rep.violation(witness(name, "by_name", None, json!("Some(property)"), json!("None"), "advertised name does not resolve in by_name"));
            }
            Some(g) => {
                let mut n = 0u64;
                let mut bad = None;
                for c in scalars(0, MAX_CP) {
                    let m = g(c);
                    n += m as u64;
                    if m != base.get(c as u32) && bad.is_none() {
                        bad = Some(c as u32);
                    }
                }
                rep.add("lookups", 1_112_064);
                rep.add("scalars_checked:by_name", 1_112_064);
                record_path(rep, name, "by_name", n);
                if let Some(cp) = bad {
                    rep.violation(witness(name, "by_name", Some(cp), json!({"member": base.get(cp)}), json!({"member": !base.get(cp)}), "by_name(name) disagrees with the function of the same name"));
                }
            }
        }
    }
    let n_chars = text.chars().count() as u64;
    // -- VM built-in (parse_and_optimize is also the validator check)
    if paths.contains(&"vm") {
        let g = grammar_for(name);
        match catch_unwind(AssertUnwindSafe(|| pest_meta::parse_and_optimize(&g))) {
            Err(p) => {
                rep.count("evaluations");
                rep.violation(witness(name, "vm", None, json!("grammar accepted"), json!({"panic": panic_message(&p)}), "front-end panicked on a grammar using the property"));
            }
            Ok(Err(es)) => {
                rep.count("evaluations");
                let msgs: Vec<String> = es.iter().map(|e| e.variant.message().to_string()).collect();
                rep.violation(witness(name, "vm", None, json!("grammar accepted by the validator"), json!(msgs), "advertised name rejected as a built-in rule"));
            }
            Ok(Ok((_, rules))) => {
                rep.count("validator_accepted");
                let vm = pest_vm::Vm::new(rules);
                rep.journal(|| json!({"name": name, "path": "vm", "cp": null}));
                pest::set_call_limit(None);
                let got = catch_unwind(AssertUnwindSafe(|| match vm.parse("scan", text) {
                    Ok(pairs) => membership(text, pairs, "scan", "hit", "other"),
                    Err(e) => Err((text.get(err_pos(&e)..).and_then(|t| t.chars().next()).map(|c| c as u32), format!("parse error: {}", e.variant.message()))),
                }))
                .map_err(|p| panic_message(&p));
                rep.add("lookups", n_chars);
                compare_parser_path(rep, name, "vm", ranges, &base, got, n_chars);
            }
        }
    }
    // -- derive built-in
    if paths.contains(&"derive") {
        let scan = uni::SCAN_RULES.iter().find(|(n, _)| *n == name).map(|(_, r)| *r);
        let hit = uni::HIT_RULES.iter().find(|(n, _)| *n == name).map(|(_, r)| *r);
        match (scan, hit) {
            (Some(scan), Some(hit)) => {
                rep.journal(|| json!({"name": name, "path": "derive", "cp": null}));
                let got = catch_unwind(AssertUnwindSafe(|| match uni::UniParser::parse(scan, text) {
                    Ok(pairs) => membership(text, pairs, scan, hit, uni::Rule::other),
                    Err(e) => Err((text.get(err_pos(&e)..).and_then(|t| t.chars().next()).map(|c| c as u32), format!("parse error: {}", e.variant.message()))),
                }))
                .map_err(|p| panic_message(&p));
                rep.add("lookups", n_chars);
                compare_parser_path(rep, name, "derive", ranges, &base, got, n_chars);
            }
            // cannot happen: the grammar is generated from the same list as FNS
            _ => rep.inconclusive(json!({"why": "generated grammar has no scan rule for this name", "name": name})),
        }
    }
    check_contexts(rep, name, f, ranges, &base, text, paths);
}


// ------------------------------------------------------------------------------------------------
// C. the property used inside larger expressions (where the optimizer passes rewrite around it)

/// Decodes `seg = { (stop | run)* }  stop = { NAME }  run = @{ !NAME ~ ANY ~ (!NAME ~ ANY)* }`:
/// the children tile the text, a `stop` pair is one character (a member), a `run` pair is a maximal
/// stretch of non-members (two adjacent runs = the first one stopped at a non-member).
fn seg_membership<R: RuleType>(text: &str, pairs: Pairs<'_, R>, seg: R, stop: R, run: R) -> Result<BitSet, (Option<u32>, String)> {
    let mut set = BitSet::new();
    let mut top = pairs;
    let Some(root) = top.next() else { return Err((None, "no top pair".into())) };
    if root.as_rule() != seg {
        return Err((None, format!("top pair is {:?}", root.as_rule())));
    }
    let sp = root.as_span();
    if sp.start() != 0 || sp.end() != text.len() {
        return Err((text[sp.end().min(text.len())..].chars().next().map(|c| c as u32), format!("seg spans {}..{} of {}", sp.start(), sp.end(), text.len())));
    }
    let mut pos = 0usize;
    let mut prev_run = false;
    for p in root.into_inner() {
        let s = p.as_span();
        let Some(c) = text[pos..].chars().next() else { return Err((None, "pair past end of text".into())) };
        if s.start() != pos || s.end() <= pos {
            return Err((Some(c as u32), format!("pair {:?} spans {}..{}, expected to start at {}", p.as_rule(), s.start(), s.end(), pos)));
        }
        let r = p.as_rule();
        if r == stop {
            if s.end() != pos + c.len_utf8() {
                return Err((Some(c as u32), format!("stop pair spans {}..{}, expected one character", s.start(), s.end())));
            }
            set.set(c as u32);
            prev_run = false;
        } else if r == run {
            if prev_run {
                return Err((Some(c as u32), "two adjacent run pairs: the `(!NAME ~ ANY)*` run before this character stopped at a non-member".into()));
            }
            prev_run = true;
        } else {
            return Err((Some(c as u32), format!("unexpected pair {r:?}")));
        }
        pos = s.end();
    }
    if pos != text.len() {
        return Err((text[pos..].chars().next().map(|c| c as u32), format!("children end at byte {pos} of {}", text.len())));
    }
    Ok(set)
}

/// One flag per character of `text`: did the `hit` rule match it (`scan = { (hit | other)* }`).
fn hits_per_char<R: RuleType>(text: &str, pairs: Pairs<'_, R>, scan: R, hit: R, other: R) -> Result<Vec<bool>, (Option<u32>, String)> {
    let mut top = pairs;
    let Some(root) = top.next() else { return Err((None, "no top pair".into())) };
    if root.as_rule() != scan {
        return Err((None, format!("top pair is {:?}", root.as_rule())));
    }
    let sp = root.as_span();
    if sp.start() != 0 || sp.end() != text.len() {
        return Err((text[sp.end().min(text.len())..].chars().next().map(|c| c as u32), format!("scan spans {}..{} of {}", sp.start(), sp.end(), text.len())));
    }
    let mut out = Vec::with_capacity(text.len() / 2);
    let mut pos = 0usize;
    for p in root.into_inner() {
        let s = p.as_span();
        let Some(c) = text[pos..].chars().next() else { return Err((None, "pair past end of text".into())) };
        if s.start() != pos || s.end() != pos + c.len_utf8() {
            return Err((Some(c as u32), format!("pair {:?} spans {}..{}, expected {}..{}", p.as_rule(), s.start(), s.end(), pos, pos + c.len_utf8())));
        }
        let r = p.as_rule();
        if r == hit {
            out.push(true);
        } else if r == other {
            out.push(false);
        } else {
            return Err((Some(c as u32), format!("unexpected pair {r:?}")));
        }
        pos = s.end();
    }
    if pos != text.len() {
        return Err((text[pos..].chars().next().map(|c| c as u32), format!("children end at byte {pos} of {}", text.len())));
    }
    Ok(out)
}

/// Up to ~100 members of every advertised property: the first and last few, evenly spaced ones, and
/// the first member of every plane.
fn samples() -> &'static Vec<(&'static str, PropFn, Vec<char>)> {
    static S: std::sync::OnceLock<Vec<(&'static str, PropFn, Vec<char>)>> = std::sync::OnceLock::new();
    S.get_or_init(|| {
        let mut out = vec![];
        for (name, f) in tables::FNS.iter() {
            let members: Vec<char> = scalars(0, MAX_CP).filter(|c| f(*c)).collect();
            let mut pick: BTreeSet<char> = BTreeSet::new();
            let n = members.len();
            for i in 0..n.min(8) {
                pick.insert(members[i]);
                pick.insert(members[n - 1 - i]);
            }
            if n > 0 {
                for i in 0..64 {
                    pick.insert(members[i * (n - 1) / 63.max(1)]);
                }
                for plane in 0..17u32 {
                    let at = members.partition_point(|c| (*c as u32) < plane << 16);
                    if at < n && (members[at] as u32) >> 16 == plane {
                        pick.insert(members[at]);
                    }
                }
            }
            out.push((*name, *f, pick.into_iter().collect()));
        }
        out
    })
}

fn pair_text(a: &[char], b: &[char], salt: u64) -> String {
    let mut s = String::new();
    let mut ia = a.iter();
    let mut ib = b.iter();
    loop {
        let x = ia.next();
        let y = ib.next();
        if x.is_none() && y.is_none() {
            break;
        }
        s.extend(x);
        s.extend(y);
    }
    s.extend((0x20u8..0x7f).map(|b| b as char));
    s.extend(scalars(0xa0, 0xbf));
    let mut h = salt | 1;
    for _ in 0..48 {
        h = h.wrapping_mul(6364136223846793005).wrapping_add(1442695040888963407);
        if let Some(c) = char::from_u32(((h >> 33) % (MAX_CP as u64 + 1)) as u32) {
            s.push(c);
        }
    }
    s
}

fn pair_witness(a: &str, b: &str, path: &str, cp: Option<u32>, expected: Value, observed: Value, detail: &str) -> Value {
    let mut w = witness(a, path, cp, expected, observed, detail);
    w["partner"] = json!(b);
    w["rule"] = json!(format!("hit = {{ {a} | {b} }}"));
    w
}

/// Contexts for one advertised name; `paths` selects among vm_seg, derive_seg, vm_pair, derive_pair.
fn check_contexts(rep: &mut Report, name: &str, f: PropFn, ranges: &[(u32, u32)], base: &BitSet, text: &str, paths: &[&str]) {
    let t0 = std::time::Instant::now();
    let mut lap = t0;
    let mut tick = |rep: &mut Report, what: &str| {
        let now = std::time::Instant::now();
        rep.add(&format!("ms:{what}"), now.duration_since(lap).as_millis() as u64);
        lap = now;
    };
    let n_chars = text.chars().count() as u64;
    let parse_err = |t: &str, pos: usize, msg: String| (t.get(pos..).and_then(|x| x.chars().next()).map(|c| c as u32), format!("parse error: {msg}"));
    // the VM is slow on `!NAME ~ ANY`: in the quick tier it sees every member, every neighbour of a
    // member and every 8th other scalar of the scan ranges; the generated parser sees the whole text
    let reduced: String;
    let vm_text: &str = if text.len() > 2_000_000 || paths.len() == 1 {
        text
    } else {
        reduced = text
            .chars()
            .filter(|c| {
                let u = *c as u32;
                u % 8 == 0 || base.get(u) || (u > 0 && base.get(u - 1)) || (u < MAX_CP && base.get(u + 1))
            })
            .collect();
        &reduced
    };
    if paths.contains(&"vm_seg") {
        let text = vm_text;
        let n_chars = text.chars().count() as u64;
        let g = format!("seg = {{ (stop | run)* }}\nstop = {{ {name} }}\nrun = @{{ !{name} ~ ANY ~ (!{name} ~ ANY)* }}\n");
        match catch_unwind(AssertUnwindSafe(|| pest_meta::parse_and_optimize(&g))) {
            Ok(Ok((_, rules))) => {
                let vm = pest_vm::Vm::new(rules);
                rep.journal(|| json!({"name": name, "path": "vm_seg", "cp": null}));
                pest::set_call_limit(None);
                let got = catch_unwind(AssertUnwindSafe(|| match vm.parse("seg", text) {
                    Ok(pairs) => seg_membership(text, pairs, "seg", "stop", "run"),
                    Err(e) => Err(parse_err(text, err_pos(&e), e.variant.message().to_string())),
                }))
                .map_err(|p| panic_message(&p));
                rep.add("lookups", n_chars);
                compare_parser_path(rep, name, "vm_seg", ranges, base, got, n_chars);
            }
            Ok(Err(es)) => {
                rep.count("evaluations");
                let msgs: Vec<String> = es.iter().map(|e| e.variant.message().to_string()).collect();
                rep.violation(witness(name, "vm_seg", None, json!("grammar accepted by the validator"), json!(msgs), "advertised name rejected as a built-in rule inside `(!NAME ~ ANY)*`"));
            }
            Err(p) => {
                rep.count("evaluations");
                rep.violation(witness(name, "vm_seg", None, json!("grammar accepted"), json!({"panic": panic_message(&p)}), "front-end panicked on a grammar using the property"));
            }
        }
    }
    tick(rep, "vm_seg");
    if paths.contains(&"derive_seg") {
        if let Some((_, seg, stop, run)) = uni::SEG_RULES.iter().find(|(n, ..)| *n == name).copied() {
            rep.journal(|| json!({"name": name, "path": "derive_seg", "cp": null}));
            let got = catch_unwind(AssertUnwindSafe(|| match uni::UniParser::parse(seg, text) {
                Ok(pairs) => seg_membership(text, pairs, seg, stop, run),
                Err(e) => Err(parse_err(text, err_pos(&e), e.variant.message().to_string())),
            }))
            .map_err(|p| panic_message(&p));
            rep.add("lookups", n_chars);
            compare_parser_path(rep, name, "derive_seg", ranges, base, got, n_chars);
        } else {
            rep.inconclusive(json!({"why": "generated grammar has no seg rule for this name", "name": name}));
        }
    }
    tick(rep, "derive_seg");
    let judge_pair = |rep: &mut Report, path: &str, b: &str, fb: PropFn, t: &str, got: Result<Result<Vec<bool>, (Option<u32>, String)>, String>| {
        rep.count("evaluations");
        rep.count(&format!("pairs_checked:{path}"));
        rep.add(&format!("scalars_checked:{path}"), t.chars().count() as u64);
        match got {
            Err(panic) => rep.violation(pair_witness(name, b, path, None, json!("a parse of the sample text"), json!({"panic": panic}), "parser panicked")),
            Ok(Err((cp, what))) => {
                let exp = cp.and_then(char::from_u32).map(|c| json!({"member": f(c) || fb(c)})).unwrap_or(Value::Null);
                rep.violation(pair_witness(name, b, path, cp, exp, json!(what), "scan parse failed or its tree is not one hit/other pair per character"));
            }
            Ok(Ok(flags)) => {
                let mut members = 0u64;
                for (c, got) in t.chars().zip(flags.iter()) {
                    let exp = f(c) || fb(c);
                    members += exp as u64;
                    if exp != *got {
                        rep.violation(pair_witness(name, b, path, Some(c as u32), json!({"member": exp, "first": f(c), "second": fb(c)}), json!({"member": got}),
                                                   "a choice of two built-in property rules does not match the union of the two property functions"));
                        return;
                    }
                }
                if members > 0 {
                    rep.nontrivial(hash_bytes(&[name.as_bytes(), b.as_bytes(), path.as_bytes()]), hash_bytes(&[path.as_bytes(), kind_of(name).as_bytes(), kind_of(b).as_bytes()]));
                }
            }
        }
    };
    if paths.contains(&"vm_pair") {
        let all = samples();
        tick(rep, "samples");
        let mine: Vec<char> = all.iter().find(|(n, ..)| *n == name).map(|x| x.2.clone()).unwrap_or_default();
        let partners: Vec<&(&str, PropFn, Vec<char>)> = all.iter().filter(|(n, ..)| *n != name && pest::unicode::unicode_property_names().any(|a| a == *n)).collect();
        let mut g = String::from("other = { ANY }\n");
        for (i, (b, ..)) in partners.iter().enumerate() {
            g.push_str(&format!("s{i} = {{ (h{i} | other)* }}\nh{i} = {{ {name} | {b} }}\n"));
        }
        match catch_unwind(AssertUnwindSafe(|| pest_meta::parse_and_optimize(&g))) {
            Ok(Ok((_, rules))) => {
                let vm = pest_vm::Vm::new(rules);
                pest::set_call_limit(None);
                for (i, (b, fb, sb)) in partners.iter().enumerate() {
                    let t = pair_text(&mine, sb, hash_bytes(&[name.as_bytes(), b.as_bytes()]));
                    rep.journal(|| json!({"name": name, "path": "vm_pair", "partner": b, "cp": null}));
                    let (sr, hr) = (format!("s{i}"), format!("h{i}"));
                    let got = catch_unwind(AssertUnwindSafe(|| match vm.parse(&sr, &t) {
                        Ok(pairs) => hits_per_char(&t, pairs, sr.as_str(), hr.as_str(), "other"),
                        Err(e) => Err(parse_err(&t, err_pos(&e), e.variant.message().to_string())),
                    }))
                    .map_err(|p| panic_message(&p));
                    judge_pair(rep, "vm_pair", b, *fb, &t, got);
                }
            }
            Ok(Err(es)) => {
                rep.count("evaluations");
                let msgs: Vec<String> = es.iter().map(|e| e.variant.message().to_string()).collect();
                rep.violation(witness(name, "vm_pair", None, json!("grammar accepted by the validator"), json!(msgs), "a choice of two advertised names rejected"));
            }
            Err(p) => {
                rep.count("evaluations");
                rep.violation(witness(name, "vm_pair", None, json!("grammar accepted"), json!({"panic": panic_message(&p)}), "front-end panicked on a grammar using the property"));
            }
        }
    }
    tick(rep, "vm_pair");
    if paths.contains(&"derive_pair") {
        let all = samples();
        for (a, b, scan, hit) in uni::PAIR_RULES.iter().filter(|(a, ..)| *a == name) {
            let (Some(sa), Some(sb)) = (all.iter().find(|(n, ..)| n == a), all.iter().find(|(n, ..)| n == b)) else { continue };
            let t = pair_text(&sa.2, &sb.2, hash_bytes(&[a.as_bytes(), b.as_bytes()]));
            rep.journal(|| json!({"name": name, "path": "derive_pair", "partner": b, "cp": null}));
            let got = catch_unwind(AssertUnwindSafe(|| match uni::UniParser::parse(*scan, &t) {
                Ok(pairs) => hits_per_char(&t, pairs, *scan, *hit, uni::Rule::other),
                Err(e) => Err(parse_err(&t, err_pos(&e), e.variant.message().to_string())),
            }))
            .map_err(|p| panic_message(&p));
            judge_pair(rep, "derive_pair", b, sb.1, &t, got);
        }
    }
}

fn err_pos<R: RuleType>(e: &pest::error::Error<R>) -> usize {
    match e.location {
        pest::error::InputLocation::Pos(p) => p,
        pest::error::InputLocation::Span((s, _)) => s,
    }
}

/// Name lists agree: advertised <-> functions; plus informational counts about the data tables.
fn check_name_lists(rep: &mut Report) {
    let advertised: Vec<&str> = pest::unicode::unicode_property_names().collect();
    let adv_set: BTreeSet<&str> = advertised.iter().copied().collect();
    let fn_set: BTreeSet<&str> = tables::FNS.iter().map(|(n, _)| *n).collect();
    rep.count("evaluations");
    rep.notes.insert("advertised_names".into(), json!(advertised.len()));
    rep.notes.insert("functions".into(), json!(tables::FNS.len()));
    rep.notes.insert("unicode_src".into(), json!(tables::UNICODE_SRC_DIR));
    if adv_set.len() != advertised.len() {
        let mut seen = BTreeSet::new();
        let dups: Vec<&str> = advertised.iter().copied().filter(|n| !seen.insert(*n)).collect();
        rep.violation(witness(dups[0], "fn", None, json!("each name advertised once"), json!(dups), "duplicate advertised property name"));
    }
    for n in adv_set.difference(&fn_set) {
        rep.violation(witness(n, "fn", None, json!("pub fn pest::unicode::NAME"), json!("advertised name has no function"), "advertised name without function"));
    }
    for n in fn_set.difference(&adv_set) {
        rep.violation(witness(n, "fn", None, json!("name listed by unicode_property_names()"), json!("function exists but the name is not advertised"), "function without advertised name"));
    }
    // three sub-lists are exactly the concatenation
    let sub = pest::unicode::BINARY_PROPERTY_NAMES.len() + pest::unicode::CATEGORY_PROPERTY_NAMES.len() + pest::unicode::SCRIPT_PROPERTY_NAMES.len();
    if sub != advertised.len() {
        rep.violation(witness("@name_lists", "fn", None, json!(sub), json!(advertised.len()), "unicode_property_names() is not the concatenation of the three name statics"));
    }
    // Informational (the property does not demand the converse): data tables that `by_name` would
    // resolve but that are not advertised, hence have no function and are refused by the validator.
    let unadvertised: Vec<String> = tables::TABLE_BY_NAME.iter().map(|(_, ucd, _)| ucd.to_uppercase()).filter(|n| !adv_set.contains(n.as_str())).collect();
    rep.notes.insert("tables_resolvable_by_name_but_not_advertised".into(), json!(unadvertised));
    rep.notes.insert("trie_tables".into(), json!(tables::TABLE_CONSTS.len()));
}

pub fn run(args: &Args) {
    let mut rep = Report::new(args);
    if let Some(path) = &args.replay {
        replay(args, &mut rep, path);
        rep.finish(args);
        return;
    }
    rep.notes.insert(
        "counting_rule".into(),
        json!("evaluations = (name, path) membership-set comparisons + 10 invariants per 4096-code-point block + 1 name-list comparison"),
    );
    if args.shard == 0 {
        check_name_lists(&mut rep);
    }
    // A. structure
    let st = structure(&mut rep);
    let mut hist: BTreeMap<&'static str, u64> = BTreeMap::new();
    let n_blocks = (MAX_CP + 1) / BLOCK;
    let mut stopped = false;
    for b in 0..n_blocks {
        if (b as u64) % args.nshards != args.shard {
            continue;
        }
        if rep.elapsed() > args.max_s {
            stopped = true;
            rep.notes.insert("stopped_early_at_block".into(), json!(b));
            break;
        }
        check_block(&mut rep, &st, b * BLOCK, b * BLOCK + BLOCK - 1, &mut hist, None);
    }
    for (abbr, n) in &hist {
        rep.add(&format!("gc:{abbr}"), *n);
    }
    // B. names
    let names: Vec<&str> = pest::unicode::unicode_property_names().collect();
    let ranges = scan_ranges(args.thorough);
    let text = scan_text(&ranges);
    rep.notes.insert("scan_text_bytes".into(), json!(text.len()));
    rep.notes.insert("scan_ranges".into(), json!(ranges.iter().map(|(a, b)| format!("U+{a:04X}..=U+{b:04X}")).collect::<Vec<_>>()));
    for (i, name) in names.iter().enumerate() {
        if (i as u64) % args.nshards != args.shard {
            continue;
        }
        if rep.elapsed() > args.max_s {
            stopped = true;
            rep.notes.insert("stopped_early_at_name".into(), json!(name));
            break;
        }
        check_name(&mut rep, name, &ranges, &text, &["fn", "fn_threads", "by_name", "vm", "derive", "vm_seg", "derive_seg", "vm_pair", "derive_pair"]);
    }
    if stopped {
        rep.inconclusive(json!({"why": "time budget reached before the shard's blocks and names were all checked"}));
    }
    rep.finish(args);
}

/// Replay = {"name": ..., "path": "fn|by_name|vm|derive", "cp": ...}: re-runs that name on that
/// path over every scalar value (a structural witness re-runs its invariant on every block).
fn replay(_args: &Args, rep: &mut Report, path: &std::path::Path) {
    let v: Value = serde_json::from_str(&std::fs::read_to_string(path).expect("replay file")).expect("json");
    let v = if v.get("witness").is_some() { v["witness"].clone() } else { v };
    let name = v["name"].as_str().unwrap_or("").to_string();
    let p = v["path"].as_str().unwrap_or("fn").to_string();
    rep.notes.insert("replayed".into(), json!({"name": name, "path": p, "cp": v["cp"]}));
    if name.starts_with('@') {
        if name == "@name_lists" {
            check_name_lists(rep);
            return;
        }
        let st = structure(rep);
        let mut hist = BTreeMap::new();
        match parse_cp(&v["cp"]) {
            // the block holding the code point first (so its witness is the first reported) ...
            Some(cp) if cp <= MAX_CP => {
                let b = cp / BLOCK;
                check_block(rep, &st, b * BLOCK, b * BLOCK + BLOCK - 1, &mut hist, Some(&name));
            }
            _ => {}
        }
        if rep.violations.is_empty() {
            for b in 0..(MAX_CP + 1) / BLOCK {
                check_block(rep, &st, b * BLOCK, b * BLOCK + BLOCK - 1, &mut hist, Some(&name));
            }
        }
        return;
    }
    if !pest::unicode::unicode_property_names().any(|n| n == name) {
        // a witness about a function whose name is not advertised
        check_name_lists(rep);
        return;
    }
    let ranges = scan_ranges(true);
    let text = if p == "vm" || p == "derive" || p.ends_with("_seg") { scan_text(&ranges) } else { String::new() };
    if p == "fn" {
        check_name_lists(rep);
    }
    check_name(rep, &name, &ranges, &text, &[p.as_str()]);
}
