//! mon_fixed: monitors over derive-compiled parsers built from the working tree
//! (one sub-command per property; each invocation is one single-threaded shard).
mod c16;
mod c18;
mod realg;
// mod c14;   // <- maintainer: C14 (bootstrapped grammar parser) goes here

use vmon::shard::Args;

/// Runs `f` on a thread with a large stack (recursive descent depth is input dependent).
pub fn with_big_stack<T: Send + 'static>(f: impl FnOnce() -> T + Send + 'static) -> T {
    std::thread::Builder::new().stack_size(1 << 30).spawn(f).unwrap().join().unwrap()
}

fn main() {
    let argv: Vec<String> = std::env::args().collect();
    let args = Args::parse(&argv);
    vmon::pestrun::quiet_panics();
    let a = args.clone();
    with_big_stack(move || match a.prop.as_str() {
        "c16" => c16::run(&a),
        "c18" => c18::run(&a),
        "c15g" | "c08g" | "c12g" => realg::run(&a),
        // "c14" => c14::run(&a),   // <- maintainer: add C14 here
        other => {
            eprintln!("unknown sub-command {other}");
            std::process::exit(3);
        }
    });
}
