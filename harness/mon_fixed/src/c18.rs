//! C18: the bundled JSON grammar accepts exactly RFC 8259 and mirrors the document in its tree.
//!
//! Observed: `pest_grammars::json::JsonParser::parse(Rule::json, text)` (derive-compiled from the
//! working tree's grammars/src/grammars/json.pest).
//! Oracle: `Rfc::recognize`, a recursive-descent recognizer written from the ABNF of RFC 8259
//! (sections 2-7), which also lists the pairs the grammar must produce, in pre-order, as
//! (rule, start byte, end byte):
//!     json 0..len > value > object|array|string|number|bool|null ; object > pair* ;
//!     pair > string, value ; array > value* ; then EOI len..len.
//! (string and number are atomic rules of the grammar, so they have no children; WHITESPACE is
//! silent.) The oracle is itself cross-checked against serde_json on every text outside
//! serde_json's documented differences (recursion limit 128, lone surrogate escapes, numbers
//! beyond f64 range); a disagreement there is a harness error (inconclusive), never a violation.
//!
//! Workload: (1) every string of length <= 4 (quick) / <= 5 (thorough) over a 20-symbol alphabet,
//! (2) random valid documents, (3) one-mutation near-misses of those.
//! Non-trivial case: text of >= 3 bytes that is accepted (>= 3 pairs) or is a near-miss, i.e.
//! rejected and exactly one mutation away from an accepted text.

use pest::Parser;
use pest_grammars::json::{JsonParser, Rule};
use serde_json::{json, Value};
use std::panic::{catch_unwind, AssertUnwindSafe};
use vmon::pestrun::panic_message;
use vmon::rng::{hash_bytes, Rng};
use vmon::shard::{Args, KnownEntry, Report};

pub type Flat = Vec<(&'static str, usize, usize)>;

// ------------------------------------------------------------------------------------------------
// Oracle: RFC 8259
// ------------------------------------------------------------------------------------------------

#[derive(Clone, Debug, Default)]
pub struct Facts {
    pub max_depth: usize,
    /// a \uD800-\uDFFF escape that is not part of a high+low pair (grammatical per RFC 8259
    /// section 7, "unpredictable" per section 8.2; serde_json refuses it)
    pub lone_surrogate: bool,
    /// a number whose magnitude may exceed f64 (serde_json refuses "number out of range")
    pub huge_number: bool,
    /// bit per value kind seen: object array string number bool null member
    pub kinds: u8,
}

pub struct Rfc<'a> {
    b: &'a [u8],
    pos: usize,
    depth: usize,
    out: Flat,
    pub facts: Facts,
}

type Rej = (usize, &'static str);

impl<'a> Rfc<'a> {
    /// JSON-text = ws value ws
    pub fn recognize(text: &'a str) -> (Result<Flat, Rej>, Facts) {
        let mut r = Rfc { b: text.as_bytes(), pos: 0, depth: 0, out: Vec::new(), facts: Facts::default() };
        let res = r.json_text();
        let facts = r.facts.clone();
        (res.map(|_| r.out), facts)
    }

    fn json_text(&mut self) -> Result<(), Rej> {
        let n = self.b.len();
        self.out.push(("json", 0, n));
        self.ws();
        self.value()?;
        self.ws();
        if self.pos != n {
            return Err((self.pos, "trailing characters after the value"));
        }
        self.out.push(("EOI", n, n));
        Ok(())
    }

    fn peek(&self) -> Option<u8> {
        self.b.get(self.pos).copied()
    }

    /// ws = *( %x20 / %x09 / %x0A / %x0D )
    fn ws(&mut self) {
        while let Some(b' ' | b'\t' | b'\n' | b'\r') = self.peek() {
            self.pos += 1;
        }
    }

    /// value = false / null / true / object / array / number / string
    fn value(&mut self) -> Result<(), Rej> {
        let i = self.out.len();
        self.out.push(("value", self.pos, 0));
        match self.peek() {
            Some(b'{') => self.object()?,
            Some(b'[') => self.array()?,
            Some(b'"') => {
                self.facts.kinds |= 4;
                self.string()?
            }
            Some(b'-' | b'0'..=b'9') => self.number()?,
            Some(b't') => self.literal("true", "bool", 16)?,
            Some(b'f') => self.literal("false", "bool", 16)?,
            Some(b'n') => self.literal("null", "null", 32)?,
            Some(_) => return Err((self.pos, "no value starts with this character")),
            None => return Err((self.pos, "value expected, text ended")),
        }
        self.out[i].2 = self.pos;
        Ok(())
    }

    fn literal(&mut self, word: &'static str, rule: &'static str, bit: u8) -> Result<(), Rej> {
        if self.b[self.pos..].starts_with(word.as_bytes()) {
            self.out.push((rule, self.pos, self.pos + word.len()));
            self.pos += word.len();
            self.facts.kinds |= bit;
            Ok(())
        } else {
            Err((self.pos, "misspelt literal name"))
        }
    }

    fn enter(&mut self) {
        self.depth += 1;
        self.facts.max_depth = self.facts.max_depth.max(self.depth);
    }

    /// object = begin-object [ member *( value-separator member ) ] end-object
    /// member = string name-separator value
    fn object(&mut self) -> Result<(), Rej> {
        let i = self.out.len();
        self.out.push(("object", self.pos, 0));
        self.facts.kinds |= 1;
        self.enter();
        self.pos += 1; // {
        self.ws();
        if self.peek() == Some(b'}') {
            self.pos += 1;
        } else {
            loop {
                let m = self.out.len();
                self.out.push(("pair", self.pos, 0));
                self.facts.kinds |= 64;
                if self.peek() != Some(b'"') {
                    return Err((self.pos, "member name (a string) expected"));
                }
                self.string()?;
                self.ws();
                if self.peek() != Some(b':') {
                    return Err((self.pos, "':' expected after member name"));
                }
                self.pos += 1;
                self.ws();
                self.value()?;
                self.out[m].2 = self.pos;
                self.ws();
                match self.peek() {
                    Some(b',') => {
                        self.pos += 1;
                        self.ws();
                    }
                    Some(b'}') => {
                        self.pos += 1;
                        break;
                    }
                    _ => return Err((self.pos, "',' or '}' expected in object")),
                }
            }
        }
        self.depth -= 1;
        self.out[i].2 = self.pos;
        Ok(())
    }

    /// array = begin-array [ value *( value-separator value ) ] end-array
    fn array(&mut self) -> Result<(), Rej> {
        let i = self.out.len();
        self.out.push(("array", self.pos, 0));
        self.facts.kinds |= 2;
        self.enter();
        self.pos += 1; // [
        self.ws();
        if self.peek() == Some(b']') {
            self.pos += 1;
        } else {
            loop {
                self.value()?;
                self.ws();
                match self.peek() {
                    Some(b',') => {
                        self.pos += 1;
                        self.ws();
                    }
                    Some(b']') => {
                        self.pos += 1;
                        break;
                    }
                    _ => return Err((self.pos, "',' or ']' expected in array")),
                }
            }
        }
        self.depth -= 1;
        self.out[i].2 = self.pos;
        Ok(())
    }

    /// number = [ minus ] int [ frac ] [ exp ];  int = zero / ( digit1-9 *DIGIT )
    /// frac = decimal-point 1*DIGIT;  exp = e [ minus / plus ] 1*DIGIT
    fn number(&mut self) -> Result<(), Rej> {
        let start = self.pos;
        self.facts.kinds |= 8;
        if self.peek() == Some(b'-') {
            self.pos += 1;
        }
        let int_start = self.pos;
        match self.peek() {
            Some(b'0') => self.pos += 1,
            Some(b'1'..=b'9') => {
                while let Some(b'0'..=b'9') = self.peek() {
                    self.pos += 1;
                }
            }
            _ => return Err((self.pos, "digit expected in number")),
        }
        let int_digits = (self.pos - int_start) as i64;
        if self.peek() == Some(b'.') {
            self.pos += 1;
            if !matches!(self.peek(), Some(b'0'..=b'9')) {
                return Err((self.pos, "digit expected after decimal point"));
            }
            while let Some(b'0'..=b'9') = self.peek() {
                self.pos += 1;
            }
        }
        let mut exp: i64 = 0;
        if let Some(b'e' | b'E') = self.peek() {
            self.pos += 1;
            let mut neg = false;
            if let Some(s @ (b'+' | b'-')) = self.peek() {
                neg = s == b'-';
                self.pos += 1;
            }
            if !matches!(self.peek(), Some(b'0'..=b'9')) {
                return Err((self.pos, "digit expected in exponent"));
            }
            while let Some(d @ b'0'..=b'9') = self.peek() {
                exp = (exp * 10 + (d - b'0') as i64).min(1_000_000);
                self.pos += 1;
            }
            if neg {
                exp = -exp;
            }
        }
        if int_digits + exp > 290 {
            self.facts.huge_number = true;
        }
        self.out.push(("number", start, self.pos));
        Ok(())
    }

    /// string = quotation-mark *char quotation-mark
    /// char = unescaped / escape ( " \ / b f n r t / uXXXX );  unescaped = %x20-21 / %x23-5B / %x5D-10FFFF
    fn string(&mut self) -> Result<(), Rej> {
        let start = self.pos;
        self.pos += 1; // opening quotation mark
        let mut pending_high = false;
        loop {
            let Some(c) = self.peek() else { return Err((self.pos, "unterminated string")) };
            let mut this_high = false;
            match c {
                b'"' => {
                    self.pos += 1;
                    break;
                }
                b'\\' => {
                    self.pos += 1;
                    match self.peek() {
                        Some(b'"' | b'\\' | b'/' | b'b' | b'f' | b'n' | b'r' | b't') => self.pos += 1,
                        Some(b'u') => {
                            self.pos += 1;
                            let mut v: u32 = 0;
                            for _ in 0..4 {
                                match self.peek() {
                                    Some(h @ (b'0'..=b'9' | b'a'..=b'f' | b'A'..=b'F')) => {
                                        v = v * 16 + (h as char).to_digit(16).unwrap();
                                        self.pos += 1;
                                    }
                                    _ => return Err((self.pos, "four hexadecimal digits expected after \\u")),
                                }
                            }
                            if (0xD800..0xDC00).contains(&v) {
                                this_high = true;
                            } else if (0xDC00..0xE000).contains(&v) {
                                if pending_high {
                                    pending_high = false; // completes a pair
                                } else {
                                    self.facts.lone_surrogate = true;
                                }
                            }
                        }
                        _ => return Err((self.pos, "invalid escape")),
                    }
                }
                0x00..=0x1F => return Err((self.pos, "unescaped control character in string")),
                // every other byte belongs to an unescaped character (the text is valid UTF-8,
                // so bytes >= 0x80 are parts of scalars in %x80-10FFFF)
                _ => self.pos += 1,
            }
            if pending_high {
                self.facts.lone_surrogate = true; // a high surrogate not followed by a low one
            }
            pending_high = this_high;
        }
        if pending_high {
            self.facts.lone_surrogate = true;
        }
        self.out.push(("string", start, self.pos));
        Ok(())
    }
}

// ------------------------------------------------------------------------------------------------
// Observation
// ------------------------------------------------------------------------------------------------

pub enum Observed {
    Accept(Vec<(String, usize, usize)>),
    Reject(usize, String),
    Panic(String),
}

fn rule_name(cache: &mut Vec<(Rule, String)>, r: Rule) -> String {
    if let Some((_, n)) = cache.iter().find(|(x, _)| *x == r) {
        return n.clone();
    }
    let n = format!("{r:?}");
    cache.push((r, n.clone()));
    n
}

pub fn observe(text: &str, cache: &mut Vec<(Rule, String)>) -> Observed {
    let r = catch_unwind(AssertUnwindSafe(|| match JsonParser::parse(Rule::json, text) {
        Ok(pairs) => Ok(pairs.flatten().map(|p| (p.as_rule(), p.as_span().start(), p.as_span().end())).collect::<Vec<_>>()),
        Err(e) => {
            let pos = match e.location {
                pest::error::InputLocation::Pos(p) => p,
                pest::error::InputLocation::Span((s, _)) => s,
            };
            Err((pos, e.variant.message().to_string()))
        }
    }));
    match r {
        Ok(Ok(v)) => Observed::Accept(v.into_iter().map(|(r, s, e)| (rule_name(cache, r), s, e)).collect()),
        Ok(Err((p, m))) => Observed::Reject(p, m),
        Err(p) => Observed::Panic(panic_message(&p)),
    }
}

fn flat_json<S: AsRef<str>>(v: &[(S, usize, usize)]) -> Value {
    const CAP: usize = 400;
    let mut a: Vec<Value> = v.iter().take(CAP).map(|(r, s, e)| json!([r.as_ref(), s, e])).collect();
    if v.len() > CAP {
        a.push(json!(format!("... {} more", v.len() - CAP)));
    }
    Value::Array(a)
}

// ------------------------------------------------------------------------------------------------
// Workload 1: every short string over a JSON alphabet
// ------------------------------------------------------------------------------------------------

/// 20 symbols: all structural characters, quote and backslash, two digits, both signs, the decimal
/// point, both exponent letters, the letters of `true` (t r u e: also the escapes \t \r \u and the
/// non-escape \e), two of the four whitespace characters.
pub const ALPHABET: [char; 20] = ['{', '}', '[', ']', ',', ':', '"', '\\', '0', '1', '-', '+', '.', 'e', 'E', 't', 'r', 'u', ' ', '\n'];

fn exhaustive_total(max_len: u32) -> u64 {
    (0..=max_len).map(|l| (ALPHABET.len() as u64).pow(l)).sum()
}

/// The `index`-th string in (length, lexicographic) order.
fn exhaustive_text(mut index: u64, buf: &mut String) {
    let k = ALPHABET.len() as u64;
    let mut len = 0u32;
    while index >= k.pow(len) {
        index -= k.pow(len);
        len += 1;
    }
    buf.clear();
    let mut digits = [0usize; 16];
    for i in (0..len as usize).rev() {
        digits[i] = (index % k) as usize;
        index /= k;
    }
    for d in &digits[..len as usize] {
        buf.push(ALPHABET[*d]);
    }
}

// ------------------------------------------------------------------------------------------------
// Workload 2: random valid documents
// ------------------------------------------------------------------------------------------------

struct DocGen<'r> {
    rng: &'r mut Rng,
    out: String,
    nodes_left: i32,
}

impl DocGen<'_> {
    fn ws(&mut self) {
        match self.rng.below(12) {
            0..=6 => {}
            7 => self.out.push(' '),
            8 => self.out.push('\n'),
            9 => self.out.push('\t'),
            10 => self.out.push_str("\r\n"),
            _ => {
                for _ in 0..self.rng.below(4) {
                    let c = *self.rng.pick(&[' ', '\t', '\n', '\r']);
                    self.out.push(c);
                }
            }
        }
    }

    fn value(&mut self, depth_left: usize) {
        self.nodes_left -= 1;
        let nest = if depth_left > 0 && self.nodes_left > 0 { 3 } else { 0 };
        match self.rng.weighted(&[3, 4, nest, nest, 2, 1]) {
            0 => self.string(),
            1 => self.number(),
            2 => self.object(depth_left - 1),
            3 => self.array(depth_left - 1),
            4 => self.out.push_str(if self.rng.chance(1, 2) { "true" } else { "false" }),
            _ => self.out.push_str("null"),
        }
    }

    fn object(&mut self, depth_left: usize) {
        self.out.push('{');
        self.ws();
        let n = self.rng.weighted(&[2, 4, 3, 2, 1]);
        for i in 0..n {
            if i > 0 {
                self.out.push(',');
                self.ws();
            }
            self.string();
            self.ws();
            self.out.push(':');
            self.ws();
            self.value(depth_left);
            self.ws();
        }
        self.out.push('}');
    }

    fn array(&mut self, depth_left: usize) {
        self.out.push('[');
        self.ws();
        let n = self.rng.weighted(&[2, 4, 3, 2, 1, 1]);
        for i in 0..n {
            if i > 0 {
                self.out.push(',');
                self.ws();
            }
            self.value(depth_left);
            self.ws();
        }
        self.out.push(']');
    }

    fn hex4(&mut self, v: u32) {
        let upper = self.rng.chance(1, 2);
        let mixed = self.rng.chance(1, 4);
        for i in (0..4).rev() {
            let d = (v >> (4 * i)) & 0xF;
            let c = std::char::from_digit(d, 16).unwrap();
            let up = if mixed { self.rng.chance(1, 2) } else { upper };
            self.out.push(if up { c.to_ascii_uppercase() } else { c });
        }
    }

    fn string(&mut self) {
        self.out.push('"');
        let n = self.rng.weighted(&[2, 3, 3, 3, 2, 2, 1, 1, 1]);
        for _ in 0..n {
            match self.rng.weighted(&[6, 3, 5, 4, 4, 2]) {
                0 => {
                    // plain ASCII other than quotation mark and reverse solidus
                    let c = loop {
                        let c = (0x20 + self.rng.below(0x5F) as u8) as char;
                        if c != '"' && c != '\\' {
                            break c;
                        }
                    };
                    self.out.push(c);
                }
                1 => {
                    // edges of the unescaped ranges and characters that are structural elsewhere
                    let c = *self.rng.pick(&[' ', '!', '#', '[', ']', '~', '\u{7f}', '{', '}', ',', ':', '\'', '/', '-', '+', '.', 'e', '0']);
                    self.out.push(c);
                }
                2 => {
                    let e = *self.rng.pick(&["\\\"", "\\\\", "\\/", "\\b", "\\f", "\\n", "\\r", "\\t"]);
                    self.out.push_str(e);
                }
                3 => {
                    self.out.push_str("\\u");
                    match self.rng.weighted(&[6, 2, 4, 1]) {
                        0 => {
                            let v = loop {
                                let v = self.rng.below(0x10000) as u32;
                                if !(0xD800..0xE000).contains(&v) {
                                    break v;
                                }
                            };
                            self.hex4(v);
                        }
                        1 => {
                            let v = *self.rng.pick(&[0x0000, 0x001F, 0x0022, 0x005C, 0x00FF, 0xABCD, 0xD7FF, 0xE000, 0xFFFF, 0xabcd]);
                            self.hex4(v);
                        }
                        2 => {
                            let hi = 0xD800 + self.rng.below(0x400) as u32;
                            let lo = 0xDC00 + self.rng.below(0x400) as u32;
                            self.hex4(hi);
                            self.out.push_str("\\u");
                            self.hex4(lo);
                        }
                        _ => {
                            // lone surrogate: grammatical per RFC 8259 section 7
                            let v = 0xD800 + self.rng.below(0x800) as u32;
                            self.hex4(v);
                        }
                    }
                }
                4 => {
                    let c = match self.rng.below(4) {
                        0 => *self.rng.pick(&['\u{80}', '\u{e9}', '\u{7ff}', '\u{a0}', '\u{85}']),
                        1 => *self.rng.pick(&['\u{800}', '\u{20ac}', '\u{2028}', '\u{2029}', '\u{ffff}', '\u{feff}', '\u{d7ff}', '\u{e000}', '\u{fffd}', '\u{3000}']),
                        2 => *self.rng.pick(&['\u{10000}', '\u{1f600}', '\u{10ffff}', '\u{e0001}']),
                        _ => loop {
                            if let Some(c) = char::from_u32(0x80 + self.rng.below(0x10FF80) as u32) {
                                break c;
                            }
                        },
                    };
                    self.out.push(c);
                }
                _ => {
                    let w = *self.rng.pick(&["true", "null", "//", "/*", "\\\\\\\"", "\\\\", "u0041", "NaN"]);
                    self.out.push_str(w);
                }
            }
        }
        self.out.push('"');
    }

    fn digits(&mut self, n: usize) {
        for _ in 0..n {
            self.out.push((b'0' + self.rng.below(10) as u8) as char);
        }
    }

    fn number(&mut self) {
        if self.rng.chance(1, 3) {
            self.out.push('-');
        }
        if self.rng.chance(1, 4) {
            self.out.push('0');
        } else {
            self.out.push((b'1' + self.rng.below(9) as u8) as char);
            let n = match self.rng.below(40) {
                0 => 20 + self.rng.below(25),
                1 => 300 + self.rng.below(40), // beyond f64: the self-check steps aside
                x => x % 6,
            };
            self.digits(n);
        }
        if self.rng.chance(1, 3) {
            self.out.push('.');
            let n = 1 + self.rng.weighted(&[4, 3, 2, 1, 1, 1]);
            if self.rng.chance(1, 6) {
                for _ in 0..n {
                    self.out.push('0');
                }
            } else {
                self.digits(n);
            }
        }
        if self.rng.chance(1, 3) {
            self.out.push(if self.rng.chance(1, 2) { 'e' } else { 'E' });
            match self.rng.below(3) {
                0 => {}
                1 => self.out.push('+'),
                _ => self.out.push('-'),
            }
            match self.rng.below(12) {
                0 => self.out.push_str("0"),
                1 => self.out.push_str("007"),
                2 => self.out.push_str("400"), // beyond f64 when positive
                _ => {
                    let n = 1 + self.rng.below(2);
                    self.digits(n);
                }
            }
        }
    }
}

/// A deep chain: `depth` nested containers around a small value.
fn deep_doc(rng: &mut Rng, depth: usize) -> String {
    let mut open = String::new();
    let mut close: Vec<&str> = vec![];
    for _ in 0..depth {
        match rng.below(4) {
            0 => {
                open.push('[');
                close.push("]");
            }
            1 => {
                open.push_str("[1,");
                close.push("]");
            }
            2 => {
                open.push_str("{\"a\":");
                close.push("}");
            }
            _ => {
                open.push_str("{ \"k\" : 0 , \"\\n\" :");
                close.push(" }");
            }
        }
    }
    let mut g = DocGen { rng, out: open, nodes_left: 3 };
    g.value(0);
    let mut s = g.out;
    for c in close.iter().rev() {
        s.push_str(c);
    }
    s
}

pub fn random_doc(rng: &mut Rng) -> String {
    if rng.chance(1, 50) {
        let depth = match rng.below(4) {
            0 => 90 + rng.below(11),
            1 => 101 + rng.below(100),
            2 => 190 + rng.below(11),
            _ => 10 + rng.below(80),
        };
        return deep_doc(rng, depth);
    }
    let nodes = *rng.pick(&[1, 3, 6, 10, 16, 30]);
    let depth = *rng.pick(&[0, 1, 2, 3, 4, 6, 10]);
    let mut g = DocGen { rng, out: String::new(), nodes_left: nodes };
    g.ws();
    g.value(depth);
    g.ws();
    g.out
}

// ------------------------------------------------------------------------------------------------
// Workload 3: near-miss mutants of valid documents
// ------------------------------------------------------------------------------------------------

pub const MUTATIONS: [&str; 32] = [
    "leading_zero",
    "bare_minus",
    "plus_sign",
    "leading_dot",
    "trailing_dot",
    "frac_without_digits",
    "empty_exponent",
    "foreign_number_syntax",
    "trailing_comma",
    "extra_comma",
    "missing_comma",
    "single_quotes",
    "control_char_in_string",
    "bad_escape",
    "short_unicode_escape",
    "truncated_literal",
    "miscased_literal",
    "duplicate_colon",
    "missing_colon",
    "nan_infinity",
    "byte_order_mark",
    "trailing_garbage",
    "truncate",
    "unterminated_string",
    "unquoted_key",
    "comment",
    "foreign_whitespace",
    "wrong_closer",
    "empty_text",
    "non_string_key",
    "whitespace_inside_token",
    "random_edit",
];

/// Kinds that need a particular site (a number, a member, ...) find one in fewer documents than
/// kinds that apply anywhere; the weights even the observed frequencies out.
const MUTATION_WEIGHTS: [u32; 32] = [
    4, 4, 4, 4, 4, 4, 4, 4, // number sites
    6, 6, 12, 4, 4, 4, 4, 6, // commas, strings, literals
    1, 12, 12, 1, 1, 1, 2, 4, // miscased (anywhere), colons, nan, bom, garbage, truncate, unterminated
    12, 1, 1, 6, 1, 12, 4, 2,
];

fn spans_of<'a>(flat: &'a Flat, rule: &'a str) -> Vec<(usize, usize)> {
    flat.iter().filter(|(r, _, _)| *r == rule).map(|(_, s, e)| (*s, *e)).collect()
}

/// Positions of structural `byte` (outside strings).
fn structural(text: &str, flat: &Flat, byte: u8) -> Vec<usize> {
    let strings = spans_of(flat, "string");
    let mut out = vec![];
    let mut si = 0;
    for (i, b) in text.bytes().enumerate() {
        while si < strings.len() && strings[si].1 <= i {
            si += 1;
        }
        if si < strings.len() && strings[si].0 <= i {
            continue;
        }
        if b == byte {
            out.push(i);
        }
    }
    out
}

fn splice(text: &str, s: usize, e: usize, with: &str) -> String {
    let mut t = String::with_capacity(text.len() + with.len());
    t.push_str(&text[..s]);
    t.push_str(with);
    t.push_str(&text[e..]);
    t
}

fn pick_span(rng: &mut Rng, v: &[(usize, usize)]) -> Option<(usize, usize)> {
    if v.is_empty() {
        None
    } else {
        Some(*rng.pick(v))
    }
}

/// Applies one mutation of `kind` to the valid document `text` (whose expected pairs are `flat`).
/// None = the document offers no site for this kind.
pub fn mutate(rng: &mut Rng, text: &str, flat: &Flat, kind: &str) -> Option<String> {
    let numbers = spans_of(flat, "number");
    let strings = spans_of(flat, "string");
    let containers: Vec<(usize, usize)> = flat.iter().filter(|(r, _, _)| *r == "object" || *r == "array").map(|(_, s, e)| (*s, *e)).collect();
    let values = spans_of(flat, "value");
    let b = text.as_bytes();
    Some(match kind {
        "leading_zero" => {
            let (s, _) = pick_span(rng, &numbers)?;
            let at = if b[s] == b'-' { s + 1 } else { s };
            splice(text, at, at, if rng.chance(1, 4) { "00" } else { "0" })
        }
        "bare_minus" => {
            let (s, e) = pick_span(rng, &numbers)?;
            splice(text, s, e, *rng.pick(&["-", "--1", "-a", "- 1"]))
        }
        "plus_sign" => {
            let (s, _) = pick_span(rng, &numbers)?;
            if b[s] == b'-' {
                splice(text, s, s + 1, *rng.pick(&["+", "+-", "-+"]))
            } else {
                splice(text, s, s, "+")
            }
        }
        "leading_dot" => {
            let (s, e) = pick_span(rng, &numbers)?;
            splice(text, s, e, *rng.pick(&[".5", "-.5", ".0", ".", "-.e1"]))
        }
        "trailing_dot" => {
            let (s, e) = pick_span(rng, &numbers)?;
            splice(text, s, e, *rng.pick(&["1.", "0.", "-12.", "10."]))
        }
        "frac_without_digits" => {
            let (s, e) = pick_span(rng, &numbers)?;
            splice(text, s, e, *rng.pick(&["1.e5", "0.E0", "1.-2", "2.+1", "1..2", "1.2.3"]))
        }
        "empty_exponent" => {
            let (s, e) = pick_span(rng, &numbers)?;
            splice(text, s, e, *rng.pick(&["1e", "1E", "1e+", "1e-", "0E+", "1.5e", "1ee1", "1e1.5", "1e+-1", "e1", "E5", "1e 1"]))
        }
        "foreign_number_syntax" => {
            let (s, e) = pick_span(rng, &numbers)?;
            splice(text, s, e, *rng.pick(&["0x1F", "0b1", "0o7", "1_000", "1f", "1L", "\u{661}", "\u{ff11}", "1\u{ff10}", "0X0", "1d", "1,5e", "\u{2212}1", "1/2", "07", "00", "-00", "-01.5"]))
        }
        "trailing_comma" => {
            let (_, e) = pick_span(rng, &containers)?;
            splice(text, e - 1, e - 1, *rng.pick(&[",", ", ", ",\n"]))
        }
        "extra_comma" => {
            let commas = structural(text, flat, b',');
            if !commas.is_empty() && rng.chance(2, 3) {
                let at = *rng.pick(&commas);
                splice(text, at, at, *rng.pick(&[",", ", "]))
            } else {
                let (s, _) = pick_span(rng, &containers)?;
                splice(text, s + 1, s + 1, ",")
            }
        }
        "missing_comma" => {
            let commas = structural(text, flat, b',');
            if commas.is_empty() {
                return None;
            }
            let at = *rng.pick(&commas);
            splice(text, at, at + 1, *rng.pick(&[" ", "\n", ";", "\t"]))
        }
        "single_quotes" => {
            let (s, e) = pick_span(rng, &strings)?;
            let mut t = text.as_bytes().to_vec();
            t[s] = b'\'';
            t[e - 1] = b'\'';
            String::from_utf8(t).ok()?
        }
        "control_char_in_string" => {
            let (s, e) = pick_span(rng, &strings)?;
            let c = match rng.below(6) {
                0 => '\n',
                1 => '\t',
                2 => '\u{0}',
                3 => '\u{1f}',
                4 => '\r',
                _ => char::from_u32(rng.below(0x20) as u32).unwrap(),
            };
            let at = if rng.chance(1, 2) { s + 1 } else { e - 1 };
            splice(text, at, at, &c.to_string())
        }
        "bad_escape" => {
            let (s, e) = pick_span(rng, &strings)?;
            let esc = *rng.pick(&["\\x41", "\\a", "\\'", "\\0", "\\U0041", "\\ ", "\\v", "\\e", "\\N", "\\B", "\\T", "\\\n", "\\1", "\\\u{e9}", "\\?", "\\x"]);
            let at = if rng.chance(1, 2) { s + 1 } else { e - 1 };
            splice(text, at, at, esc)
        }
        "short_unicode_escape" => {
            let (s, e) = pick_span(rng, &strings)?;
            let esc = *rng.pick(&["\\u", "\\u1", "\\u12", "\\u123", "\\u12G4", "\\u 123", "\\u+123", "\\u{41}", "\\u-123", "\\uD8", "\\u00\u{e9}0", "\\u\u{ff10}041"]);
            let at = if rng.chance(1, 3) { s + 1 } else { e - 1 };
            splice(text, at, at, esc)
        }
        "truncated_literal" => {
            let lits: Vec<(usize, usize)> = flat.iter().filter(|(r, _, _)| *r == "bool" || *r == "null").map(|(_, s, e)| (*s, *e)).collect();
            let (s, e) = pick_span(rng, &lits)?;
            match rng.below(3) {
                0 => splice(text, s, e, &text[s..e - 1]),
                1 => splice(text, s, e, &text[s..s + 1 + rng.below(e - s - 1)]),
                _ => splice(text, e, e, &text[e - 1..e]), // "truee", "nulll"
            }
        }
        "miscased_literal" => {
            let (s, e) = pick_span(rng, &values)?;
            splice(text, s, e, *rng.pick(&["True", "TRUE", "False", "Null", "NULL", "nil", "none", "None", "yes", "tRue", "nul\u{6c}\u{307}"]))
        }
        "duplicate_colon" => {
            let colons = structural(text, flat, b':');
            if colons.is_empty() {
                return None;
            }
            let at = *rng.pick(&colons);
            splice(text, at, at, *rng.pick(&[":", ": "]))
        }
        "missing_colon" => {
            let colons = structural(text, flat, b':');
            if colons.is_empty() {
                return None;
            }
            let at = *rng.pick(&colons);
            splice(text, at, at + 1, *rng.pick(&[" ", "=", "=>", ",", ""]))
        }
        "nan_infinity" => {
            let (s, e) = pick_span(rng, &values)?;
            splice(text, s, e, *rng.pick(&["NaN", "Infinity", "-Infinity", "undefined", "nan", "inf", "-inf", "+Infinity"]))
        }
        "byte_order_mark" => format!("\u{feff}{text}"),
        "trailing_garbage" => {
            let g = *rng.pick(&["x", "]", "}", ",", " 1", "null", "\u{0}", "{}", "\"\"", "\u{a0}", ":", " []", "\n\"a\"", "\\", "0"]);
            // "0" directly after a number could extend it; put a space in front so that it cannot
            if g == "0" {
                format!("{text} 0")
            } else {
                format!("{text}{g}")
            }
        }
        "truncate" => {
            let trimmed = text.trim_end_matches([' ', '\t', '\n', '\r']).len();
            if trimmed < 2 {
                return None;
            }
            let mut at = 1 + rng.below(trimmed - 1);
            while !text.is_char_boundary(at) {
                at -= 1;
            }
            text[..at].to_string()
        }
        "unterminated_string" => {
            let (s, e) = pick_span(rng, &strings)?;
            if rng.chance(1, 2) {
                splice(text, e - 1, e, "")
            } else {
                splice(text, s, s + 1, "")
            }
        }
        "unquoted_key" => {
            let pairs = spans_of(flat, "pair");
            let (ps, _) = pick_span(rng, &pairs)?;
            let (s, e) = *strings.iter().find(|(s, _)| *s == ps)?;
            if e - s > 2 && rng.chance(2, 3) {
                splice(text, s, e, &text[s + 1..e - 1])
            } else {
                splice(text, s, e, "key")
            }
        }
        "comment" => {
            let (s, _) = pick_span(rng, &values)?;
            splice(text, s, s, *rng.pick(&["/**/", "//x\n", "/* c */ ", "#x\n", "<!-- -->"]))
        }
        "foreign_whitespace" => {
            let (s, e) = pick_span(rng, &values)?;
            let w = *rng.pick(&["\u{b}", "\u{c}", "\u{a0}", "\u{2028}", "\u{2029}", "\u{feff}", "\u{85}", "\u{3000}", "\u{0}", "\u{1680}", "\u{200b}", "\u{1f}", "\u{7f}"]);
            let at = if rng.chance(1, 2) { s } else { e };
            splice(text, at, at, w)
        }
        "wrong_closer" => {
            let (_, e) = pick_span(rng, &containers)?;
            let with = if b[e - 1] == b']' { *rng.pick(&["}", ")", ""]) } else { *rng.pick(&["]", ")", ""]) };
            splice(text, e - 1, e, with)
        }
        "empty_text" => (*rng.pick(&["", " ", "\n", " \t\r\n ", "\u{feff}"])).to_string(),
        "non_string_key" => {
            let pairs = spans_of(flat, "pair");
            let (ps, _) = pick_span(rng, &pairs)?;
            let (s, e) = *strings.iter().find(|(s, _)| *s == ps)?;
            splice(text, s, e, *rng.pick(&["1", "null", "true", "[]", "{}", "-0.5"]))
        }
        "whitespace_inside_token" => {
            // split a number, literal or escape by a whitespace character
            let toks: Vec<(usize, usize)> = flat.iter().filter(|(r, s, e)| (*r == "number" || *r == "bool" || *r == "null") && e - s >= 2).map(|(_, s, e)| (*s, *e)).collect();
            let (s, e) = pick_span(rng, &toks)?;
            let at = s + 1 + rng.below(e - s - 1);
            splice(text, at, at, *rng.pick(&[" ", "\n", "\t"]))
        }
        "random_edit" => {
            if text.is_empty() {
                return None;
            }
            let mut at = rng.below(text.len());
            while !text.is_char_boundary(at) {
                at -= 1;
            }
            let c = text[at..].chars().next().unwrap();
            let ins = *rng.pick(&ALPHABET);
            match rng.below(3) {
                0 => splice(text, at, at + c.len_utf8(), ""),
                1 => splice(text, at, at, &ins.to_string()),
                _ => splice(text, at, at + c.len_utf8(), &ins.to_string()),
            }
        }
        _ => return None,
    })
}

// ------------------------------------------------------------------------------------------------
// The check of one text
// ------------------------------------------------------------------------------------------------

pub struct Ctx {
    pub cache: Vec<(Rule, String)>,
    pub known: Vec<KnownEntry>,
    pub max_depth_seen: usize,
    pub max_len_seen: usize,
}

#[derive(Clone, Copy)]
pub struct Origin<'a> {
    /// "exhaustive" | "random_valid" | "mutant" | "replay" | "known_witness"
    pub family: &'a str,
    /// mutation kind for mutants
    pub mutation: Option<&'a str>,
}

const KIND_NAMES: [&str; 7] = ["object", "array", "string", "number", "bool", "null", "member"];

/// Is this mismatch explained by an entry of known_findings.jsonl? Each key names a predicate that
/// must hold of the concrete case; a key this monitor does not know explains nothing.
/// (No deviation of json.pest from RFC 8259 is known at the time of writing, so there is no
/// predicate yet; add one arm per key here.)
fn explained_by<'k>(known: &'k [KnownEntry], _text: &str, _oracle_accepts: bool, _obs: &Observed) -> Option<&'k KnownEntry> {
    for k in known.iter().filter(|k| k.status == "known") {
        #[allow(clippy::match_single_binding)]
        let holds = match k.key.as_str() {
            _ => false,
        };
        if holds {
            return Some(k);
        }
    }
    None
}

/// Returns whether the oracle accepted the text.
pub fn check_text(rep: &mut Report, cx: &mut Ctx, text: &str, origin: Origin<'_>) -> bool {
    rep.count("evaluations");
    rep.count(&format!("texts:{}", origin.family));
    let (oracle, facts) = Rfc::recognize(text);
    let oracle_ok = oracle.is_ok();

    // -- the oracle against serde_json, outside serde_json's documented differences
    let skip = if !oracle_ok {
        None
    } else if facts.max_depth > 100 {
        Some("depth_over_100")
    } else if facts.lone_surrogate {
        Some("lone_surrogate_escape")
    } else if facts.huge_number {
        Some("number_beyond_f64")
    } else {
        None
    };
    match skip {
        Some(why) => rep.count(&format!("self_check_skipped:{why}")),
        None => {
            rep.count("self_check_compared");
            let serde = serde_json::from_str::<Value>(text);
            if serde.is_ok() != oracle_ok {
                rep.count("oracle_self_check_failed");
                rep.inconclusive(json!({
                    "why": "harness error: the RFC 8259 recognizer and serde_json disagree",
                    "text": text, "recognizer_accepts": oracle_ok,
                    "recognizer": oracle.as_ref().err().map(|(p, m)| format!("{m} at byte {p}")),
                    "serde_json": serde.as_ref().err().map(|e| e.to_string()),
                }));
                return oracle_ok;
            }
        }
    }

    // -- the grammar under observation
    if facts.max_depth > 64 {
        rep.journal(|| json!({"text": text}));
    }
    let obs = observe(text, &mut cx.cache);
    let pest_ok = matches!(obs, Observed::Accept(_));
    rep.count(if oracle_ok { "oracle_accepted" } else { "oracle_rejected" });
    match &obs {
        Observed::Accept(_) => rep.count("pest_accepted"),
        Observed::Reject(..) => rep.count("pest_rejected"),
        Observed::Panic(_) => rep.count("pest_panicked"),
    }
    rep.count(&format!(
        "agreement:rfc_{}_pest_{}",
        if oracle_ok { "accepts" } else { "rejects" },
        match &obs {
            Observed::Accept(_) => "accepts",
            Observed::Reject(..) => "rejects",
            Observed::Panic(_) => "panics",
        }
    ));

    // -- coverage
    if let Some(m) = origin.mutation {
        rep.count(&format!("mutation:{m}"));
        rep.count(&format!("{}:{m}", if oracle_ok { "mutant_still_valid" } else { "mutant_rejected" }));
    }
    if oracle_ok {
        for (i, n) in KIND_NAMES.iter().enumerate() {
            if facts.kinds & (1 << i) != 0 {
                rep.count(&format!("texts_with_kind:{n}"));
            }
        }
        let d = facts.max_depth;
        rep.count(match d {
            0 => "depth:0",
            1..=3 => "depth:1-3",
            4..=10 => "depth:4-10",
            11..=50 => "depth:11-50",
            51..=100 => "depth:51-100",
            _ => "depth:101-200",
        });
        cx.max_depth_seen = cx.max_depth_seen.max(d);
        if facts.lone_surrogate {
            rep.count("accepted_with_lone_surrogate_escape");
        }
    }
    cx.max_len_seen = cx.max_len_seen.max(text.len());
    let near_miss = origin.family == "mutant" && !oracle_ok;
    let n_pairs = oracle.as_ref().map(|f| f.len()).unwrap_or(0);
    if text.len() >= 3 && ((oracle_ok && n_pairs >= 3) || near_miss) {
        let depth_bucket = (usize::BITS - facts.max_depth.leading_zeros()) as u8;
        let sig = hash_bytes(&[origin.family.as_bytes(), origin.mutation.unwrap_or("").as_bytes(), &[oracle_ok as u8, facts.kinds, depth_bucket]]);
        rep.nontrivial(hash_bytes(&[text.as_bytes()]), sig);
        rep.count(if oracle_ok { "nontrivial_accepted" } else { "nontrivial_near_miss" });
        let slot = match (origin.family, origin.mutation) {
            ("mutant", Some(m)) if matches!(m, "leading_zero" | "control_char_in_string" | "trailing_comma" | "bad_escape" | "truncated_literal") => Some(format!("near_miss:{m}")),
            ("random_valid", _) if facts.kinds.count_ones() >= 5 && text.len() < 160 => Some("valid_document".to_string()),
            ("exhaustive", _) if facts.kinds & 1 != 0 => Some("exhaustive_accepted".to_string()),
            _ => None,
        };
        if let Some(slot) = slot {
            rep.sample_slot(&slot, || json!({"text": text, "rfc8259_accepts": oracle_ok, "pairs": n_pairs, "depth": facts.max_depth}));
        }
    }

    // -- verdict
    let agree = match (&oracle, &obs) {
        (Ok(exp), Observed::Accept(got)) => exp.len() == got.len() && exp.iter().zip(got.iter()).all(|(a, b)| a.0 == b.0 && a.1 == b.1 && a.2 == b.2),
        (Err(_), Observed::Reject(..)) => true,
        _ => false,
    };
    if agree {
        return oracle_ok;
    }
    let expected = match &oracle {
        Ok(exp) => json!({"accepts": true, "pairs": flat_json(exp)}),
        Err((p, m)) => json!({"accepts": false, "rfc8259": format!("{m} at byte {p}")}),
    };
    let observed = match &obs {
        Observed::Accept(got) => json!({"accepts": true, "pairs": flat_json(got)}),
        Observed::Reject(p, m) => json!({"accepts": false, "error": format!("{m} at byte {p}")}),
        Observed::Panic(m) => json!({"panic": m}),
    };
    let what = if oracle_ok && pest_ok {
        "accepted, but the token tree does not mirror the document"
    } else if oracle_ok {
        "a JSON text per RFC 8259 is not accepted"
    } else if pest_ok {
        "a text that is not JSON per RFC 8259 is accepted"
    } else {
        "the parser panicked"
    };
    let w = json!({
        "property": "C18", "text": text, "what": what,
        "origin": origin.family, "mutation": origin.mutation,
        "expected": expected, "observed": observed,
    });
    match explained_by(&cx.known, text, oracle_ok, &obs) {
        Some(k) => {
            let key = k.key.clone();
            rep.known_finding(&key, w)
        }
        None => rep.violation(w),
    }
    oracle_ok
}

// ------------------------------------------------------------------------------------------------

pub fn run(args: &Args) {
    let mut rep = Report::new(args);
    let mut cx = Ctx { cache: vec![], known: vmon::shard::load_known(&args.known, "C18"), max_depth_seen: 0, max_len_seen: 0 };
    if let Some(path) = &args.replay {
        let v: Value = serde_json::from_str(&std::fs::read_to_string(path).expect("replay file")).expect("json");
        let v = if v.get("witness").is_some() { v["witness"].clone() } else { v };
        let text = v["text"].as_str().expect("replay file needs \"text\"").to_string();
        check_text(&mut rep, &mut cx, &text, Origin { family: "replay", mutation: None });
        rep.finish(args);
        return;
    }
    let mut stopped = false;

    // canonical witnesses of known / fixed entries are re-judged on every run
    if args.shard == 0 {
        let witnesses: Vec<String> = cx.known.iter().filter_map(|k| k.witness["text"].as_str().map(|s| s.to_string())).collect();
        for t in witnesses {
            check_text(&mut rep, &mut cx, &t, Origin { family: "known_witness", mutation: None });
        }
    }

    // (1) exhaustive short strings; index i belongs to shard i % nshards
    let max_len: u32 = if args.thorough { 5 } else { 4 };
    let total = exhaustive_total(max_len);
    rep.notes.insert("exhaustive_alphabet".into(), json!(ALPHABET.iter().collect::<String>()));
    rep.notes.insert("exhaustive_max_len".into(), json!(max_len));
    rep.notes.insert("exhaustive_space".into(), json!(total));
    let mut buf = String::new();
    let mut done_ex = 0u64;
    let mut i = args.shard;
    while i < total {
        if done_ex % 4096 == 0 && rep.elapsed() > args.max_s {
            stopped = true;
            rep.notes.insert("stopped_early_at_exhaustive_index".into(), json!(i));
            break;
        }
        exhaustive_text(i, &mut buf);
        check_text(&mut rep, &mut cx, &buf, Origin { family: "exhaustive", mutation: None });
        done_ex += 1;
        i += args.nshards;
    }

    // (2) + (3) random valid documents, each followed by two one-mutation near-misses
    let budget = args.budget(300_000, 30_000_000);
    let random_budget = budget.saturating_sub(done_ex).max(budget / 10);
    let mut rng = Rng::new(args.seed, "c18", args.shard);
    let mut done = 0u64;
    let mut round = 0u64;
    while done < random_budget && !stopped {
        if round % 256 == 0 && rep.elapsed() > args.max_s {
            stopped = true;
            rep.notes.insert("stopped_early_after_random_texts".into(), json!(done));
            break;
        }
        round += 1;
        let mut drng = rng.fork();
        let doc = random_doc(&mut drng);
        let ok = check_text(&mut rep, &mut cx, &doc, Origin { family: "random_valid", mutation: None });
        done += 1;
        if !ok {
            // the generator emits RFC 8259 documents only
            rep.count("generator_emitted_invalid_document");
            rep.inconclusive(json!({"why": "harness error: the document generator produced a text its own RFC recognizer rejects", "text": doc}));
            continue;
        }
        let (flat, _) = Rfc::recognize(&doc);
        let flat = flat.unwrap();
        for _ in 0..2 {
            let mut mutant = None;
            for _try in 0..8 {
                let kind = MUTATIONS[drng.weighted(&MUTATION_WEIGHTS)];
                if let Some(t) = mutate(&mut drng, &doc, &flat, kind) {
                    mutant = Some((kind, t));
                    break;
                }
            }
            let (kind, t) = mutant.unwrap_or_else(|| ("trailing_garbage", format!("{doc}x")));
            check_text(&mut rep, &mut cx, &t, Origin { family: "mutant", mutation: Some(kind) });
            done += 1;
        }
    }
    rep.notes.insert("max_depth_accepted".into(), json!(cx.max_depth_seen));
    rep.notes.insert("max_text_bytes".into(), json!(cx.max_len_seen));
    // (a maximum cannot be a summed counter: the depth:* bucket counters carry it across shards)
    if stopped {
        rep.inconclusive(json!({"why": "time budget reached before the shard's texts were all checked"}));
    }
    rep.finish(args);
}
