//! The bundled real-world grammars (pest_grammars: JSON, TOML, SQL, HTTP), derive-compiled from the
//! working tree, as an extra workload for three properties:
//!   c15g  error-detail transparency (C15)      c08g  failure reports (C08)      c12g  call-limit sweep (C12)
//! Documents come from derivation walks over the grammar files themselves plus mutants.

use pest::error::{Error, ErrorVariant};
use pest::iterators::Pairs;
use pest::{Parser, RuleType};
use serde_json::{json, Value};
use std::num::NonZeroUsize;
use std::panic::{catch_unwind, AssertUnwindSafe};
use vmon::model::Tok;
use vmon::pestrun::{err_info, toks_of, ErrInfo};
use vmon::rng::{hash_bytes, Rng};
use vmon::shard::{Args, Report};

const LIMIT: usize = 1_000_000;

#[derive(Clone, Debug, PartialEq)]
enum Res {
    Ok(Vec<Tok>),
    Err(ErrInfo),
    Limit,
    Panic(String),
}

fn show(r: &Res) -> Value {
    match r {
        Res::Ok(t) => {
            let s = vmon::model::toks_to_string(t);
            json!({"ok": if s.len() > 500 { format!("{}… ({} tokens)", &s[..s.char_indices().nth(400).map(|x| x.0).unwrap_or(0)], t.len()) } else { s }})
        }
        Res::Err(e) => json!({"err": {"pos": e.pos, "positives": e.positives, "negatives": e.negatives, "custom": e.custom}}),
        Res::Limit => json!("call limit reached"),
        Res::Panic(m) => json!({"panic": m}),
    }
}

struct Extra<R> {
    err: Option<Error<R>>,
    events: Vec<pest::verif::Event>,
    overflow: bool,
    calls: usize,
    refused: usize,
}

fn parse_one<P: Parser<R>, R: RuleType>(start: R, input: &str, limit: usize, detail: bool, record: bool) -> (Res, Extra<R>) {
    pest::set_error_detail(detail);
    pest::set_call_limit(NonZeroUsize::new(limit));
    pest::verif::enable(true);
    pest::verif::set_cap(if record { 600_000 } else { 0 });
    let r = catch_unwind(AssertUnwindSafe(|| P::parse(start, input).map(|p: Pairs<'_, R>| toks_of(p, |r| format!("{r:?}")))));
    let fin = pest::verif::last_final();
    let overflow = record && pest::verif::overflowed();
    let events = if record { pest::verif::take_events() } else { vec![] };
    pest::verif::enable(false);
    pest::set_call_limit(None);
    pest::set_error_detail(false);
    let refused = events.iter().filter(|e| matches!(e, pest::verif::Event::CallRefused { .. })).count();
    let calls = fin.as_ref().map_or(0, |f| f.calls);
    let mut ex = Extra { err: None, events, overflow, calls, refused };
    let res = match r {
        Err(p) => Res::Panic(vmon::pestrun::panic_message(&p)),
        Ok(Ok(t)) => Res::Ok(t),
        Ok(Err(e)) => {
            let i = err_info(&e, |r| format!("{r:?}"));
            let lim = i.custom.as_deref() == Some("call limit reached");
            ex.err = Some(e);
            if lim {
                Res::Limit
            } else {
                Res::Err(i)
            }
        }
    };
    (res, ex)
}

struct Docs {
    docs: Vec<(String, &'static str)>,
}

fn documents(grammar_text: &str, start: &str, rng: &mut Rng, n: usize, max_len: usize) -> Docs {
    let pairs = pest_meta::parser::parse(pest_meta::parser::Rule::grammar_rules, grammar_text).expect("bundled grammar parses");
    let ast = pest_meta::parser::consume_rules(pairs).expect("bundled grammar is valid");
    let mut sampler = vmon::inputs::Sampler::new(&ast);
    let alpha: Vec<char> = {
        let mut a = vmon::gen::alphabet_of(&ast);
        a.extend([' ', '\n', '"', '\'', '1', 'a', 'é', '\t', ',', '(', ')']);
        a
    };
    let mut docs = vec![];
    let mut seen = std::collections::HashSet::new();
    let mut tries = 0;
    while docs.len() < n && tries < n * 6 {
        tries += 1;
        let s = sampler.sample(start, rng);
        if s.len() > max_len {
            continue;
        }
        if seen.insert(s.clone()) {
            docs.push((s.clone(), "walk"));
        }
        for _ in 0..2 {
            let m = vmon::inputs::mutate(&s, &alpha, rng);
            if m.len() <= max_len && seen.insert(m.clone()) {
                docs.push((m, "mutant"));
            }
        }
    }
    Docs { docs }
}

fn sorted_strict<R: Ord>(v: &[R]) -> bool {
    v.windows(2).all(|w| w[0] < w[1])
}

#[allow(clippy::too_many_arguments)]
fn run_grammar<P: Parser<R>, R: RuleType>(rep: &mut Report, args: &Args, mode: &str, gname: &str, file: &str, start: R, start_name: &str, rng: &mut Rng, n: usize) {
    let dir = args.opt("grammars-dir").unwrap_or("/repo/grammars/src/grammars");
    let text = std::fs::read_to_string(format!("{dir}/{file}")).expect("bundled grammar file");
    let types: Types = match pest_meta::parse_and_optimize(&text) {
        Ok((_, rules)) => rules.iter().map(|r| (r.name.clone(), r.ty)).collect(),
        Err(_) => Types::new(),
    };
    let max_len = if mode == "c12g" { 24 } else { 240 };
    let docs = documents(&text, start_name, rng, n, max_len);
    for (doc, kind) in &docs.docs {
        if rep.elapsed() > args.max_s {
            rep.notes.insert("stopped_early".into(), json!(true));
            return;
        }
        rep.journal(|| json!({"grammar": gname, "input": doc, "mode": mode}));
        check_doc::<P, R>(rep, mode, gname, start, doc, kind, Some(&types));
    }
}

type Types = std::collections::HashMap<String, pest_meta::ast::RuleType>;

fn check_doc<P: Parser<R>, R: RuleType>(rep: &mut Report, mode: &str, gname: &str, start: R, doc: &str, kind: &str, types: Option<&Types>) {
    let prop = match mode {
        "c15g" => "C15",
        "c08g" => "C08",
        _ => "C12",
    };
    let witness = |expected: Value, observed: Value| json!({"property": prop, "backend": "derive", "grammar": gname, "input": doc, "document_kind": kind, "mode": mode, "expected": expected, "observed": observed});
    match mode {
        "c15g" => {
            rep.count("evaluations");
            let (off, _) = parse_one::<P, R>(start, doc, LIMIT, false, false);
            if matches!(off, Res::Limit) {
                rep.count("skipped_call_limit");
                return;
            }
            let (on, ex) = parse_one::<P, R>(start, doc, LIMIT, true, false);
            rep.count(&format!("{gname}:{}", if matches!(off, Res::Ok(_)) { "accepted" } else { "rejected" }));
            if off != on {
                rep.violation(witness(show(&off), show(&on)));
                return;
            }
            if let Some(e) = &ex.err {
                let mut problems = vec![];
                if let Some(a) = e.parse_attempts() {
                    rep.count("errors_with_attempt_info");
                    rep.add("call_stacks_recorded", a.call_stacks().len() as u64);
                    if a.max_position > doc.len() || !doc.is_char_boundary(a.max_position) {
                        problems.push(format!("max_position {} is not a char boundary within the input", a.max_position));
                    }
                    let rtm: pest::error::RuleToMessageFn<R> = Box::new(|r: &R| if format!("{r:?}").len() % 2 == 0 { Some(format!("about {r:?}")) } else { None });
                    let ws: pest::error::IsWhitespaceFn = Box::new(|s: String| s.trim().is_empty());
                    match catch_unwind(AssertUnwindSafe(|| e.parse_attempts_error(doc, &rtm, &ws).map(|x| format!("{x}")))) {
                        Ok(Some(s)) if !s.is_empty() => {}
                        Ok(_) => problems.push("no renderable help message although attempts were recorded".into()),
                        Err(p) => problems.push(format!("parse_attempts_error / Display panicked: {}", vmon::pestrun::panic_message(&p))),
                    }
                    if doc.len() >= 2 {
                        rep.nontrivial(hash_bytes(&[gname.as_bytes(), doc.as_bytes()]), hash_bytes(&[gname.as_bytes(), b"err", &[a.call_stacks().len().min(60) as u8 / 10]]));
                    }
                }
                if !problems.is_empty() {
                    rep.violation(witness(json!("attempt position on a char boundary inside the input; help message renders"), json!(problems)));
                }
            } else if doc.len() >= 2 {
                rep.nontrivial(hash_bytes(&[gname.as_bytes(), doc.as_bytes()]), hash_bytes(&[gname.as_bytes(), b"ok"]));
            }
            rep.sample_slot(&format!("{gname}:{}", if matches!(off, Res::Ok(_)) { "ok" } else { "err" }), || json!({"grammar": gname, "input": doc, "result": show(&off)}));
        }
        "c08g" => {
            rep.count("evaluations");
            let (res, ex) = parse_one::<P, R>(start, doc, LIMIT, false, true);
            let Res::Err(info) = &res else {
                rep.count("not_a_failing_parse");
                return;
            };
            if ex.overflow || info.custom.is_some() {
                rep.count("skipped_event_cap_or_custom_error");
                return;
            }
            rep.count("failing_parses_checked");
            rep.add("events_recorded", ex.events.len() as u64);
            let acts = match vmon::errcheck::activations(&ex.events) {
                Ok(a) => a,
                Err(m) => {
                    rep.inconclusive(json!({"why": m}));
                    return;
                }
            };
            let sorted = match ex.err.as_ref().map(|e| &e.variant) {
                Some(ErrorVariant::ParsingError { positives, negatives }) => sorted_strict(positives) && sorted_strict(negatives),
                _ => true,
            };
            let mut problems = vmon::errcheck::check(&acts, info, |_| true);
            if let Some(t) = types {
                if !t.is_empty() {
                    problems.extend(vmon::errcheck::check_atomicity(&ex.events, t));
                }
            }
            if !sorted {
                problems.push("clause 3: a list is not strictly sorted".into());
            }
            if !doc.is_char_boundary(info.pos.min(doc.len())) || info.pos > doc.len() {
                problems.push(format!("reported position {} is not a char boundary of the input", info.pos));
            }
            if !problems.is_empty() {
                rep.violation(witness(json!(problems), json!({"pos": info.pos, "positives": info.positives, "negatives": info.negatives})));
                return;
            }
            let q = acts.iter().filter(|a| a.qualifies().is_some()).count();
            if q >= 2 {
                rep.nontrivial(hash_bytes(&[gname.as_bytes(), doc.as_bytes()]), hash_bytes(&[gname.as_bytes(), &[info.positives.len().min(6) as u8, info.negatives.len().min(3) as u8, (info.pos > 0) as u8]]));
                if info.pos > 0 {
                    rep.count("reports_past_position_0");
                }
                if !info.negatives.is_empty() {
                    rep.count("reports_with_unexpected_rules");
                }
                rep.sample_slot(&format!("{gname}:p{}", info.positives.len().min(2)), || json!({"backend":"derive","grammar": gname, "input": doc, "reported": {"pos": info.pos, "positives": info.positives, "negatives": info.negatives}}));
            }
        }
        _ => {
            // c12g: every limit 1..N+3
            let (r_inf, ex) = parse_one::<P, R>(start, doc, usize::MAX / 2, false, false);
            let n = ex.calls;
            if matches!(r_inf, Res::Panic(_)) || n > 600 {
                rep.count("skipped_too_many_calls_or_panic");
                return;
            }
            rep.count("cases");
            let mut reached = false;
            let mut tripped = 0;
            for l in 1..=n + 3 {
                rep.count("evaluations");
                let (r_l, ex_l) = parse_one::<P, R>(start, doc, l, false, true);
                if ex_l.refused > 0 {
                    tripped += 1;
                }
                let bad = if matches!(r_l, Res::Limit) {
                    reached
                } else if r_l == r_inf {
                    reached = true;
                    false
                } else {
                    true
                };
                if bad {
                    let mut w = witness(show(&r_inf), show(&r_l));
                    w["limit"] = json!(l);
                    w["calls_needed"] = json!(n);
                    rep.violation(w);
                    break;
                }
            }
            if n >= 8 && tripped > 0 {
                rep.nontrivial(hash_bytes(&[gname.as_bytes(), doc.as_bytes()]), hash_bytes(&[gname.as_bytes(), &[(n / 32) as u8]]));
                rep.sample_slot(gname, || json!({"grammar": gname, "input": doc, "calls_needed": n, "unlimited_result": show(&r_inf)}));
            }
        }
    }
}

pub fn run(args: &Args) {
    let mut rep = Report::new(args);
    let mode = args.prop.clone();
    if let Some(path) = &args.replay {
        let v: Value = serde_json::from_str(&std::fs::read_to_string(path).expect("replay file")).expect("json");
        let w = if v["witness"].is_object() { v["witness"].clone() } else { v.clone() };
        let doc = w["input"].as_str().unwrap_or("");
        match w["grammar"].as_str().unwrap_or("") {
            "json" => check_doc::<pest_grammars::json::JsonParser, _>(&mut rep, &mode, "json", pest_grammars::json::Rule::json, doc, "replay", None),
            "toml" => check_doc::<pest_grammars::toml::TomlParser, _>(&mut rep, &mode, "toml", pest_grammars::toml::Rule::toml, doc, "replay", None),
            "sql" => check_doc::<pest_grammars::sql::SqlParser, _>(&mut rep, &mode, "sql", pest_grammars::sql::Rule::Command, doc, "replay", None),
            _ => check_doc::<pest_grammars::http::HttpParser, _>(&mut rep, &mode, "http", pest_grammars::http::Rule::http, doc, "replay", None),
        }
        rep.finish(args);
        return;
    }
    let mut rng = Rng::new(args.seed, &mode, args.shard);
    let n = match mode.as_str() {
        "c12g" => args.budget(6_000, 300_000),
        _ => args.budget(60_000, 3_000_000),
    } as usize;
    let per = (n / 4).max(1);
    run_grammar::<pest_grammars::json::JsonParser, _>(&mut rep, args, &mode, "json", "json.pest", pest_grammars::json::Rule::json, "json", &mut rng, per);
    if mode != "c12g" {
        run_grammar::<pest_grammars::sql::SqlParser, _>(&mut rep, args, &mode, "sql", "sql.pest", pest_grammars::sql::Rule::Command, "Command", &mut rng, per * 2);
        run_grammar::<pest_grammars::toml::TomlParser, _>(&mut rep, args, &mode, "toml", "toml.pest", pest_grammars::toml::Rule::toml, "toml", &mut rng, per / 2);
        run_grammar::<pest_grammars::http::HttpParser, _>(&mut rep, args, &mode, "http", "http.pest", pest_grammars::http::Rule::http, "http", &mut rng, per / 2);
    } else {
        run_grammar::<pest_grammars::toml::TomlParser, _>(&mut rep, args, &mode, "toml", "toml.pest", pest_grammars::toml::Rule::toml, "toml", &mut rng, per);
    }
    rep.finish(args);
}
