//! C03: the ORACLE. A naive, purely functional reading of the documented contracts of
//! `pest::ParserState` (doc comments in pest/src/parser_state.rs and pest/src/position.rs).
//! States are values; nothing is ever "restored", a combinator that promises restoration simply
//! returns (parts of) the copy it was called with.
//!
//! Decisions where the documentation is silent or narrow (the model promises no more than it):
//! * `optional`, `repeat`, `rule`, `atomic`, `stack_push` and plain `and_then`/`or_else` chains
//!   promise NO restoration: whatever their body left (position, tokens, stack) stays, also when
//!   the body failed ("Returns Ok with the updated state returned by f regardless of the Result").
//! * `restore_on_err`: "Currently, this method only restores the stack" - so only the stack.
//! * `sequence`: "Restore the initial position and truncate the token queue" + stack checkpoint.
//! * `lookahead`: position and stack are restored whatever the result; the queue cannot change
//!   inside (no rule emits and `tag_node` is a no-op while the lookahead flag is set).
//! * `rule` in the emitting mode (lookahead None, atomicity not Atomic): Ok => exactly
//!   Start(entry pos) .. body's tokens .. End(exit pos, rule, no tag); Err => the queue is cut
//!   back to its length at entry (its own Start must go, and with it everything after it; `rule`
//!   promises no restoration of anything else, so a tag the failed body put on an EARLIER token
//!   stays - an earlier version of this model demanded the entry queue back and was wrong to:
//!   nothing documents that). In the NON-emitting
//!   modes the rule adds nothing and removes nothing: there the documentation promises nothing
//!   about tokens a failed body left behind (only reachable through
//!   `atomic(Atomic, rule(.., atomic(NonAtomic, rule(..)) .. fail))` without a `sequence`), so the
//!   model keeps what the body left.
//! * `stack_pop`: "Pops the top of the stack and attempts to match" - the element is gone even
//!   when the match fails. `stack_match_pop`: "will clear the stack as it evaluates" - read as:
//!   elements are removed one by one as they are compared, comparison stops at the first
//!   mismatch (the mismatching element is gone, the ones below stay); the position moves only
//!   when everything matched.
//! * `stack_peek`/`stack_pop` on an empty stack: documented panic, a compared outcome.
//! * `tag_node`: tags the most recent token if that is an End and no lookahead is active.

use crate::c03_prog::*;

pub const MODEL_BUDGET: usize = 20_000;

/// One trace entry: the state a node was called with (`after == false`) or returned
/// (`after == true`, with its result).
#[derive(Clone, Debug)]
pub struct Ev {
    pub node: usize,
    pub after: bool,
    pub ok: bool,
    pub st: St,
}

#[derive(Clone, Debug, PartialEq)]
pub enum Stop {
    /// documented panic raised inside node `node`
    Panic { node: usize, msg: &'static str },
    /// the model's step budget ran out (only possible for hand-written replay programs)
    Budget,
}

#[derive(Clone, Debug)]
pub enum Final {
    Done { ok: bool, st: St },
    Stopped(Stop),
}

/// What the run exercised (for the evidence).
#[derive(Clone, Debug, Default)]
pub struct Stats {
    pub exec: [u32; 29],
    pub ok: [u32; 29],
    pub err: [u32; 29],
    /// failed `sequence` whose body had changed position, queue or stack
    pub seq_backtracks: u32,
    /// failed `restore_on_err` whose body had changed the stack
    pub roe_restores: u32,
    /// lookahead whose body had moved or changed the stack
    pub look_restores: u32,
    /// failed emitting `rule` whose body had queued tokens
    pub rule_truncations: u32,
    pub look_nesting_max: u32,
    pub skip_until_arity: [u32; 5],
    pub insens_boundary_probe: u32,
    pub prim_fail: u32,
    pub pairs_emitted: u32,
    pub pairs_suppressed: u32,
}

pub struct Model<'a> {
    pub input: &'a str,
    pub trace: Vec<Ev>,
    pub steps: usize,
    pub stats: Stats,
    look_depth: u32,
}

pub fn run_model(op: &Op, input: &str) -> (Vec<Ev>, Final, Stats) {
    let mut m = Model { input, trace: vec![], steps: 0, stats: Stats::default(), look_depth: 0 };
    let fin = match m.eval(op, &St::initial()) {
        Ok((ok, st)) => Final::Done { ok, st },
        Err(s) => Final::Stopped(s),
    };
    (m.trace, fin, m.stats)
}

fn same_obs(a: &St, b: &St) -> bool {
    a.pos == b.pos && a.toks == b.toks && a.stack == b.stack
}

impl<'a> Model<'a> {
    fn eval(&mut self, op: &Op, st: &St) -> Result<(bool, St), Stop> {
        self.steps += 1;
        if self.steps > MODEL_BUDGET {
            return Err(Stop::Budget);
        }
        self.trace.push(Ev { node: op.id, after: false, ok: false, st: st.clone() });
        let k = op.kind();
        self.stats.exec[k] += 1;
        let (ok, out) = self.eval_inner(op, st)?;
        if ok {
            self.stats.ok[k] += 1;
        } else {
            self.stats.err[k] += 1;
            if op.is_primitive() {
                self.stats.prim_fail += 1;
            }
        }
        self.trace.push(Ev { node: op.id, after: true, ok, st: out.clone() });
        Ok((ok, out))
    }

    /// `a(s).and_then(b).and_then(c)`: stops at the first failure, keeps that state.
    fn chain(&mut self, v: &[Op], st: &St) -> Result<(bool, St), Stop> {
        let mut cur = st.clone();
        for c in v {
            let (ok, s) = self.eval(c, &cur)?;
            cur = s;
            if !ok {
                return Ok((false, cur));
            }
        }
        Ok((true, cur))
    }

    fn eval_inner(&mut self, op: &Op, st: &St) -> Result<(bool, St), Stop> {
        let input = self.input;
        Ok(match &op.k {
            K::Seq(v) => {
                let (ok, s) = self.chain(v, st)?;
                if ok {
                    (true, s)
                } else {
                    if !same_obs(&s, st) {
                        self.stats.seq_backtracks += 1;
                    }
                    (false, st.clone())
                }
            }
            K::AndThen(v) => self.chain(v, st)?,
            K::OrElse(v) => {
                let mut cur = st.clone();
                let mut res = false;
                for c in v {
                    let (ok, s) = self.eval(c, &cur)?;
                    cur = s;
                    if ok {
                        res = true;
                        break;
                    }
                }
                (res, cur)
            }
            K::Opt(b) => {
                let (_, s) = self.eval(b, st)?;
                (true, s)
            }
            K::Rep(b) => {
                let mut cur = st.clone();
                loop {
                    let (ok, s) = self.eval(b, &cur)?;
                    cur = s;
                    if !ok {
                        break;
                    }
                }
                (true, cur)
            }
            K::Look(positive, b) => {
                let mut inner = st.clone();
                inner.look = if *positive {
                    if st.look == L_NEG {
                        L_NEG
                    } else {
                        L_POS
                    }
                } else if st.look == L_NEG {
                    L_POS
                } else {
                    L_NEG
                };
                self.look_depth += 1;
                self.stats.look_nesting_max = self.stats.look_nesting_max.max(self.look_depth);
                let r = self.eval(b, &inner);
                self.look_depth -= 1;
                let (ok, s) = r?;
                if s.pos != st.pos || s.stack != st.stack {
                    self.stats.look_restores += 1;
                }
                (ok == *positive, st.clone())
            }
            K::Atomic(a, b) => {
                let mut inner = st.clone();
                inner.atom = *a as u8;
                let (ok, mut s) = self.eval(b, &inner)?;
                s.atom = st.atom;
                (ok, s)
            }
            K::Rule(r, b) => {
                let emits = st.look == L_NONE && st.atom != A_ATOMIC;
                let mut inner = st.clone();
                if emits {
                    inner.toks.push(Tok { start: true, pos: st.pos, rule: None, tag: None });
                }
                let (ok, mut s) = self.eval(b, &inner)?;
                if emits {
                    if ok {
                        s.toks.push(Tok { start: false, pos: s.pos, rule: Some(*r), tag: None });
                        self.stats.pairs_emitted += 1;
                    } else {
                        if s.toks.len() > inner.toks.len() {
                            self.stats.rule_truncations += 1;
                        }
                        // its own Start goes, and with it everything queued after it; tokens
                        // that were there before keep whatever the body did to them (tag_node)
                        s.toks.truncate(st.toks.len());
                    }
                } else if ok {
                    self.stats.pairs_suppressed += 1;
                }
                (ok, s)
            }
            K::Push(b) => {
                let (ok, mut s) = self.eval(b, st)?;
                if ok {
                    s.stack.push(input[st.pos..s.pos].to_string());
                }
                (ok, s)
            }
            K::RestoreOnErr(b) => {
                let (ok, mut s) = self.eval(b, st)?;
                if !ok {
                    if s.stack != st.stack {
                        self.stats.roe_restores += 1;
                    }
                    s.stack = st.stack.clone();
                }
                (ok, s)
            }
            K::MatchString(x) => match m_string(input, st.pos, x) {
                Some(p) => (true, at(st, p)),
                None => (false, st.clone()),
            },
            K::MatchInsens(x) => {
                if !input.is_char_boundary((st.pos + x.len()).min(input.len())) {
                    self.stats.insens_boundary_probe += 1;
                }
                match m_insens(input, st.pos, x) {
                    Some(p) => (true, at(st, p)),
                    None => (false, st.clone()),
                }
            }
            K::MatchRange(lo, hi) => match input[st.pos..].chars().next() {
                Some(c) if *lo <= c && c <= *hi => (true, at(st, st.pos + c.len_utf8())),
                _ => (false, st.clone()),
            },
            K::MatchCharBy(kind) => match input[st.pos..].chars().next() {
                Some(c) if pred(*kind, c) => (true, at(st, st.pos + c.len_utf8())),
                _ => (false, st.clone()),
            },
            K::Skip(n) => {
                let mut p = st.pos;
                let mut it = input[st.pos..].chars();
                let mut all = true;
                for _ in 0..*n {
                    match it.next() {
                        Some(c) => p += c.len_utf8(),
                        None => {
                            all = false;
                            break;
                        }
                    }
                }
                if all {
                    (true, at(st, p))
                } else {
                    (false, st.clone())
                }
            }
            K::SkipUntil(needles) => {
                self.stats.skip_until_arity[needles.len().min(4)] += 1;
                // first char boundary at or after the position where some needle starts, else the end
                let mut target = input.len();
                for (off, _) in input[st.pos..].char_indices() {
                    let p = st.pos + off;
                    if needles.iter().any(|n| input.as_bytes()[p..].starts_with(n.as_bytes())) {
                        target = p;
                        break;
                    }
                }
                (true, at(st, target))
            }
            K::StartOfInput => (st.pos == 0, st.clone()),
            K::EndOfInput => (st.pos == input.len(), st.clone()),
            K::StackPeek => match st.stack.last() {
                None => return Err(Stop::Panic { node: op.id, msg: "peek was called on empty stack" }),
                Some(top) => match m_string(input, st.pos, top) {
                    Some(p) => (true, at(st, p)),
                    None => (false, st.clone()),
                },
            },
            K::StackPop => {
                let mut s = st.clone();
                match s.stack.pop() {
                    None => return Err(Stop::Panic { node: op.id, msg: "pop was called on empty stack" }),
                    Some(top) => match m_string(input, st.pos, &top) {
                        Some(p) => {
                            s.pos = p;
                            (true, s)
                        }
                        None => (false, s),
                    },
                }
            }
            K::StackDrop => {
                let mut s = st.clone();
                let ok = s.stack.pop().is_some();
                (ok, s)
            }
            K::StackMatchPeek => peek_slice(input, st, 0, None, true),
            K::StackMatchPeekSlice(a, b, ttb) => peek_slice(input, st, *a, *b, *ttb),
            K::StackMatchPop => {
                let mut s = st.clone();
                let mut p = st.pos;
                let mut ok = true;
                while let Some(top) = s.stack.pop() {
                    match m_string(input, p, &top) {
                        Some(np) => p = np,
                        None => {
                            ok = false;
                            break;
                        }
                    }
                }
                if ok {
                    s.pos = p;
                }
                (ok, s)
            }
            K::StackPushLiteral(x) => {
                let mut s = st.clone();
                s.stack.push(x.clone());
                (true, s)
            }
            K::TagNode(t) => {
                let mut s = st.clone();
                if s.look == L_NONE {
                    if let Some(last) = s.toks.last_mut() {
                        if !last.start {
                            last.tag = Some(*t);
                        }
                    }
                }
                (true, s)
            }
            K::Pass => (true, st.clone()),
            K::Fail => (false, st.clone()),
        })
    }
}

fn at(st: &St, pos: usize) -> St {
    let mut s = st.clone();
    s.pos = pos;
    s
}

/// Bytewise equality of `x` with the input at `pos`.
fn m_string(input: &str, pos: usize, x: &str) -> Option<usize> {
    if input.as_bytes()[pos..].starts_with(x.as_bytes()) {
        Some(pos + x.len())
    } else {
        None
    }
}

/// ASCII-case-insensitive, char by char: every char of `x` must face a char of the input that
/// is equal, or equal after ASCII lower-casing. Ends on a char boundary by construction.
fn m_insens(input: &str, pos: usize, x: &str) -> Option<usize> {
    let mut it = input[pos..].chars();
    let mut p = pos;
    for c in x.chars() {
        let d = it.next()?;
        let same = c == d || (c.is_ascii() && d.is_ascii() && c.to_ascii_lowercase() == d.to_ascii_lowercase());
        if !same {
            return None;
        }
        p += d.len_utf8();
    }
    Some(p)
}

/// `PEEK[a..b]`: indices are normalised against the stack length (negative counts from the
/// top); an index beyond the length on either side means "no match"; an empty or inverted range
/// matches trivially; otherwise the selected elements are matched one after the other in the
/// given direction and the position moves only if all of them matched.
fn peek_slice(input: &str, st: &St, start: i32, end: Option<i32>, top_to_bottom: bool) -> (bool, St) {
    let len = st.stack.len() as i64;
    let norm = |i: i64| -> Option<usize> {
        if i >= 0 {
            if i <= len {
                Some(i as usize)
            } else {
                None
            }
        } else if -i <= len {
            Some((len + i) as usize)
        } else {
            None
        }
    };
    let a = match norm(start as i64) {
        Some(a) => a,
        None => return (false, st.clone()),
    };
    let b = match end {
        None => st.stack.len(),
        Some(e) => match norm(e as i64) {
            Some(b) => b,
            None => return (false, st.clone()),
        },
    };
    if b <= a {
        return (true, st.clone());
    }
    let mut elems: Vec<&String> = st.stack[a..b].iter().collect();
    if top_to_bottom {
        elems.reverse();
    }
    let mut p = st.pos;
    for e in elems {
        match m_string(input, p, e) {
            Some(np) => p = np,
            None => return (false, st.clone()),
        }
    }
    (true, at(st, p))
}
