//! mon_state: the C03 monitor (parser-state combinators). Depends on `pest` only, so it can be
//! built with and without pest's `memchr` feature; the shard/report plumbing of `vmon` is
//! included textually (it needs nothing but std and serde_json).
//!
//!   mon_state c03 --shard I --nshards N --seed S --tier quick|thorough --out F --journal J
//!                 --known K --max-s T --scale X [--replay FILE]

#[allow(dead_code)]
#[path = "../../vmon/src/rng.rs"]
mod rng;
#[allow(dead_code)]
#[path = "../../vmon/src/shard.rs"]
mod shard;

mod c03;
mod c03_gen;
mod c03_model;
mod c03_prog;
mod c03_real;

fn main() {
    let argv: Vec<String> = std::env::args().collect();
    let args = shard::Args::parse(&argv);
    // Panics of the code under observation are observations; keep stderr quiet.
    std::panic::set_hook(Box::new(|_| {}));
    let work = move || match args.prop.as_str() {
        "c03" => c03::run(&args),
        other => {
            eprintln!("unknown sub-command {other:?} (expected c03)");
            std::process::exit(3);
        }
    };
    // Recursive descent depth is program dependent (bounded here: trees of depth <= 6), the
    // 1 GiB stack is the harness-wide convention. Miri gets an ordinary thread.
    let mut b = std::thread::Builder::new();
    if !cfg!(miri) {
        b = b.stack_size(1 << 30);
    }
    if b.spawn(work).expect("spawn worker").join().is_err() {
        eprintln!("mon_state: worker thread panicked (harness error)");
        std::process::exit(4);
    }
}
