//! C03: the INTERPRETER. Runs a program on the real `pest::ParserState` through
//! `pest::state`, snapshots the complete state (hook H1b) before and after every node, checks
//! the statement's direct assertions on the real snapshots alone, compares every snapshot with
//! the model's trace entry (online: the first difference ends the run by unwinding, so a real
//! run can never execute more nodes than the model did), and asks hook H1d after every node.

use crate::c03_model::{Ev, Final, Stop};
use crate::c03_prog::*;
use pest::verif::Snapshot;
use pest::{MatchDir, ParseResult, ParserState};
use serde_json::{json, Value};
use std::cell::RefCell;
use std::num::NonZeroUsize;
use std::panic::{catch_unwind, resume_unwind, AssertUnwindSafe};

/// Backstop only (see module doc): far above what any admitted program can need.
pub const CALL_LIMIT: usize = 200_000;

type PS<'i> = Box<ParserState<'i, R>>;

/// Payload used to leave `pest::state` after the verdict on this run is already known.
struct Abort;

#[derive(Debug)]
pub struct Mismatch {
    pub check: &'static str,
    pub node: usize,
    pub phase: &'static str,
    pub event: usize,
    pub expected: Value,
    pub observed: Value,
    pub detail: String,
}

#[derive(Debug, Default)]
pub struct RealOut {
    pub mismatch: Option<Mismatch>,
    pub limit_hit: bool,
    /// hash over every real snapshot (node, phase, result, pos, queue, stack, lookahead, atomicity)
    pub digest: u64,
    pub events: usize,
    pub max_stack_snapshots: usize,
    pub max_stack_len: usize,
    pub max_queue_len: usize,
    pub final_ok: Option<bool>,
    pub panicked_as_expected: bool,
}

struct Inner {
    idx: usize,
    digest: u64,
    mismatch: Option<Mismatch>,
    limit_hit: bool,
    max_stack_snapshots: usize,
    max_stack_len: usize,
    max_queue_len: usize,
    last_node: usize,
}

struct Cx<'a> {
    input: &'a str,
    m: &'a [Ev],
    inner: RefCell<Inner>,
}

fn fnv(h: &mut u64, bytes: &[u8]) {
    for b in bytes {
        *h ^= *b as u64;
        *h = h.wrapping_mul(0x100000001b3);
    }
    *h ^= 0xff;
    *h = h.wrapping_mul(0x100000001b3);
}

fn snap_json(s: &Snapshot, result: Option<bool>) -> Value {
    let toks: Vec<String> = s
        .queue
        .iter()
        .map(|(start, pos, rule, tag, peer)| {
            if *start {
                format!("Start@{pos} peer={}", if *peer == 0 { "open".to_string() } else { peer.to_string() })
            } else {
                let tag = tag.as_ref().map_or(String::new(), |t| format!(" #{t}"));
                format!("End@{pos} {}{tag} peer={peer}", rule.as_deref().unwrap_or("?"))
            }
        })
        .collect();
    let mut v = json!({"pos": s.pos, "tokens": toks, "stack": s.stack, "lookahead": look_name(s.lookahead),
        "atomicity": atom_name(s.atomicity), "open_stack_snapshots": s.stack_snapshots});
    if let Some(r) = result {
        v["result"] = json!(if r { "Ok" } else { "Err" });
    }
    v
}

fn model_json(e: &Ev) -> Value {
    let mut v = e.st.to_json();
    if e.after {
        v["result"] = json!(if e.ok { "Ok" } else { "Err" });
    }
    v
}

/// Compares a real snapshot with a model state; None = equal.
fn diff(s: &Snapshot, st: &St) -> Option<String> {
    if s.pos != st.pos {
        return Some(format!("position {} != {}", s.pos, st.pos));
    }
    if s.lookahead != st.look {
        return Some(format!("lookahead {} != {}", look_name(s.lookahead), look_name(st.look)));
    }
    if s.atomicity != st.atom {
        return Some(format!("atomicity {} != {}", atom_name(s.atomicity), atom_name(st.atom)));
    }
    if s.stack != st.stack {
        return Some(format!("stack {:?} != {:?}", s.stack, st.stack));
    }
    if s.queue.len() != st.toks.len() {
        return Some(format!("queue length {} != {}", s.queue.len(), st.toks.len()));
    }
    let peers = peers(&st.toks);
    for (i, (t, q)) in st.toks.iter().zip(s.queue.iter()).enumerate() {
        let (start, pos, rule, tag, peer) = q;
        if *start != t.start || *pos != t.pos {
            return Some(format!("token {i}: kind/pos differ"));
        }
        if rule.as_deref() != t.rule.map(rule_name) {
            return Some(format!("token {i}: rule {:?} != {:?}", rule, t.rule));
        }
        if tag.as_deref() != t.tag.map(|x| TAGS[x as usize % TAGS.len()]) {
            return Some(format!("token {i}: tag {:?} != {:?}", tag, t.tag));
        }
        match peers[i] {
            Some(p) if p != *peer => return Some(format!("token {i}: peer index {peer} != {p}")),
            // a Start whose rule is still running: pest keeps the placeholder 0; not compared
            _ => {}
        }
    }
    None
}

impl<'a> Cx<'a> {
    fn fail(&self, mm: Mismatch) -> ! {
        {
            let mut inn = self.inner.borrow_mut();
            if inn.mismatch.is_none() {
                inn.mismatch = Some(mm);
            }
        }
        resume_unwind(Box::new(Abort))
    }

    fn mm(&self, check: &'static str, op: &Op, phase: &'static str, expected: Value, observed: Value, detail: String) -> ! {
        let event = self.inner.borrow().idx;
        self.fail(Mismatch { check, node: op.id, phase, event, expected, observed, detail })
    }

    /// Checks that hold for every snapshot, whatever the model says.
    fn common(&self, op: &Op, phase: &'static str, s: &PS<'_>, snap: &Snapshot) {
        if snap.calls >= CALL_LIMIT {
            self.inner.borrow_mut().limit_hit = true;
            resume_unwind(Box::new(Abort));
        }
        let input = self.input;
        if !input.is_char_boundary(snap.pos) {
            self.mm("char_boundary", op, phase, json!("position on a UTF-8 boundary of the input"), snap_json(snap, None), format!("position {}", snap.pos));
        }
        for (i, q) in snap.queue.iter().enumerate() {
            if !input.is_char_boundary(q.1) {
                self.mm("char_boundary", op, phase, json!("token positions on UTF-8 boundaries"), snap_json(snap, None), format!("token {i} at {}", q.1));
            }
            // peer indices: an End points to its Start and that Start points back
            if !q.0 {
                let ok = q.4 < i && matches!(snap.queue.get(q.4), Some(p) if p.0 && p.4 == i);
                if !ok {
                    self.mm("peer_index", op, phase, json!("End.start_token_index and Start.end_token_index point at each other"), snap_json(snap, None), format!("End token {i}"));
                }
            } else if q.4 != 0 {
                let ok = q.4 > i && matches!(snap.queue.get(q.4), Some(p) if !p.0 && p.4 == i);
                if !ok {
                    self.mm("peer_index", op, phase, json!("End.start_token_index and Start.end_token_index point at each other"), snap_json(snap, None), format!("Start token {i}"));
                }
            }
        }
        // the two public accessors agree with the hook
        if s.position().pos() != snap.pos || s.atomicity() as u8 != snap.atomicity {
            self.mm("accessors", op, phase, snap_json(snap, None), json!({"position()": s.position().pos(), "atomicity()": atom_name(s.atomicity() as u8)}), String::new());
        }
        if let Err(msg) = s.verif_check_stack() {
            self.mm("stack_bookkeeping", op, phase, json!("Stack::verif_check_invariants() == Ok"), json!(msg), String::new());
        }
        let mut inn = self.inner.borrow_mut();
        inn.max_stack_snapshots = inn.max_stack_snapshots.max(snap.stack_snapshots);
        inn.max_stack_len = inn.max_stack_len.max(snap.stack.len());
        inn.max_queue_len = inn.max_queue_len.max(snap.queue.len());
    }

    /// Compares with the model's next trace entry and folds the snapshot into the digest.
    fn against_model(&self, op: &Op, after: bool, ok: bool, snap: &Snapshot) {
        let phase = if after { "after" } else { "before" };
        let idx = self.inner.borrow().idx;
        let obs = || snap_json(snap, if after { Some(ok) } else { None });
        let Some(e) = self.m.get(idx) else {
            self.mm("control_flow", op, phase, json!("the model's run ended before this event (it predicted a panic here or earlier)"), obs(), String::new());
        };
        if e.node != op.id || e.after != after {
            self.mm("control_flow", op, phase, json!({"node": e.node, "phase": if e.after {"after"} else {"before"}, "state": model_json(e)}), obs(),
                "the real run reached a different node than the model".into());
        }
        if after && e.ok != ok {
            self.mm("result", op, phase, model_json(e), obs(), format!("result {} != {}", if ok { "Ok" } else { "Err" }, if e.ok { "Ok" } else { "Err" }));
        }
        if let Some(d) = diff(snap, &e.st) {
            self.mm("state", op, phase, model_json(e), obs(), d);
        }
        let mut inn = self.inner.borrow_mut();
        let mut h = inn.digest;
        fnv(&mut h, &[op.id as u8, after as u8, ok as u8, snap.lookahead, snap.atomicity]);
        fnv(&mut h, &(snap.pos as u64).to_le_bytes());
        for q in &snap.queue {
            fnv(&mut h, &[q.0 as u8]);
            fnv(&mut h, &(q.1 as u64).to_le_bytes());
            fnv(&mut h, q.2.as_deref().unwrap_or("").as_bytes());
            fnv(&mut h, q.3.as_deref().unwrap_or("-").as_bytes());
            fnv(&mut h, &(q.4 as u64).to_le_bytes());
        }
        for x in &snap.stack {
            fnv(&mut h, x.as_bytes());
        }
        inn.digest = h;
        inn.idx = idx + 1;
        inn.last_node = op.id;
    }

    /// The statement's direct assertions, on the real before/after snapshots of one node.
    fn direct(&self, op: &Op, ok: bool, b: &Snapshot, a: &Snapshot) {
        let exp = || snap_json(b, None);
        let obs = || snap_json(a, Some(ok));
        let same_pqs = b.pos == a.pos && b.queue == a.queue && b.stack == a.stack;
        match &op.k {
            K::Seq(_) if !ok && !same_pqs => {
                // Distinguished so that the caller can explain it (see c03.rs, TAG_KEY): everything
                // is back except node tags that `tag_node` put, inside the failed sequence, on End
                // tokens queued before the sequence began.
                let untag = |q: &Vec<(bool, usize, Option<String>, Option<String>, usize)>| -> Vec<(bool, usize, Option<String>, usize)> {
                    q.iter().map(|t| (t.0, t.1, t.2.clone(), t.4)).collect()
                };
                let only_tags = b.pos == a.pos && b.stack == a.stack && untag(&b.queue) == untag(&a.queue);
                let check = if only_tags { "failed_sequence_keeps_tag" } else { "failed_sequence_restores" };
                self.mm(check, op, "after", exp(), obs(), "a failed sequence must leave position, tokens and stack as they were".into());
            }
            K::Look(..) if !same_pqs || b.lookahead != a.lookahead || b.atomicity != a.atomicity => {
                self.mm("lookahead_restores", op, "after", exp(), obs(), "a lookahead must leave position, tokens and stack as they were, whatever its result".into());
            }
            K::RestoreOnErr(_) if !ok && b.stack != a.stack => {
                self.mm("restore_on_err_restores_stack", op, "after", exp(), obs(), String::new());
            }
            K::Rule(r, _) => {
                let emits = b.lookahead == L_NONE && b.atomicity != A_ATOMIC;
                let n = b.queue.len();
                if emits && ok {
                    let m = a.queue.len();
                    let good = m >= n + 2
                        && a.queue[..n] == b.queue[..]
                        && a.queue[n] == (true, b.pos, None, None, m - 1)
                        && a.queue[m - 1] == (false, a.pos, Some(rule_name(*r).to_string()), None, n);
                    if !good {
                        self.mm("rule_pair", op, "after", json!(format!("entry queue + Start@{} .. End@{} {} (peers {} and {})", b.pos, a.pos, rule_name(*r), m.saturating_sub(1), n)), obs(),
                            "a rule that succeeds outside lookahead and Atomic adds exactly one balanced pair around what its body consumed".into());
                    }
                } else if emits && !ok && (a.queue.len() != n || a.queue.iter().zip(b.queue.iter()).any(|(x, y)| (x.0, x.1, &x.2, x.4) != (y.0, y.1, &y.2, y.4))) {
                    // tags are not compared: `rule` promises no restoration (see c03_model.rs)
                    self.mm("rule_pair", op, "after", exp(), obs(), "a failed rule adds nothing: the queue is cut back to what was there at entry".into());
                } else if b.lookahead != L_NONE && a.queue != b.queue {
                    self.mm("rule_pair", op, "after", exp(), obs(), "no tokens inside a lookahead".into());
                }
            }
            _ => {}
        }
        if op.is_primitive() {
            if !ok && a.pos != b.pos {
                self.mm("no_move_on_failure", op, "after", exp(), obs(), "a primitive that fails must not move".into());
            }
            if a.pos < b.pos {
                self.mm("no_move_on_failure", op, "after", exp(), obs(), "a primitive moved backwards".into());
            }
            let queue_may_change = matches!(op.k, K::TagNode(_));
            if !queue_may_change && a.queue != b.queue {
                self.mm("primitive_touches_queue", op, "after", exp(), obs(), String::new());
            }
            let stack_may_change = matches!(op.k, K::StackPop | K::StackDrop | K::StackMatchPop | K::StackPushLiteral(_));
            if !stack_may_change && a.stack != b.stack {
                self.mm("primitive_touches_stack", op, "after", exp(), obs(), String::new());
            }
        }
        if a.stack_snapshots != b.stack_snapshots {
            self.mm("stack_bookkeeping", op, "after", json!({"open_stack_snapshots": b.stack_snapshots}), json!({"open_stack_snapshots": a.stack_snapshots}),
                "every combinator closes the stack checkpoint it opened".into());
        }
        if a.lookahead != b.lookahead || a.atomicity != b.atomicity {
            self.mm("mode_restored", op, "after", exp(), obs(), "lookahead mode and atomicity are scoped to the combinator that sets them".into());
        }
    }
}

fn chain<'i>(cx: &Cx<'_>, v: &[Op], s: PS<'i>) -> ParseResult<PS<'i>> {
    let mut r: ParseResult<PS<'i>> = Ok(s);
    for c in v {
        r = r.and_then(|s| run(cx, c, s));
    }
    r
}

fn run<'i>(cx: &Cx<'_>, op: &Op, s: PS<'i>) -> ParseResult<PS<'i>> {
    let before = s.verif_snapshot();
    cx.common(op, "before", &s, &before);
    cx.against_model(op, false, false, &before);
    let res: ParseResult<PS<'i>> = match &op.k {
        K::Seq(v) => s.sequence(|s| chain(cx, v, s)),
        K::AndThen(v) => chain(cx, v, s),
        K::OrElse(v) => {
            let mut r = run(cx, &v[0], s);
            for c in &v[1..] {
                r = r.or_else(|s| run(cx, c, s));
            }
            r
        }
        K::Opt(b) => s.optional(|s| run(cx, b, s)),
        K::Rep(b) => s.repeat(|s| run(cx, b, s)),
        K::Look(p, b) => s.lookahead(*p, |s| run(cx, b, s)),
        K::Atomic(a, b) => s.atomic(*a, |s| run(cx, b, s)),
        K::Rule(r, b) => s.rule(*r, |s| run(cx, b, s)),
        K::Push(b) => s.stack_push(|s| run(cx, b, s)),
        K::RestoreOnErr(b) => s.restore_on_err(|s| run(cx, b, s)),
        K::MatchString(x) => s.match_string(x),
        K::MatchInsens(x) => s.match_insensitive(x),
        K::MatchRange(lo, hi) => s.match_range(*lo..*hi),
        K::MatchCharBy(k) => s.match_char_by(|c| pred(*k, c)),
        K::Skip(n) => s.skip(*n),
        K::SkipUntil(v) => {
            let refs: Vec<&str> = v.iter().map(|x| x.as_str()).collect();
            s.skip_until(&refs)
        }
        K::StartOfInput => s.start_of_input(),
        K::EndOfInput => s.end_of_input(),
        K::StackPeek => s.stack_peek(),
        K::StackPop => s.stack_pop(),
        K::StackDrop => s.stack_drop(),
        K::StackMatchPeek => s.stack_match_peek(),
        K::StackMatchPop => s.stack_match_pop(),
        K::StackMatchPeekSlice(a, b, ttb) => s.stack_match_peek_slice(*a, *b, if *ttb { MatchDir::TopToBottom } else { MatchDir::BottomToTop }),
        K::StackPushLiteral(x) => match LIT_POOL.iter().find(|p| **p == x.as_str()) {
            Some(p) => s.stack_push_literal(*p),
            None => s.stack_push_literal(x.clone()),
        },
        K::TagNode(t) => s.tag_node(TAGS[*t as usize % TAGS.len()]),
        K::Pass => Ok(s),
        K::Fail => Err(s),
    };
    let (ok, sr) = match &res {
        Ok(s) => (true, s),
        Err(s) => (false, s),
    };
    let after = sr.verif_snapshot();
    cx.common(op, "after", sr, &after);
    cx.direct(op, ok, &before, &after);
    cx.against_model(op, true, ok, &after);
    res
}

fn panic_message(p: &(dyn std::any::Any + Send)) -> String {
    if let Some(s) = p.downcast_ref::<&str>() {
        s.to_string()
    } else if let Some(s) = p.downcast_ref::<String>() {
        s.clone()
    } else {
        "<non-string panic>".to_string()
    }
}

enum Outcome {
    Ok(Vec<(bool, R, usize)>),
    Err { call_limit: bool },
}

/// Runs `prog` on `input` against the model's trace and final result.
pub fn run_real(prog: &Op, input: &str, trace: &[Ev], fin: &Final) -> RealOut {
    pest::set_call_limit(NonZeroUsize::new(CALL_LIMIT));
    let cx = Cx {
        input,
        m: trace,
        inner: RefCell::new(Inner { idx: 0, digest: 0xcbf29ce484222325, mismatch: None, limit_hit: false, max_stack_snapshots: 0, max_stack_len: 0, max_queue_len: 0, last_node: 0 }),
    };
    let res = catch_unwind(AssertUnwindSafe(|| match pest::state::<R, _>(input, |s| run(&cx, prog, s)) {
        Ok(pairs) => Outcome::Ok(
            pairs
                .tokens()
                .map(|t| match t {
                    pest::Token::Start { rule, pos } => (true, rule, pos.pos()),
                    pest::Token::End { rule, pos } => (false, rule, pos.pos()),
                })
                .collect(),
        ),
        Err(e) => Outcome::Err { call_limit: matches!(&e.variant, pest::error::ErrorVariant::CustomError { message } if message == "call limit reached") },
    }));
    let inn = cx.inner.into_inner();
    let mut out = RealOut {
        mismatch: inn.mismatch,
        limit_hit: inn.limit_hit,
        digest: inn.digest,
        events: inn.idx,
        max_stack_snapshots: inn.max_stack_snapshots,
        max_stack_len: inn.max_stack_len,
        max_queue_len: inn.max_queue_len,
        ..Default::default()
    };
    if out.mismatch.is_some() || out.limit_hit {
        return out;
    }
    let top = |check: &'static str, expected: Value, observed: Value, detail: String| Mismatch { check, node: inn.last_node, phase: "final", event: inn.idx, expected, observed, detail };
    let fin_json = |f: &Final| match f {
        Final::Done { ok, st } => json!({"result": if *ok {"Ok"} else {"Err"}, "state": st.to_json()}),
        Final::Stopped(Stop::Panic { node, msg }) => json!({"panic": msg, "node": node}),
        Final::Stopped(Stop::Budget) => json!("model budget"),
    };
    match res {
        Err(payload) => {
            if payload.is::<Abort>() {
                // cannot happen: Abort is only raised after a mismatch / limit was recorded
                out.mismatch = Some(top("harness", json!("abort with a recorded reason"), json!("abort without reason"), String::new()));
                return out;
            }
            let msg = panic_message(&*payload);
            match fin {
                Final::Stopped(Stop::Panic { node, msg: want }) if inn.idx == trace.len() && inn.last_node == *node && msg.contains(want) => {
                    out.panicked_as_expected = true;
                    fnv(&mut out.digest, b"panic");
                }
                _ => {
                    out.mismatch = Some(top("unexpected_panic", fin_json(fin), json!({"panic": msg, "inside_node": inn.last_node, "events_before": inn.idx}),
                        "the real run panicked where the documented contracts predict no panic".into()));
                }
            }
        }
        Ok(Outcome::Err { call_limit: true }) => out.limit_hit = true,
        Ok(o) => {
            let Final::Done { ok, st } = fin else {
                out.mismatch = Some(top("final_result", fin_json(fin), json!("pest::state returned without panicking"), String::new()));
                return out;
            };
            if inn.idx != trace.len() {
                out.mismatch = Some(top("control_flow", json!({"events": trace.len()}), json!({"events": inn.idx}), "the real run ended before the model's".into()));
                return out;
            }
            match o {
                Outcome::Ok(toks) => {
                    out.final_ok = Some(true);
                    let peers = peers(&st.toks);
                    let want: Vec<(bool, Option<R>, usize)> = st
                        .toks
                        .iter()
                        .enumerate()
                        .map(|(i, t)| (t.start, if t.start { peers[i].and_then(|p| st.toks[p].rule) } else { t.rule }, t.pos))
                        .collect();
                    let got: Vec<(bool, Option<R>, usize)> = toks.iter().map(|t| (t.0, Some(t.1), t.2)).collect();
                    if !*ok || want != got {
                        out.mismatch = Some(top("final_result", fin_json(fin), json!({"result": "Ok", "tokens": toks.iter().map(|t| format!("{}({})@{}", if t.0 {"Start"} else {"End"}, rule_name(t.1), t.2)).collect::<Vec<_>>()}),
                            "pest::state's result / pairs.tokens() differ from the model's final queue".into()));
                    }
                    fnv(&mut out.digest, b"ok");
                }
                Outcome::Err { .. } => {
                    out.final_ok = Some(false);
                    if *ok {
                        out.mismatch = Some(top("final_result", fin_json(fin), json!({"result": "Err"}), String::new()));
                    }
                    fnv(&mut out.digest, b"err");
                }
            }
        }
    }
    out
}
