//! C03: the PROGRAM representation (a tree of public `ParserState` calls), its JSON form
//! (replay files) and the observable-state type shared by the model and the real interpreter.

use pest::{Atomicity, Lookahead};
use serde_json::{json, Value};

/// The rule type handed to `ParserState<R>`.
#[derive(Clone, Copy, Debug, PartialEq, Eq, PartialOrd, Ord, Hash)]
pub enum R {
    A,
    B,
    C,
    D,
}
pub const RULES: [R; 4] = [R::A, R::B, R::C, R::D];

pub fn rule_name(r: R) -> &'static str {
    match r {
        R::A => "A",
        R::B => "B",
        R::C => "C",
        R::D => "D",
    }
}

/// Tags for `tag_node` (it wants `&'i str`; statics outlive every input).
pub const TAGS: [&str; 3] = ["t0", "t1", "t2"];

/// Literals that `stack_push_literal` receives as `&'static str` (Cow::Borrowed); every other
/// literal goes in as an owned `String` (Cow::Owned).
pub const LIT_POOL: [&str; 8] = ["", "a", "B", "aB", "é", "€", "🎈", "\n"];

/// Predicates for `match_char_by`.
pub const PREDS: [&str; 6] = ["is_ascii", "non_ascii", "newline", "any", "alphabetic", "none"];
pub fn pred(kind: u8, c: char) -> bool {
    match kind {
        0 => c.is_ascii(),
        1 => !c.is_ascii(),
        2 => c == '\n',
        3 => true,
        4 => c.is_alphabetic(),
        _ => false,
    }
}

#[derive(Clone, Debug, PartialEq)]
pub struct Op {
    /// Preorder index, assigned by `number`.
    pub id: usize,
    pub k: K,
}

#[derive(Clone, Debug, PartialEq)]
pub enum K {
    /// `s.sequence(|s| a(s).and_then(b)...)`
    Seq(Vec<Op>),
    Opt(Box<Op>),
    Rep(Box<Op>),
    Look(bool, Box<Op>),
    Atomic(Atomicity, Box<Op>),
    Rule(R, Box<Op>),
    Push(Box<Op>),
    RestoreOnErr(Box<Op>),
    /// `a(s).and_then(b).and_then(c)` without `sequence`
    AndThen(Vec<Op>),
    /// `a(s).or_else(b).or_else(c)`; at least one alternative
    OrElse(Vec<Op>),
    MatchString(String),
    MatchInsens(String),
    MatchRange(char, char),
    MatchCharBy(u8),
    Skip(usize),
    SkipUntil(Vec<String>),
    StartOfInput,
    EndOfInput,
    StackPeek,
    StackPop,
    StackDrop,
    StackMatchPeek,
    StackMatchPop,
    /// start, end, top_to_bottom
    StackMatchPeekSlice(i32, Option<i32>, bool),
    StackPushLiteral(String),
    TagNode(u8),
    /// the closure `|s| Ok(s)`
    Pass,
    /// the closure `|s| Err(s)`
    Fail,
}

pub const KIND_NAMES: [&str; 29] = [
    "sequence",
    "optional",
    "repeat",
    "lookahead_positive",
    "lookahead_negative",
    "atomic",
    "rule",
    "stack_push",
    "restore_on_err",
    "and_then_chain",
    "or_else_chain",
    "match_string",
    "match_insensitive",
    "match_range",
    "match_char_by",
    "skip",
    "skip_until",
    "start_of_input",
    "end_of_input",
    "stack_peek",
    "stack_pop",
    "stack_drop",
    "stack_match_peek",
    "stack_match_pop",
    "stack_match_peek_slice",
    "stack_push_literal",
    "tag_node",
    "ok_closure",
    "err_closure",
];

impl Op {
    pub fn new(k: K) -> Op {
        Op { id: 0, k }
    }

    pub fn kind(&self) -> usize {
        match &self.k {
            K::Seq(_) => 0,
            K::Opt(_) => 1,
            K::Rep(_) => 2,
            K::Look(true, _) => 3,
            K::Look(false, _) => 4,
            K::Atomic(..) => 5,
            K::Rule(..) => 6,
            K::Push(_) => 7,
            K::RestoreOnErr(_) => 8,
            K::AndThen(_) => 9,
            K::OrElse(_) => 10,
            K::MatchString(_) => 11,
            K::MatchInsens(_) => 12,
            K::MatchRange(..) => 13,
            K::MatchCharBy(_) => 14,
            K::Skip(_) => 15,
            K::SkipUntil(_) => 16,
            K::StartOfInput => 17,
            K::EndOfInput => 18,
            K::StackPeek => 19,
            K::StackPop => 20,
            K::StackDrop => 21,
            K::StackMatchPeek => 22,
            K::StackMatchPop => 23,
            K::StackMatchPeekSlice(..) => 24,
            K::StackPushLiteral(_) => 25,
            K::TagNode(_) => 26,
            K::Pass => 27,
            K::Fail => 28,
        }
    }

    /// Primitive = takes no closure (position/stack/tag operations and the two trivial closures).
    pub fn is_primitive(&self) -> bool {
        self.kind() >= 11
    }

    pub fn children(&self) -> Vec<&Op> {
        match &self.k {
            K::Seq(v) | K::AndThen(v) | K::OrElse(v) => v.iter().collect(),
            K::Opt(b) | K::Rep(b) | K::Look(_, b) | K::Atomic(_, b) | K::Rule(_, b) | K::Push(b) | K::RestoreOnErr(b) => vec![b],
            _ => vec![],
        }
    }

    fn children_mut(&mut self) -> Vec<&mut Op> {
        match &mut self.k {
            K::Seq(v) | K::AndThen(v) | K::OrElse(v) => v.iter_mut().collect(),
            K::Opt(b) | K::Rep(b) | K::Look(_, b) | K::Atomic(_, b) | K::Rule(_, b) | K::Push(b) | K::RestoreOnErr(b) => vec![&mut **b],
            _ => vec![],
        }
    }

    /// Assigns preorder ids; returns the node count.
    pub fn number(&mut self) -> usize {
        fn go(op: &mut Op, next: &mut usize) {
            op.id = *next;
            *next += 1;
            for c in op.children_mut() {
                go(c, next);
            }
        }
        let mut n = 0;
        go(self, &mut n);
        n
    }

    pub fn depth(&self) -> usize {
        1 + self.children().iter().map(|c| c.depth()).max().unwrap_or(0)
    }

    pub fn find(&self, id: usize) -> Option<&Op> {
        if self.id == id {
            return Some(self);
        }
        self.children().into_iter().find_map(|c| c.find(id))
    }

    /// Structural hash of the whole tree (case identity for the distinct-case accounting).
    pub fn hash_into(&self, h: &mut u64) {
        fn feed(h: &mut u64, bytes: &[u8]) {
            for b in bytes {
                *h ^= *b as u64;
                *h = h.wrapping_mul(0x100000001b3);
            }
            *h ^= 0xff;
            *h = h.wrapping_mul(0x100000001b3);
        }
        feed(h, &[self.kind() as u8]);
        match &self.k {
            K::Atomic(a, _) => feed(h, &[*a as u8]),
            K::Rule(r, _) => feed(h, &[*r as u8]),
            K::MatchString(x) | K::MatchInsens(x) | K::StackPushLiteral(x) => feed(h, x.as_bytes()),
            K::MatchRange(a, b) => feed(h, &[(*a as u32).to_le_bytes(), (*b as u32).to_le_bytes()].concat()),
            K::MatchCharBy(k) | K::TagNode(k) => feed(h, &[*k]),
            K::Skip(n) => feed(h, &(*n as u64).to_le_bytes()),
            K::SkipUntil(v) => {
                feed(h, &[v.len() as u8]);
                for x in v {
                    feed(h, x.as_bytes());
                }
            }
            K::StackMatchPeekSlice(a, b, t) => {
                feed(h, &a.to_le_bytes());
                feed(h, &b.map_or([0x7f; 4], |b| b.to_le_bytes()));
                feed(h, &[*t as u8, b.is_some() as u8]);
            }
            _ => {}
        }
        let ch = self.children();
        feed(h, &[ch.len() as u8]);
        for c in ch {
            c.hash_into(h);
        }
    }

    /// One-line rendering without the children (for witnesses).
    pub fn head(&self) -> String {
        let mut v = self.to_json();
        if let Value::Object(m) = &mut v {
            if m.contains_key("body") {
                m.insert("body".into(), json!("..."));
            }
        }
        v.to_string()
    }

    pub fn to_json(&self) -> Value {
        let list = |v: &Vec<Op>| Value::Array(v.iter().map(|o| o.to_json()).collect());
        match &self.k {
            K::Seq(v) => json!({"op":"sequence","body":list(v)}),
            K::Opt(b) => json!({"op":"optional","body":b.to_json()}),
            K::Rep(b) => json!({"op":"repeat","body":b.to_json()}),
            K::Look(p, b) => json!({"op":"lookahead","positive":p,"body":b.to_json()}),
            K::Atomic(a, b) => json!({"op":"atomic","atomicity":atom_name(*a as u8),"body":b.to_json()}),
            K::Rule(r, b) => json!({"op":"rule","rule":rule_name(*r),"body":b.to_json()}),
            K::Push(b) => json!({"op":"stack_push","body":b.to_json()}),
            K::RestoreOnErr(b) => json!({"op":"restore_on_err","body":b.to_json()}),
            K::AndThen(v) => json!({"op":"and_then","body":list(v)}),
            K::OrElse(v) => json!({"op":"or_else","body":list(v)}),
            K::MatchString(s) => json!({"op":"match_string","s":s}),
            K::MatchInsens(s) => json!({"op":"match_insensitive","s":s}),
            K::MatchRange(a, b) => json!({"op":"match_range","lo":a.to_string(),"hi":b.to_string()}),
            K::MatchCharBy(k) => json!({"op":"match_char_by","pred":PREDS[(*k as usize).min(5)]}),
            K::Skip(n) => json!({"op":"skip","n":n}),
            K::SkipUntil(v) => json!({"op":"skip_until","strings":v}),
            K::StartOfInput => json!({"op":"start_of_input"}),
            K::EndOfInput => json!({"op":"end_of_input"}),
            K::StackPeek => json!({"op":"stack_peek"}),
            K::StackPop => json!({"op":"stack_pop"}),
            K::StackDrop => json!({"op":"stack_drop"}),
            K::StackMatchPeek => json!({"op":"stack_match_peek"}),
            K::StackMatchPop => json!({"op":"stack_match_pop"}),
            K::StackMatchPeekSlice(s, e, ttb) => {
                json!({"op":"stack_match_peek_slice","start":s,"end":e,"dir": if *ttb {"TopToBottom"} else {"BottomToTop"}})
            }
            K::StackPushLiteral(s) => json!({"op":"stack_push_literal","s":s}),
            K::TagNode(t) => json!({"op":"tag_node","tag":TAGS[(*t as usize) % TAGS.len()]}),
            K::Pass => json!({"op":"ok"}),
            K::Fail => json!({"op":"err"}),
        }
    }

    pub fn from_json(v: &Value) -> Result<Op, String> {
        let name = v["op"].as_str().ok_or_else(|| format!("node without \"op\": {v}"))?;
        let body = || -> Result<Box<Op>, String> { Ok(Box::new(Op::from_json(&v["body"])?)) };
        let list = || -> Result<Vec<Op>, String> {
            v["body"].as_array().ok_or_else(|| format!("{name}: body must be a list"))?.iter().map(Op::from_json).collect()
        };
        let s = || -> Result<String, String> { v["s"].as_str().map(String::from).ok_or_else(|| format!("{name}: missing s")) };
        let ch = |k: &str| -> Result<char, String> {
            let t = v[k].as_str().unwrap_or("");
            let mut it = t.chars();
            match (it.next(), it.next()) {
                (Some(c), None) => Ok(c),
                _ => Err(format!("{name}: {k} must be one char")),
            }
        };
        let k = match name {
            "sequence" => K::Seq(list()?),
            "optional" => K::Opt(body()?),
            "repeat" => K::Rep(body()?),
            "lookahead" => K::Look(v["positive"].as_bool().ok_or("lookahead: missing positive")?, body()?),
            "atomic" => {
                let a = match v["atomicity"].as_str() {
                    Some("Atomic") => Atomicity::Atomic,
                    Some("CompoundAtomic") => Atomicity::CompoundAtomic,
                    Some("NonAtomic") => Atomicity::NonAtomic,
                    other => return Err(format!("atomic: atomicity {other:?}")),
                };
                K::Atomic(a, body()?)
            }
            "rule" => {
                let r = v["rule"].as_str().and_then(|n| RULES.iter().copied().find(|r| rule_name(*r) == n));
                K::Rule(r.ok_or("rule: unknown rule")?, body()?)
            }
            "stack_push" => K::Push(body()?),
            "restore_on_err" => K::RestoreOnErr(body()?),
            "and_then" => K::AndThen(list()?),
            "or_else" => {
                let l = list()?;
                if l.is_empty() {
                    return Err("or_else: needs at least one alternative".into());
                }
                K::OrElse(l)
            }
            "match_string" => K::MatchString(s()?),
            "match_insensitive" => K::MatchInsens(s()?),
            "match_range" => K::MatchRange(ch("lo")?, ch("hi")?),
            "match_char_by" => {
                let p = v["pred"].as_str().and_then(|n| PREDS.iter().position(|p| *p == n));
                K::MatchCharBy(p.ok_or("match_char_by: unknown pred")? as u8)
            }
            "skip" => K::Skip(v["n"].as_u64().ok_or("skip: missing n")? as usize),
            "skip_until" => {
                let a = v["strings"].as_array().ok_or("skip_until: missing strings")?;
                K::SkipUntil(a.iter().map(|x| x.as_str().map(String::from).ok_or("skip_until: non-string")).collect::<Result<_, _>>()?)
            }
            "start_of_input" => K::StartOfInput,
            "end_of_input" => K::EndOfInput,
            "stack_peek" => K::StackPeek,
            "stack_pop" => K::StackPop,
            "stack_drop" => K::StackDrop,
            "stack_match_peek" => K::StackMatchPeek,
            "stack_match_pop" => K::StackMatchPop,
            "stack_match_peek_slice" => {
                let st = v["start"].as_i64().ok_or("stack_match_peek_slice: missing start")? as i32;
                let en = v["end"].as_i64().map(|e| e as i32);
                let ttb = match v["dir"].as_str() {
                    Some("TopToBottom") => true,
                    Some("BottomToTop") => false,
                    other => return Err(format!("stack_match_peek_slice: dir {other:?}")),
                };
                K::StackMatchPeekSlice(st, en, ttb)
            }
            "stack_push_literal" => K::StackPushLiteral(s()?),
            "tag_node" => {
                let t = v["tag"].as_str().and_then(|n| TAGS.iter().position(|t| *t == n));
                K::TagNode(t.ok_or("tag_node: unknown tag")? as u8)
            }
            "ok" => K::Pass,
            "err" => K::Fail,
            other => return Err(format!("unknown op {other:?}")),
        };
        Ok(Op::new(k))
    }
}

// ---------------------------------------------------------------------------------------------
// Observable state
// ---------------------------------------------------------------------------------------------

pub const L_POS: u8 = Lookahead::Positive as u8;
pub const L_NEG: u8 = Lookahead::Negative as u8;
pub const L_NONE: u8 = Lookahead::None as u8;
pub const A_ATOMIC: u8 = Atomicity::Atomic as u8;
pub const A_COMPOUND: u8 = Atomicity::CompoundAtomic as u8;
pub const A_NON: u8 = Atomicity::NonAtomic as u8;

pub fn look_name(l: u8) -> &'static str {
    if l == L_POS {
        "Positive"
    } else if l == L_NEG {
        "Negative"
    } else if l == L_NONE {
        "None"
    } else {
        "?"
    }
}

pub fn atom_name(a: u8) -> &'static str {
    if a == A_ATOMIC {
        "Atomic"
    } else if a == A_COMPOUND {
        "CompoundAtomic"
    } else if a == A_NON {
        "NonAtomic"
    } else {
        "?"
    }
}

/// One queue entry as the model knows it. A Start carries neither rule nor tag (as in pest's
/// queue); peers are not stored, they follow from bracket matching (`peers`).
#[derive(Clone, Debug, PartialEq, Eq)]
pub struct Tok {
    pub start: bool,
    pub pos: usize,
    pub rule: Option<R>,
    pub tag: Option<u8>,
}

/// The complete observable state the statement speaks about.
#[derive(Clone, Debug, PartialEq, Eq)]
pub struct St {
    pub pos: usize,
    pub toks: Vec<Tok>,
    pub stack: Vec<String>,
    pub look: u8,
    pub atom: u8,
}

impl St {
    pub fn initial() -> St {
        St { pos: 0, toks: vec![], stack: vec![], look: L_NONE, atom: A_NON }
    }

    pub fn to_json(&self) -> Value {
        let peers = peers(&self.toks);
        let toks: Vec<String> = self
            .toks
            .iter()
            .enumerate()
            .map(|(i, t)| {
                let peer = peers[i].map_or("open".to_string(), |p| p.to_string());
                if t.start {
                    format!("Start@{} peer={}", t.pos, peer)
                } else {
                    let tag = t.tag.map_or(String::new(), |x| format!(" #{}", TAGS[x as usize % TAGS.len()]));
                    format!("End@{} {}{} peer={}", t.pos, t.rule.map_or("?", rule_name), tag, peer)
                }
            })
            .collect();
        json!({"pos": self.pos, "tokens": toks, "stack": self.stack, "lookahead": look_name(self.look), "atomicity": atom_name(self.atom)})
    }
}

/// Bracket matching: the index of each token's partner (None for a Start that is still open or
/// an End without a Start).
pub fn peers(toks: &[Tok]) -> Vec<Option<usize>> {
    let mut out = vec![None; toks.len()];
    let mut open: Vec<usize> = vec![];
    for (i, t) in toks.iter().enumerate() {
        if t.start {
            open.push(i);
        } else if let Some(s) = open.pop() {
            out[i] = Some(s);
            out[s] = Some(i);
        }
    }
    out
}
