//! C03 - parser-state combinators are all-or-nothing and match exactly.
//!
//! Workload: random PROGRAMS (trees of depth <= 6 with <= 40 nodes over all public operations
//! of `pest::ParserState`, see c03_prog.rs / c03_gen.rs) x random inputs (<= 16 chars over
//! {a B c é € 🎈 \n}). Every program is first evaluated by the naive functional MODEL of the
//! documented contracts (c03_model.rs), then run on the real `ParserState` (c03_real.rs), which
//! snapshots the complete state before and after every node and compares it with the model,
//! checks the statement's direct assertions on the real snapshots and asks the stack's
//! invariant hook. One evaluation = one program judged at every node it executed.
//!
//! The binary is built twice (with and without pest's `memchr` feature). The random stream
//! does not depend on the build, and each shard folds the digests of all real snapshots of all
//! its programs into `notes.digest_chain`, so the driver can compare the two builds shard by
//! shard.
//!
//! Non-trivial program: >= 6 executed nodes, >= 3 distinct operation kinds, and at least one
//! restoring combinator that had something to undo (a `sequence` that failed after its body
//! changed position/queue/stack, a `restore_on_err` that failed after its body changed the
//! stack, or a `lookahead` whose body moved or changed the stack).

use crate::c03_gen::{gen_case, repeats_are_guarded};
use crate::c03_model::{run_model, Final, Stats, Stop};
use crate::c03_prog::*;
use crate::c03_real::{run_real, RealOut};
use crate::rng::{hash_bytes, Rng};
use crate::shard::{load_known, Args, Report};
use serde_json::{json, Value};

pub fn config_name() -> &'static str {
    if cfg!(feature = "memchr") {
        "memchr"
    } else {
        "no-memchr"
    }
}

#[derive(Default)]
struct Local {
    programs: u64,
    exec: [u64; 29],
    ok: [u64; 29],
    err: [u64; 29],
    nodes_executed: u64,
    snapshots_compared: u64,
    final_ok: u64,
    final_err: u64,
    final_panic: u64,
    backtracking: u64,
    roe: u64,
    look_restore: u64,
    rule_trunc: u64,
    look_nest: [u64; 7],
    snap_depth: [u64; 12],
    snap_depth_max: usize,
    stack_len_max: usize,
    queue_len_max: usize,
    skip_until: [u64; 5],
    insens_boundary: u64,
    prim_fail: u64,
    pairs_emitted: u64,
    pairs_suppressed: u64,
    nontrivial: u64,
}

impl Local {
    fn flush(&self, rep: &mut Report) {
        rep.add("evaluations", self.programs);
        rep.add(&format!("config:{}", config_name()), self.programs);
        rep.add(if cfg!(feature = "memchr") { "memchr:on" } else { "memchr:off" }, self.programs);
        for (i, n) in KIND_NAMES.iter().enumerate() {
            rep.add(&format!("op:{n}"), self.exec[i]);
            rep.add(&format!("op_ok:{n}"), self.ok[i]);
            rep.add(&format!("op_err:{n}"), self.err[i]);
        }
        rep.add("nodes_executed", self.nodes_executed);
        rep.add("snapshots_compared", self.snapshots_compared);
        rep.add("outcome:final_ok", self.final_ok);
        rep.add("outcome:final_err", self.final_err);
        rep.add("outcome:documented_panic", self.final_panic);
        rep.add("programs_with_backtracking(failed_sequence_after_progress)", self.backtracking);
        rep.add("programs_with_restore_on_err_undoing_stack", self.roe);
        rep.add("programs_with_lookahead_undoing_progress", self.look_restore);
        rep.add("programs_with_failed_rule_truncating_queue", self.rule_trunc);
        for (i, n) in self.look_nest.iter().enumerate() {
            rep.add(&format!("lookahead_nesting:{i}"), *n);
        }
        for (i, n) in self.snap_depth.iter().enumerate() {
            if *n > 0 {
                rep.add(&format!("stack_snapshot_depth_max:{i}"), *n);
            }
        }
        for (i, n) in self.skip_until.iter().enumerate() {
            rep.add(&format!("skip_until_arity:{i}"), *n);
        }
        rep.add("match_insensitive_ending_inside_a_char", self.insens_boundary);
        rep.add("primitive_failures", self.prim_fail);
        rep.add("pairs_emitted", self.pairs_emitted);
        rep.add("pairs_suppressed(lookahead_or_atomic)", self.pairs_suppressed);
        rep.add("nontrivial_programs", self.nontrivial);
        rep.notes.insert("stack_snapshot_depth_max".into(), json!(self.snap_depth_max));
        rep.notes.insert("stack_len_max".into(), json!(self.stack_len_max));
        rep.notes.insert("queue_len_max".into(), json!(self.queue_len_max));
    }
}

fn case_json(prog: &Op, input: &str) -> Value {
    json!({"program": prog.to_json(), "input": input})
}

/// Explained finding (see the final report of the monitor's author; whether it is listed as
/// `known` in known_findings.jsonl is the maintainer's decision - unlisted, the driver treats
/// it as a violation): `sequence` undoes position, queue LENGTH and stack when it fails, but a
/// node tag that `tag_node` wrote, inside the failed sequence, onto an End token queued BEFORE
/// the sequence stays. The statement says a failed sequence leaves the emitted tokens exactly
/// as they were. Predicate: the failed sequence's before/after snapshots are identical once
/// tags are erased (and position and stack are identical as they are).
pub const TAG_KEY: &str = "c03-tag-node-survives-failed-sequence";

enum Verdict {
    Held,
    Known(&'static str, Value),
    Violated(Value),
    Inconclusive(Value),
}

struct Judged {
    verdict: Verdict,
    digest: u64,
    stats: Stats,
    real: RealOut,
}

/// Judges one case: model first, then the real run against the model's trace.
fn judge(prog: &Op, input: &str) -> Judged {
    let (trace, fin, stats) = run_model(prog, input);
    if let Final::Stopped(Stop::Budget) = fin {
        // only hand-written replay programs can get here; never handed to pest
        return Judged { verdict: Verdict::Inconclusive(json!({"why": "model step budget exhausted", "case": case_json(prog, input)})), digest: 0, stats, real: RealOut::default() };
    }
    let real = run_real(prog, input, &trace, &fin);
    let verdict = if let Some(m) = &real.mismatch {
        let op = prog.find(m.node);
        let w = json!({
            "property": "C03",
            "config": config_name(),
            "program": prog.to_json(),
            "input": input,
            "check": m.check,
            "node": m.node,
            "op": op.map(|o| o.head()),
            "phase": m.phase,
            "event_index": m.event,
            "expected": m.expected,
            "observed": m.observed,
            "detail": m.detail,
        });
        if m.check == "failed_sequence_keeps_tag" {
            Verdict::Known(TAG_KEY, w)
        } else {
            Verdict::Violated(w)
        }
    } else if real.limit_hit {
        Verdict::Inconclusive(json!({"why": "pest call limit (backstop) reached", "case": case_json(prog, input)}))
    } else {
        Verdict::Held
    };
    Judged { verdict, digest: real.digest, stats, real }
}

fn case_hash(prog: &Op, input: &str) -> u64 {
    let mut h = hash_bytes(&[input.as_bytes()]);
    prog.hash_into(&mut h);
    h
}

fn account(loc: &mut Local, rep: &mut Report, prog: &Op, input: &str, j: &Judged) {
    let s = &j.stats;
    loc.programs += 1;
    let mut kinds = 0u32;
    let mut executed = 0u64;
    let mut outcome_bits = 0u64;
    for i in 0..29 {
        loc.exec[i] += s.exec[i] as u64;
        loc.ok[i] += s.ok[i] as u64;
        loc.err[i] += s.err[i] as u64;
        executed += s.exec[i] as u64;
        if s.exec[i] > 0 {
            kinds |= 1 << i;
        }
        if s.ok[i] > 0 {
            outcome_bits |= 1 << i;
        }
        if s.err[i] > 0 {
            outcome_bits |= 1 << (i + 29);
        }
    }
    loc.nodes_executed += executed;
    loc.snapshots_compared += j.real.events as u64;
    match j.real.final_ok {
        Some(true) => loc.final_ok += 1,
        Some(false) => loc.final_err += 1,
        None if j.real.panicked_as_expected => loc.final_panic += 1,
        None => {}
    }
    loc.backtracking += (s.seq_backtracks > 0) as u64;
    loc.roe += (s.roe_restores > 0) as u64;
    loc.look_restore += (s.look_restores > 0) as u64;
    loc.rule_trunc += (s.rule_truncations > 0) as u64;
    loc.look_nest[(s.look_nesting_max as usize).min(6)] += 1;
    loc.snap_depth[j.real.max_stack_snapshots.min(11)] += 1;
    loc.snap_depth_max = loc.snap_depth_max.max(j.real.max_stack_snapshots);
    loc.stack_len_max = loc.stack_len_max.max(j.real.max_stack_len);
    loc.queue_len_max = loc.queue_len_max.max(j.real.max_queue_len);
    for i in 0..5 {
        loc.skip_until[i] += s.skip_until_arity[i] as u64;
    }
    loc.insens_boundary += s.insens_boundary_probe as u64;
    loc.prim_fail += s.prim_fail as u64;
    loc.pairs_emitted += s.pairs_emitted as u64;
    loc.pairs_suppressed += s.pairs_suppressed as u64;

    let restored = s.seq_backtracks > 0 || s.roe_restores > 0 || s.look_restores > 0;
    if executed >= 6 && kinds.count_ones() >= 3 && restored {
        loc.nontrivial += 1;
        let flags = [
            (s.seq_backtracks > 0) as u8,
            (s.roe_restores > 0) as u8,
            (s.look_restores > 0) as u8,
            (s.rule_truncations > 0) as u8,
            s.look_nesting_max.min(3) as u8,
            j.real.max_stack_snapshots.min(4) as u8,
            match j.real.final_ok {
                Some(true) => 0,
                Some(false) => 1,
                None => 2,
            },
        ];
        // behaviour signature: which combinators ran, which of them failed, which primitive
        // families ran (position / stack / tag), and what had to be undone
        let comb = kinds & 0x7ff;
        let comb_err = (outcome_bits >> 29) & 0x7ff;
        let fam = [(kinds >> 11) & 0xff != 0, (kinds >> 19) & 0x7f != 0, kinds & (1 << 26) != 0, kinds & (1 << 16) != 0].map(|b| b as u8);
        let _ = comb;
        let sig = hash_bytes(&[&comb_err.to_le_bytes(), &fam, &flags[..4], &flags[6..]]);
        rep.nontrivial(case_hash(prog, input), sig);
        if s.seq_backtracks > 0 && s.look_restores > 0 {
            rep.sample_slot("backtracking+lookahead", || case_json(prog, input));
        }
        if s.skip_until_arity[3] > 0 && s.seq_backtracks > 0 {
            rep.sample_slot("skip_until_3_needles", || case_json(prog, input));
        }
        if s.roe_restores > 0 {
            rep.sample_slot("restore_on_err", || case_json(prog, input));
        }
    }
    if j.real.panicked_as_expected {
        rep.sample_slot("documented_panic", || case_json(prog, input));
    }
}

/// Regression cases kept in the monitor itself (the known-findings entry for the repaired
/// `skip_until` defect is written as a grammar, which this crate cannot read: no pest_meta).
fn builtin_cases() -> Vec<(&'static str, Value)> {
    vec![
        (
            "skip_until three needles, last one empty (DESIGN.md section 6: `zza`)",
            json!({"input": "zza", "program": {"op":"rule","rule":"A","body":{"op":"atomic","atomicity":"Atomic","body":
                {"op":"sequence","body":[{"op":"skip_until","strings":["a","b",""]},{"op":"match_string","s":"z"}]}}}}),
        ),
        (
            "skip_until three needles, last one empty (known_findings witness: `A`)",
            json!({"input": "A", "program": {"op":"sequence","body":[{"op":"skip_until","strings":["aB","abc",""]},{"op":"end_of_input"}]}}),
        ),
        (
            "skip_until three needles, the third one is the only hit",
            json!({"input": "ccBca", "program": {"op":"and_then","body":[{"op":"skip_until","strings":["é","€","Bc"]},{"op":"match_string","s":"Bc"}]}}),
        ),
        (
            "lookahead with pushes inside a failing sequence inside a repeat",
            json!({"input": "aBaBc", "program": {"op":"repeat","body":{"op":"sequence","body":[
                {"op":"match_string","s":"a"},
                {"op":"lookahead","positive":true,"body":{"op":"stack_push","body":{"op":"match_string","s":"B"}}},
                {"op":"stack_push","body":{"op":"skip","n":1}},
                {"op":"rule","rule":"B","body":{"op":"match_string","s":"a"}}]}}}),
        ),
        (
            "canonical witness of c03-tag-node-survives-failed-sequence",
            json!({"input": "", "program": {"op":"and_then","body":[
                {"op":"rule","rule":"A","body":{"op":"ok"}},
                {"op":"optional","body":{"op":"sequence","body":[{"op":"tag_node","tag":"t0"},{"op":"err"}]}},
                {"op":"end_of_input"}]}}),
        ),
        (
            "match_insensitive whose byte length ends inside a char",
            json!({"input": "é€", "program": {"op":"or_else","body":[{"op":"match_insensitive","s":"a"},{"op":"match_insensitive","s":"É"},{"op":"match_insensitive","s":"é"}]}}),
        ),
    ]
}

fn parse_case(v: &Value) -> Result<(Op, String), String> {
    let w = if v.get("witness").is_some_and(|w| w.get("program").is_some()) { &v["witness"] } else { v };
    let w = if w.get("case").is_some_and(|c| c.get("program").is_some()) { &w["case"] } else { w };
    let input = w["input"].as_str().ok_or("case without \"input\"")?.to_string();
    let mut prog = Op::from_json(&w["program"])?;
    prog.number();
    Ok((prog, input))
}

/// Runs one explicit case (replay file, built-in or known-findings witness).
fn run_explicit(rep: &mut Report, loc: &mut Local, label: &str, v: &Value, known_key: Option<&str>) {
    let (prog, input) = match parse_case(v) {
        Ok(c) => c,
        Err(e) => {
            rep.inconclusive(json!({"why": format!("{label}: unreadable case: {e}")}));
            return;
        }
    };
    if !repeats_are_guarded(&prog) {
        // `repeat` over a body that can succeed without moving loops for ever by design
        let (_, fin, _) = run_model(&prog, &input);
        if let Final::Stopped(Stop::Budget) = fin {
            rep.inconclusive(json!({"why": format!("{label}: a repeat body succeeds without moving (documented endless loop); not run"), "case": case_json(&prog, &input)}));
            return;
        }
    }
    rep.journal(|| case_json(&prog, &input));
    let j = judge(&prog, &input);
    account(loc, rep, &prog, &input, &j);
    rep.count(&format!("explicit:{label}"));
    match j.verdict {
        Verdict::Held => {}
        Verdict::Known(k, w) => rep.known_finding(k, w),
        Verdict::Violated(w) => match known_key {
            Some(k) => rep.known_finding(k, w),
            None => rep.violation(w),
        },
        Verdict::Inconclusive(w) => rep.inconclusive(w),
    }
}

pub fn run(args: &Args) {
    let mut rep = Report::new(args);
    let mut loc = Local::default();
    rep.notes.insert("config".into(), json!(config_name()));
    rep.notes.insert("miri".into(), json!(cfg!(miri)));

    if let Some(path) = &args.replay {
        let v: Value = serde_json::from_str(&std::fs::read_to_string(path).expect("replay file")).expect("replay json");
        run_explicit(&mut rep, &mut loc, "replay", &v, None);
        loc.flush(&mut rep);
        rep.finish(args);
        return;
    }

    if args.shard == 0 {
        for (label, v) in builtin_cases() {
            run_explicit(&mut rep, &mut loc, &format!("regression:{label}"), &v, None);
        }
        for k in load_known(&args.known, "C03") {
            if k.witness.get("program").is_some() {
                let key = if k.status == "known" { Some(k.key.as_str()) } else { None };
                run_explicit(&mut rep, &mut loc, &format!("known_findings:{}", k.key), &k.witness, key);
            }
        }
    }

    // The stream depends on (seed, shard) only: both builds see the same programs.
    let mut rng = Rng::new(args.seed, "c03", args.shard);
    let budget = args.budget(200_000, 10_000_000);
    let mut chain: u64 = 0xcbf29ce484222325;
    let mut chained: u64 = 0;
    let mut checkpoints: Vec<Value> = vec![];
    let step = (budget / 16).max(1);
    let mut complete = true;
    for i in 0..budget {
        if i % 256 == 0 && rep.elapsed() > args.max_s {
            complete = false;
            rep.inconclusive(json!({"why": format!("time budget: {} of {} programs run", i, budget)}));
            break;
        }
        let (prog, input) = gen_case(&mut rng);
        rep.journal(|| case_json(&prog, &input));
        let j = judge(&prog, &input);
        account(&mut loc, &mut rep, &prog, &input, &j);
        chain = hash_bytes(&[&chain.to_le_bytes(), &j.digest.to_le_bytes()]);
        chained += 1;
        if chained % step == 0 {
            checkpoints.push(json!([chained, format!("{chain:016x}")]));
        }
        match j.verdict {
            Verdict::Held => {}
            Verdict::Known(k, w) => rep.known_finding(k, w),
            Verdict::Violated(w) => {
                rep.violation(w);
                if rep.violations.len() >= 50 {
                    complete = false;
                    break;
                }
            }
            Verdict::Inconclusive(w) => rep.inconclusive(w),
        }
    }
    rep.notes.insert(
        "digest_chain".into(),
        json!({"programs": chained, "chain": format!("{chain:016x}"), "complete": complete, "checkpoints": checkpoints,
               "seed": args.seed, "shard": args.shard, "nshards": args.nshards}),
    );
    loc.flush(&mut rep);
    rep.finish(args);
}
