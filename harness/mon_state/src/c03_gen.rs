//! C03: random inputs and random programs.
//!
//! Termination: `repeat` loops for ever, by design, when its body succeeds without moving.
//! Every operation is position-monotone (it never returns a position before the one it was
//! called with: the restoring combinators go back to a position recorded inside the current
//! call), so a body built by `progress()` - "if it returns Ok, at least one char was consumed" -
//! makes every `repeat` end after at most |input| successful iterations.

use crate::c03_prog::*;
use crate::rng::Rng;
use pest::Atomicity;

pub const MAX_DEPTH: usize = 6;
pub const MAX_NODES: usize = 40;

/// Input alphabet: 1-, 2-, 3- and 4-byte chars and the newline.
pub const ALPHA: [char; 9] = ['a', 'B', 'c', 'é', '€', '🎈', '\n', 'Ａ', '\u{feff}'];
/// ASCII characters that are not letters, in pairs that differ in bit 0x20 only (the bit that ASCII
/// case folding flips): `match_insensitive` must tell them apart. Used by the longer inputs.
pub const PUNCT: [char; 12] = ['@', '`', '[', '{', '^', '~', '_', '\u{7f}', '1', '\u{11}', ' ', '\0'];
/// Literals additionally use the other ASCII case and a non-ASCII upper case (which
/// `match_insensitive` must NOT fold).
pub const LIT_ALPHA: [char; 12] = ['a', 'B', 'c', 'é', '€', '🎈', '\n', 'A', 'b', 'C', 'É', 'Ａ'];

pub fn gen_input(r: &mut Rng) -> String {
    let n = match r.below(20) {
        0 => 0,
        1..=4 => 1 + r.below(3),
        5..=14 => 3 + r.below(8),
        _ => 10 + r.below(7),
    };
    if r.chance(1, 8) {
        // a longer, mostly ASCII line with punctuation (keywords and identifiers of 8+ bytes)
        let n = 12 + r.below(24);
        let mut s = String::new();
        for _ in 0..n {
            s.push(match r.below(10) {
                0..=4 => (b'a' + r.below(6) as u8) as char,
                5 => (b'A' + r.below(6) as u8) as char,
                6..=8 => PUNCT[r.below(PUNCT.len())],
                _ => ALPHA[r.below(ALPHA.len())],
            });
        }
        return s;
    }
    if n >= 2 && r.chance(1, 5) {
        // a short block repeated (with an occasional foreign char): pushed spans and literals
        // then match again later in the input, which is what PEEK/POP/PEEK_ALL need to succeed
        let block: Vec<char> = (0..1 + r.below(3)).map(|_| ALPHA[r.below(ALPHA.len())]).collect();
        let mut s = String::new();
        for i in 0..n {
            s.push(if r.chance(1, 10) { ALPHA[r.below(ALPHA.len())] } else { block[i % block.len()] });
        }
        return s;
    }
    let mut s = String::new();
    let mut prev: Vec<char> = vec![];
    for _ in 0..n {
        // repeats of earlier chars create overlapping candidates for the needle search
        let c = if !prev.is_empty() && r.chance(1, 4) { prev[r.below(prev.len())] } else { ALPHA[r.below(ALPHA.len())] };
        prev.push(c);
        s.push(c);
    }
    s
}

fn flip_case(s: &str, r: &mut Rng) -> String {
    // sometimes one non-letter ASCII character gets its 0x20 bit flipped: no longer a match
    let n_chars = s.chars().count();
    let non_letters: Vec<usize> = s.chars().enumerate().filter(|(_, c)| c.is_ascii() && !c.is_ascii_alphabetic()).map(|(i, _)| i).collect();
    let flip_at = if n_chars >= 8 && !non_letters.is_empty() && r.chance(1, 2) {
        // long literals (compared a machine word at a time, if at all): aim at a non-letter
        Some(non_letters[r.below(non_letters.len())])
    } else if n_chars > 0 && r.chance(1, 5) {
        Some(r.below(n_chars))
    } else {
        None
    };
    s.chars()
        .enumerate()
        .map(|(i, c)| {
            if Some(i) == flip_at && c.is_ascii() && !c.is_ascii_alphabetic() {
                return ((c as u8) ^ 0x20) as char;
            }
            if c.is_ascii_alphabetic() && r.chance(1, 2) {
                if c.is_ascii_lowercase() {
                    c.to_ascii_uppercase()
                } else {
                    c.to_ascii_lowercase()
                }
            } else if c == 'é' && r.chance(1, 4) {
                'É'
            } else {
                c
            }
        })
        .collect()
}

struct G<'a> {
    r: &'a mut Rng,
    chars: Vec<char>,
    budget: i32,
    /// pushes generated so far in preorder (heuristic for placing PEEK/POP)
    pushes: u32,
}

impl<'a> G<'a> {
    fn lit(&mut self, allow_empty: bool) -> String {
        let r = &mut *self.r;
        if allow_empty && r.chance(1, 9) {
            return String::new();
        }
        if !self.chars.is_empty() && r.chance(1, 2) {
            // a piece of the input
            let start = if r.chance(1, 3) { 0 } else { r.below(self.chars.len()) };
            let len = if r.chance(1, 6) { 8 + r.below(12) } else { 1 + r.below(3) };
            return self.chars[start..(start + len).min(self.chars.len())].iter().collect();
        }
        let len = 1 + r.below(3);
        (0..len).map(|_| LIT_ALPHA[r.below(LIT_ALPHA.len())]).collect()
    }

    fn range(&mut self) -> (char, char) {
        let r = &mut *self.r;
        const FIXED: [(char, char); 9] =
            [('a', 'c'), ('a', 'z'), ('A', 'Z'), ('é', '€'), ('\n', '\n'), ('a', '🎈'), ('c', 'a'), ('€', '🎈'), ('\u{0}', '\u{10FFFF}')];
        if r.chance(2, 3) {
            FIXED[r.below(FIXED.len())]
        } else {
            (LIT_ALPHA[r.below(LIT_ALPHA.len())], LIT_ALPHA[r.below(LIT_ALPHA.len())])
        }
    }

    fn node(&mut self, k: K) -> Op {
        self.budget -= 1;
        Op::new(k)
    }

    /// A primitive that consumes at least one char whenever it succeeds.
    fn progress_leaf(&mut self) -> Op {
        let k = match self.r.weighted(&[5, 3, 3, 4, 2]) {
            0 => K::MatchString(self.lit(false)),
            1 => {
                let l = self.lit(false);
                K::MatchInsens(flip_case(&l, self.r))
            }
            2 => {
                let (a, b) = self.range();
                K::MatchRange(a, b)
            }
            3 => K::MatchCharBy(self.r.below(6) as u8),
            _ => K::Skip(1 + self.r.below(3)),
        };
        self.node(k)
    }

    fn leaf(&mut self) -> Op {
        let stack_ready = self.pushes > 0;
        // PEEK/POP mostly after a push was generated, sometimes anyway (documented panic)
        let peekpop = if stack_ready { 6 } else { 1 };
        let w = [18, 9, 7, 7, 5, 10, 2, 3, peekpop, peekpop, 4, 3, 3, 6, 6, 4, 3, 5];
        let mut choice = self.r.weighted(&w);
        if (8..=13).contains(&choice) && !stack_ready && self.r.chance(3, 5) {
            // a stack reader with nothing pushed yet: push something first instead
            choice = 14;
        }
        let k = match choice {
            0 => K::MatchString(self.lit(true)),
            1 => {
                let l = self.lit(true);
                K::MatchInsens(flip_case(&l, self.r))
            }
            2 => {
                let (a, b) = self.range();
                K::MatchRange(a, b)
            }
            3 => K::MatchCharBy(self.r.below(6) as u8),
            4 => K::Skip(if self.r.chance(1, 10) { 17 + self.r.below(4) } else { self.r.below(5) }),
            5 => {
                let n = self.r.weighted(&[1, 4, 5, 6, 3]);
                K::SkipUntil((0..n).map(|_| self.lit(true)).collect())
            }
            6 => K::StartOfInput,
            7 => K::EndOfInput,
            8 => K::StackPeek,
            9 => K::StackPop,
            10 => K::StackDrop,
            11 => K::StackMatchPeek,
            12 => K::StackMatchPop,
            13 => {
                // mostly around the stack sizes programs reach (0..3), sometimes far out of range
                let w = if self.r.chance(7, 10) { 3 } else { 7 };
                let start = self.r.range(-w, w) as i32;
                let end = if self.r.chance(1, 3) { None } else { Some(self.r.range(-w, w) as i32) };
                K::StackMatchPeekSlice(start, end, self.r.chance(1, 2))
            }
            14 => {
                self.pushes += 1;
                if self.r.chance(1, 2) {
                    K::StackPushLiteral(LIT_POOL[self.r.below(LIT_POOL.len())].to_string())
                } else {
                    K::StackPushLiteral(self.lit(true))
                }
            }
            15 => K::TagNode(self.r.below(TAGS.len()) as u8),
            16 => K::Pass,
            _ => K::Fail,
        };
        self.node(k)
    }

    fn atomicity(&mut self) -> Atomicity {
        *self.r.pick(&[Atomicity::Atomic, Atomicity::Atomic, Atomicity::CompoundAtomic, Atomicity::NonAtomic])
    }

    fn list(&mut self, depth: usize, min: usize) -> Vec<Op> {
        let want = min + self.r.weighted(&[2, 5, 5, 3]);
        let mut v = vec![];
        for _ in 0..want {
            if self.budget <= 0 && v.len() >= min {
                break;
            }
            v.push(self.op(depth + 1));
        }
        v
    }

    /// Any operation. `depth` is the depth of the node being generated (root = 1).
    fn op(&mut self, depth: usize) -> Op {
        if depth >= MAX_DEPTH || self.budget <= 2 || self.r.chance(2, 5) {
            return self.leaf();
        }
        self.budget -= 1; // this node
        let k = match self.r.weighted(&[18, 8, 10, 12, 6, 14, 12, 6, 9, 10]) {
            0 => {
                let min = if self.r.chance(1, 20) { 0 } else { 1 };
                K::Seq(self.list(depth, min))
            }
            1 => K::Opt(Box::new(self.op(depth + 1))),
            2 => {
                if self.pushes > 0 && self.r.chance(1, 5) {
                    // a body that consumes no input but strictly shrinks the stack (`DROP*`): it ends when
                    // the stack is empty, and `repeat` must keep applying it until then
                    let body = match self.r.below(3) {
                        0 => Op::new(K::StackDrop),
                        1 => Op::new(K::Seq(vec![Op::new(K::StackDrop), Op::new(K::MatchString(String::new()))])),
                        _ => Op::new(K::Rule(*self.r.pick(&RULES), Box::new(Op::new(K::StackDrop)))),
                    };
                    K::Rep(Box::new(body))
                } else {
                    K::Rep(Box::new(self.progress(depth + 1)))
                }
            }
            3 => K::Look(self.r.chance(1, 2), Box::new(self.op(depth + 1))),
            4 => K::Atomic(self.atomicity(), Box::new(self.op(depth + 1))),
            5 => K::Rule(*self.r.pick(&RULES), Box::new(self.op(depth + 1))),
            6 => {
                self.pushes += 1;
                K::Push(Box::new(self.op(depth + 1)))
            }
            7 => K::RestoreOnErr(Box::new(self.op(depth + 1))),
            8 => {
                let min = if self.r.chance(1, 20) { 0 } else { 1 };
                K::AndThen(self.list(depth, min))
            }
            _ => K::OrElse(self.list(depth, 1)),
        };
        Op::new(k)
    }

    /// An operation that has consumed at least one char whenever it returns Ok.
    fn progress(&mut self, depth: usize) -> Op {
        if depth >= MAX_DEPTH || self.budget <= 2 || self.r.chance(1, 3) {
            return self.progress_leaf();
        }
        self.budget -= 1;
        let k = match self.r.weighted(&[10, 8, 5, 2, 3, 2, 4]) {
            // a chain in which one link (at any place) makes progress
            c @ (0 | 1) => {
                let n = 1 + self.r.below(3);
                let at = self.r.below(n);
                let mut v = vec![];
                for i in 0..n {
                    v.push(if i == at { self.progress(depth + 1) } else { self.op(depth + 1) });
                }
                if c == 0 {
                    K::Seq(v)
                } else {
                    K::AndThen(v)
                }
            }
            2 => K::Rule(*self.r.pick(&RULES), Box::new(self.progress(depth + 1))),
            3 => K::Atomic(self.atomicity(), Box::new(self.progress(depth + 1))),
            4 => {
                self.pushes += 1;
                K::Push(Box::new(self.progress(depth + 1)))
            }
            5 => K::RestoreOnErr(Box::new(self.progress(depth + 1))),
            // every alternative makes progress
            _ => {
                let n = 1 + self.r.below(2);
                K::OrElse((0..n).map(|_| self.progress(depth + 1)).collect())
            }
        };
        Op::new(k)
    }
}

impl<'a> G<'a> {
    /// A scenario aimed at the stack's checkpoint bookkeeping: values below an outer checkpoint,
    /// pushes inside it, an inner checkpoint that succeeds after popping through the outer line,
    /// then a failure that makes the outer checkpoint rewind; followed by reads of the stack.
    fn stack_scenario(&mut self) -> Op {
        let mut v = vec![];
        for _ in 0..1 + self.r.below(3) {
            v.push(Op::new(K::StackPushLiteral(self.lit(true))));
        }
        let levels = 1 + self.r.below(3);
        let mut body = self.stack_level(levels);
        // the outer checkpointing combinator, made to fail at its end (mostly)
        if self.r.chance(4, 5) {
            body.push(Op::new(K::Fail));
        } else {
            body.push(self.leaf());
        }
        let outer = match self.r.below(4) {
            0 | 1 => Op::new(K::Seq(body)),
            2 => Op::new(K::RestoreOnErr(Box::new(Op::new(K::AndThen(body))))),
            _ => Op::new(K::Look(self.r.chance(1, 2), Box::new(Op::new(K::AndThen(body))))),
        };
        v.push(if self.r.chance(1, 2) { Op::new(K::Opt(Box::new(outer))) } else { Op::new(K::OrElse(vec![outer, Op::new(K::Pass)])) });
        for _ in 0..1 + self.r.below(2) {
            v.push(match self.r.below(4) {
                0 => Op::new(K::StackMatchPeekSlice(0, None, false)),
                1 => Op::new(K::StackMatchPeek),
                2 => Op::new(K::Opt(Box::new(Op::new(K::StackDrop)))),
                _ => Op::new(K::StackMatchPeekSlice(-1, None, true)),
            });
        }
        Op::new(K::AndThen(v))
    }

    /// A scenario aimed at what a failing combinator must take back besides the position: it is entered
    /// under one atomicity (or inside a lookahead), an element of its body switches to another atomicity
    /// and emits tokens there (a rule that matches), a later element fails, and the parse goes on through
    /// another branch, so the queue and the state left behind are observed.
    fn atomicity_scenario(&mut self) -> Op {
        let outer_at = self.atomicity();
        let inner_at = self.atomicity();
        // something that very likely matches at the start of the input
        let first: String = self.chars.iter().take(1 + self.r.below(2)).collect();
        let hit = if first.is_empty() || self.r.chance(1, 4) { Op::new(K::Skip(self.r.below(2))) } else { Op::new(K::MatchString(first)) };
        let emitting = Op::new(K::Rule(*self.r.pick(&RULES), Box::new(hit)));
        let mut inner = Op::new(K::Atomic(inner_at, Box::new(emitting)));
        if self.r.chance(1, 3) {
            inner = Op::new(K::Rule(*self.r.pick(&RULES), Box::new(inner)));
        }
        let mut body = vec![];
        if self.r.chance(1, 3) {
            body.push(Op::new(K::Rule(*self.r.pick(&RULES), Box::new(Op::new(K::Pass)))));
        }
        body.push(inner);
        if self.r.chance(1, 3) {
            body.push(self.leaf());
        }
        body.push(if self.r.chance(4, 5) { Op::new(K::Fail) } else { self.leaf() });
        let failing = match self.r.below(5) {
            0 | 1 | 2 => Op::new(K::Seq(body)),
            3 => Op::new(K::RestoreOnErr(Box::new(Op::new(K::AndThen(body))))),
            _ => Op::new(K::Look(self.r.chance(1, 2), Box::new(Op::new(K::AndThen(body))))),
        };
        let recovered = if self.r.chance(1, 2) { Op::new(K::Opt(Box::new(failing))) } else { Op::new(K::OrElse(vec![failing, self.leaf()])) };
        let mut v = vec![recovered];
        if self.r.chance(1, 2) {
            v.push(self.leaf());
        }
        let inside = Op::new(K::Atomic(outer_at, Box::new(Op::new(K::AndThen(v)))));
        if self.r.chance(1, 2) {
            Op::new(K::Rule(*self.r.pick(&RULES), Box::new(inside)))
        } else {
            inside
        }
    }

    /// Operations inside a checkpoint: pushes, then a nested checkpoint that pops through.
    fn stack_level(&mut self, levels: usize) -> Vec<Op> {
        let mut ops = vec![];
        for _ in 0..self.r.below(3) {
            ops.push(Op::new(K::StackPushLiteral(self.lit(true))));
        }
        let mut inner: Vec<Op> = (0..1 + self.r.below(4)).map(|_| Op::new(K::StackDrop)).collect();
        if levels > 1 && self.r.chance(2, 3) {
            let deeper = self.stack_level(levels - 1);
            let at = self.r.below(inner.len() + 1);
            let nested = match self.r.below(3) {
                0 => Op::new(K::Seq(deeper)),
                1 => Op::new(K::RestoreOnErr(Box::new(Op::new(K::AndThen(deeper))))),
                _ => Op::new(K::Opt(Box::new(Op::new(K::Seq(deeper))))),
            };
            inner.insert(at, nested);
        }
        if self.r.chance(1, 3) {
            inner.push(Op::new(K::StackPushLiteral(self.lit(true))));
        }
        // the inner checkpoint succeeds (its drops may fail on an empty stack: then it rewinds too)
        ops.push(match self.r.below(3) {
            0 | 1 => Op::new(K::Seq(inner)),
            _ => Op::new(K::RestoreOnErr(Box::new(Op::new(K::AndThen(inner))))),
        });
        if self.r.chance(1, 3) {
            ops.push(Op::new(K::StackPushLiteral(self.lit(true))));
        }
        ops
    }
}

/// True when every `repeat` body is guaranteed to move on success (checked on replay
/// programs, which may be hand-written; generated programs satisfy it by construction).
pub fn repeats_are_guarded(op: &Op) -> bool {
    fn makes_progress(op: &Op) -> bool {
        match &op.k {
            K::MatchString(s) | K::MatchInsens(s) => !s.is_empty(),
            K::MatchRange(..) | K::MatchCharBy(_) => true,
            K::Skip(n) => *n >= 1,
            // shrinks the stack on every success: a repetition over it ends when the stack is empty
            K::StackDrop | K::StackPop => true,
            K::Seq(v) | K::AndThen(v) => v.iter().any(makes_progress),
            K::OrElse(v) => v.iter().all(makes_progress),
            K::Rule(_, b) | K::Atomic(_, b) | K::Push(b) | K::RestoreOnErr(b) => makes_progress(b),
            K::Fail => true,
            _ => false,
        }
    }
    let own = match &op.k {
        K::Rep(b) => makes_progress(b),
        _ => true,
    };
    own && op.children().iter().all(|c| repeats_are_guarded(c))
}

/// One random case: (program with ids assigned, input).
pub fn gen_case(r: &mut Rng) -> (Op, String) {
    let input = gen_input(r);
    loop {
        let chars: Vec<char> = input.chars().collect();
        let mut g = G { r: &mut *r, chars, budget: MAX_NODES as i32 - 1, pushes: 0 };
        if g.r.chance(1, 10) {
            let mut op = g.atomicity_scenario();
            let n = op.number();
            // the scenario is a fixed nest of 6-9 combinators: its own depth bound
            if n <= MAX_NODES && op.depth() <= MAX_DEPTH + 4 {
                return (op, input);
            }
            continue;
        }
        if g.r.chance(1, 6) {
            let mut op = g.stack_scenario();
            let n = op.number();
            if n <= MAX_NODES && op.depth() <= MAX_DEPTH + 4 {
                return (op, input);
            }
            continue;
        }
        // the root is always a combinator over a list, so that one-leaf programs are rare
        let k = match g.r.below(4) {
            0 => K::Seq(g.list(1, 1)),
            1 => K::AndThen(g.list(1, 1)),
            2 => K::Rule(*g.r.pick(&RULES), Box::new(g.op(2))),
            _ => K::OrElse(g.list(1, 1)),
        };
        let mut op = Op::new(k);
        let n = op.number();
        if n <= MAX_NODES && op.depth() <= MAX_DEPTH {
            debug_assert!(repeats_are_guarded(&op));
            return (op, input);
        }
    }
}
