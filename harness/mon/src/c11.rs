//! C11: `pest::Stack<T>` against the naive model of the statement, for every history.
//!
//! Oracle (exactly the statement): a `Vec` plus a stack of *full copies*. `snapshot` saves a
//! copy, `restore` reinstates the latest copy (or empties the stack when there is none),
//! `clear_snapshot` discards the latest copy (and does nothing when there is none); `pop` and
//! `peek` return the model's elements; no operation panics.
//! After EVERY operation the monitor compares `len()`, `is_empty()`, `peek()`, the full contents
//! through `stack[0..stack.len()]`, the value returned by `pop`, the number of open snapshots
//! (`verif_snapshot_depth`, hook H1d) and asks the hook `verif_check_invariants()` whether the
//! bookkeeping the struct's own documentation promises still holds.
//!
//! Workload:
//!  (a) EXHAUSTIVE: every operation history of length <= 8 (quick) / <= 10 (thorough) over the
//!      five mutating operations {push(fresh unique value), pop, snapshot, clear_snapshot,
//!      restore}. Enumerated as all maximal-length histories, judged after every operation, so
//!      every shorter history is judged as a prefix; each distinct history is *counted* once
//!      (when its last operation is new with respect to the previously enumerated history).
//!      Sharded by the base-5 index of the first three operations. Extensions of a history that
//!      already deviated are skipped (they could only repeat the same witness).
//!  (b) RANDOM: histories of 300 operations, snapshot nesting up to 20, mode-switching weights
//!      biased towards pops below the snapshot line, nested `clear_snapshot` after such pops and
//!      `restore` after `clear_snapshot`.
//!
//! Element type is `String` ("v0", "v1", ... in push order), so a wrong element is identifiable.
//! A history is non-trivial when it contains a snapshot, a pop of an element that was pushed
//! before the (then innermost) snapshot, and a later `restore`/`clear_snapshot` that closes a snapshot.
//! Replay: `{"history": ["push","pop","snapshot",...]}` (also accepted under a `witness` key).

use pest::Stack;
use serde_json::{json, Value};
use std::cell::Cell;
use std::panic::{catch_unwind, AssertUnwindSafe};
use vmon::rng::{hash_bytes, Rng};
use vmon::shard::{Args, Report};

#[derive(Clone, Copy, PartialEq, Eq, Debug)]
enum Op {
    Push = 0,
    Pop = 1,
    Snapshot = 2,
    Clear = 3,
    Restore = 4,
}

const OPS: [Op; 5] = [Op::Push, Op::Pop, Op::Snapshot, Op::Clear, Op::Restore];

impl Op {
    fn name(self) -> &'static str {
        match self {
            Op::Push => "push",
            Op::Pop => "pop",
            Op::Snapshot => "snapshot",
            Op::Clear => "clear_snapshot",
            Op::Restore => "restore",
        }
    }
    fn parse(s: &str) -> Option<Op> {
        OPS.iter().copied().find(|o| o.name() == s)
    }
}

fn history_json(ops: &[Op]) -> Value {
    Value::Array(ops.iter().map(|o| json!(o.name())).collect())
}

/// The naive model of the statement.
#[derive(Default)]
struct Model {
    cur: Vec<String>,
    copies: Vec<Vec<String>>,
}

impl Model {
    fn push(&mut self, v: String) {
        self.cur.push(v);
    }
    fn pop(&mut self) -> Option<String> {
        self.cur.pop()
    }
    fn snapshot(&mut self) {
        self.copies.push(self.cur.clone());
    }
    fn clear_snapshot(&mut self) {
        self.copies.pop();
    }
    fn restore(&mut self) {
        match self.copies.pop() {
            Some(c) => self.cur = c,
            None => self.cur.clear(),
        }
    }
}

// coverage outcomes of one step (not part of the oracle)
const K_PUSH: usize = 0;
const K_POP_SOME: usize = 1;
const K_POP_NONE: usize = 2;
const K_SNAPSHOT: usize = 3;
const K_CLEAR_SOME: usize = 4;
const K_CLEAR_NONE: usize = 5;
const K_RESTORE_SOME: usize = 6;
const K_RESTORE_NONE: usize = 7;
const K_NAMES: [&str; 8] = [
    "op:push",
    "op:pop_some",
    "op:pop_on_empty",
    "op:snapshot",
    "op:clear_snapshot",
    "op:clear_snapshot_without_snapshot",
    "op:restore",
    "op:restore_without_snapshot",
];

// behaviour-signature bits of a history
const B_POP_BELOW: u32 = 1 << 8; // popped an element pushed before the innermost open snapshot
const B_CLOSED_AFTER_BELOW: u32 = 1 << 9; // ... and later a snapshot was closed (non-trivial)
const B_NESTED_CLEAR_AFTER_BELOW: u32 = 1 << 10; // clear at depth >= 2 while the innermost snapshot has pops below its line
const B_RESTORE_AFTER_CLEAR: u32 = 1 << 11; // restore of a snapshot after an inner one was cleared
const B_REPUSH_AFTER_BELOW: u32 = 1 << 12; // push while the innermost snapshot has pops below its line
const B_RESTORE_AFTER_BELOW: u32 = 1 << 13; // restore of a snapshot that has pops below its line
const B_DEPTH2: u32 = 1 << 14;
const B_DEPTH3: u32 = 1 << 15;
const B_DEPTH5: u32 = 1 << 16;

/// One execution: the real stack, the model and the coverage tracker, advanced in lock step.
struct Exec {
    real: Stack<String>,
    model: Model,
    next_id: u32,
    /// per open snapshot (coverage tracking only)
    open: Vec<Snap>,
    bits: u32,
    max_depth: usize,
    last_kind: usize,
    /// how often the hook complained about an outer snapshot (see `compare`)
    hook_overstrict: Cell<u64>,
}

#[derive(Clone, Copy)]
struct Snap {
    /// id the next push would have got when the snapshot was taken
    next_id: u32,
    /// smallest id popped while this snapshot (or one cleared into it) was innermost
    min_popped: u32,
    /// an inner snapshot was cleared into this one
    cleared_into: bool,
}

impl Snap {
    /// some element that existed when the snapshot was taken has been popped since
    fn below(&self) -> bool {
        self.min_popped < self.next_id
    }
}

struct Mismatch {
    check: &'static str,
    expected: Value,
    observed: Value,
}

impl Exec {
    fn new() -> Exec {
        Exec { real: Stack::new(), model: Model::default(), next_id: 0, open: vec![], bits: 0, max_depth: 0, last_kind: 0, hook_overstrict: Cell::new(0) }
    }

    fn nontrivial(&self) -> bool {
        self.bits & B_CLOSED_AFTER_BELOW != 0
    }

    /// Applies `op` to both sides and compares everything observable.
    fn step(&mut self, op: Op) -> Result<(), Mismatch> {
        match op {
            Op::Push => {
                let v = format!("v{}", self.next_id);
                self.next_id += 1;
                self.real.push(v.clone());
                self.model.push(v);
                self.last_kind = K_PUSH;
                if let Some(top) = self.open.last() {
                    if top.below() {
                        self.bits |= B_REPUSH_AFTER_BELOW;
                    }
                }
            }
            Op::Pop => {
                let got = self.real.pop();
                let want = self.model.pop();
                if got != want {
                    return Err(Mismatch { check: "pop_result", expected: json!(want), observed: json!(got) });
                }
                match &want {
                    Some(v) => {
                        self.last_kind = K_POP_SOME;
                        let id: u32 = v[1..].parse().unwrap_or(u32::MAX);
                        if let Some(top) = self.open.last_mut() {
                            top.min_popped = top.min_popped.min(id);
                            if id < top.next_id {
                                self.bits |= B_POP_BELOW;
                            }
                        }
                    }
                    None => self.last_kind = K_POP_NONE,
                }
            }
            Op::Snapshot => {
                self.real.snapshot();
                self.model.snapshot();
                self.open.push(Snap { next_id: self.next_id, min_popped: u32::MAX, cleared_into: false });
                self.last_kind = K_SNAPSHOT;
                let d = self.open.len();
                self.max_depth = self.max_depth.max(d);
                if d >= 2 {
                    self.bits |= B_DEPTH2;
                }
                if d >= 3 {
                    self.bits |= B_DEPTH3;
                }
                if d >= 5 {
                    self.bits |= B_DEPTH5;
                }
            }
            Op::Clear => {
                self.real.clear_snapshot();
                self.model.clear_snapshot();
                match self.open.pop() {
                    Some(inner) => {
                        self.last_kind = K_CLEAR_SOME;
                        if self.bits & B_POP_BELOW != 0 {
                            self.bits |= B_CLOSED_AFTER_BELOW;
                        }
                        if let Some(parent) = self.open.last_mut() {
                            parent.cleared_into = true;
                            // what was popped under the inner snapshot stays popped for the parent
                            parent.min_popped = parent.min_popped.min(inner.min_popped);
                            if inner.below() {
                                self.bits |= B_NESTED_CLEAR_AFTER_BELOW;
                            }
                        }
                    }
                    None => self.last_kind = K_CLEAR_NONE,
                }
            }
            Op::Restore => {
                self.real.restore();
                self.model.restore();
                match self.open.pop() {
                    Some(s) => {
                        self.last_kind = K_RESTORE_SOME;
                        if self.bits & B_POP_BELOW != 0 {
                            self.bits |= B_CLOSED_AFTER_BELOW;
                        }
                        if s.below() {
                            self.bits |= B_RESTORE_AFTER_BELOW;
                        }
                        if s.cleared_into {
                            self.bits |= B_RESTORE_AFTER_CLEAR;
                        }
                    }
                    None => self.last_kind = K_RESTORE_NONE,
                }
            }
        }
        self.bits |= 1 << self.last_kind;
        self.compare()
    }

    fn compare(&self) -> Result<(), Mismatch> {
        let n = self.real.len();
        if n != self.model.cur.len() {
            return Err(Mismatch { check: "len", expected: json!(self.model.cur.len()), observed: json!(n) });
        }
        if self.real.is_empty() != self.model.cur.is_empty() {
            return Err(Mismatch { check: "is_empty", expected: json!(self.model.cur.is_empty()), observed: json!(self.real.is_empty()) });
        }
        if self.real.peek() != self.model.cur.last() {
            return Err(Mismatch { check: "peek", expected: json!(self.model.cur.last()), observed: json!(self.real.peek()) });
        }
        let contents: &[String] = &self.real[0..n];
        if contents != self.model.cur.as_slice() {
            return Err(Mismatch { check: "contents", expected: json!(self.model.cur), observed: json!(contents) });
        }
        let depth = self.real.verif_snapshot_depth();
        if depth != self.model.copies.len() {
            return Err(Mismatch { check: "snapshot_depth", expected: json!(self.model.copies.len()), observed: json!(depth) });
        }
        if let Err(msg) = self.real.verif_check_invariants() {
            // The hook (H1d) compares `remained` of EVERY open snapshot with the live length, but the
            // field documentation defines `remained` of an outer snapshot as the elements "still in
            // [the] next snapshot" - after `push, snapshot, snapshot, pop` the outer snapshot
            // legitimately keeps remained = 1 > 0 live elements. That message about a non-innermost
            // snapshot is therefore a false alarm of the hook, not of pest: it is counted, and the
            // documented bookkeeping is re-checked here from the `Debug` rendering of the stack
            // (the hook stops at its first complaint, so it would otherwise mask real damage).
            if hook_overstrict(&msg, depth) {
                self.hook_overstrict.set(self.hook_overstrict.get() + 1);
                if let Some(problem) = documented_bookkeeping(&format!("{:?}", self.real), n) {
                    return Err(Mismatch { check: "documented_invariant", expected: json!("bookkeeping documented on the fields of Stack"), observed: json!(problem) });
                }
            } else {
                return Err(Mismatch { check: "documented_invariant", expected: json!("verif_check_invariants() == Ok"), observed: json!(msg) });
            }
        }
        Ok(())
    }
}

/// "snapshot {i}: remained {r} > cache {c}" about a snapshot that is not the innermost one.
fn hook_overstrict(msg: &str, depth: usize) -> bool {
    let Some(rest) = msg.strip_prefix("snapshot ") else { return false };
    let Some((idx, tail)) = rest.split_once(':') else { return false };
    let Ok(i) = idx.trim().parse::<usize>() else { return false };
    tail.contains("> cache") && i + 1 < depth
}

/// Re-checks, from `{:?}` of the stack, what the field documentation of `Stack` promises:
/// `len >= remained` for every snapshot, `remained` counts elements still present in the next
/// snapshot (or in the live stack for the innermost one), and
/// `popped.len() == sum(len - remained)`. Returns a description of the first breach.
/// `None` also when the rendering cannot be read (then nothing is claimed).
fn documented_bookkeeping(dbg: &str, live_len: usize) -> Option<String> {
    let p0 = dbg.find("popped: [")? + "popped: [".len();
    let l0 = dbg.find("], lengths: [")?;
    if l0 < p0 {
        return None;
    }
    let popped = dbg[p0..l0].matches('"').count() / 2;
    let mut nums: Vec<usize> = vec![];
    let mut cur = String::new();
    for ch in dbg[l0 + "], lengths: [".len()..].chars() {
        if ch.is_ascii_digit() {
            cur.push(ch);
        } else if !cur.is_empty() {
            nums.push(cur.parse().ok()?);
            cur.clear();
        }
    }
    if nums.len() % 2 != 0 {
        return None;
    }
    let pairs: Vec<(usize, usize)> = nums.chunks(2).map(|c| (c[0], c[1])).collect();
    let mut total = 0;
    for (i, &(len, remained)) in pairs.iter().enumerate() {
        if remained > len {
            return Some(format!("snapshot {i}: remained {remained} > len {len} in {dbg}"));
        }
        let next = pairs.get(i + 1).map(|p| p.0).unwrap_or(live_len);
        if remained > next {
            return Some(format!("snapshot {i}: remained {remained} > {next} elements of the next state in {dbg}"));
        }
        total += len - remained;
    }
    if total != popped {
        return Some(format!("popped holds {popped} elements, snapshots account for {total} in {dbg}"));
    }
    None
}

#[derive(Default)]
struct Local {
    hook_overstrict: u64,
    kinds: [u64; 8],
    evaluations: u64,
    operations: u64,
}

impl Local {
    fn flush(&mut self, rep: &mut Report, prefix: &str) {
        rep.add("evaluations", self.evaluations);
        rep.add(&format!("{prefix}histories"), self.evaluations);
        rep.add("operations_checked", self.operations);
        if self.hook_overstrict > 0 {
            rep.add("hook_false_alarm:outer_snapshot_remained_vs_live_length(rechecked_from_Debug)", self.hook_overstrict);
        }
        for (i, n) in K_NAMES.iter().enumerate() {
            if self.kinds[i] > 0 {
                rep.add(n, self.kinds[i]);
            }
        }
        *self = Local::default();
    }
}

fn violation(rep: &mut Report, part: &str, ops: &[Op], step: usize, check: &str, expected: Value, observed: Value) {
    rep.violation(json!({
        "property": "C11",
        "part": part,
        "history": history_json(&ops[..=step]),
        "step": step,
        "check": check,
        "expected": expected,
        "observed": observed,
    }));
}

fn sig_of(bits: u32) -> u64 {
    hash_bytes(&[&bits.to_le_bytes()])
}

fn case_hash(ops: &[Op]) -> u64 {
    let bytes: Vec<u8> = ops.iter().map(|o| *o as u8).collect();
    hash_bytes(&[&bytes])
}

/// Runs `ops` from a fresh stack, judging after every operation. Distinct-history accounting
/// (evaluation count, coverage, non-trivial registration) is done for steps >= `new_from` only.
/// Returns the index of the first deviating step, if any (already reported).
fn run_history(rep: &mut Report, loc: &mut Local, part: &str, ops: &[Op], new_from: usize) -> Option<usize> {
    let step_no = Cell::new(0usize);
    let mut ex = Exec::new();
    let mut pending: Vec<(usize, u32)> = vec![]; // (prefix length, bits) of non-trivial prefixes
    let result = catch_unwind(AssertUnwindSafe(|| -> Result<(), (usize, Mismatch)> {
        for (i, op) in ops.iter().enumerate() {
            step_no.set(i);
            ex.step(*op).map_err(|m| (i, m))?;
            loc.operations += 1;
            if i >= new_from {
                loc.evaluations += 1;
                loc.kinds[ex.last_kind] += 1;
                if ex.nontrivial() {
                    pending.push((i + 1, ex.bits));
                }
            }
        }
        Ok(())
    }));
    loc.hook_overstrict += ex.hook_overstrict.get();
    for (n, bits) in pending {
        rep.nontrivial(case_hash(&ops[..n]), sig_of(bits));
    }
    match result {
        Ok(Ok(())) => None,
        Ok(Err((i, m))) => {
            violation(rep, part, ops, i, m.check, m.expected, m.observed);
            Some(i)
        }
        Err(p) => {
            let i = step_no.get();
            violation(rep, part, ops, i, "no_panic", json!("no operation panics"), json!({"panic": vmon::pestrun::panic_message(&p)}));
            Some(i)
        }
    }
}

const PREFIX: usize = 3; // operations that select the shard

fn exhaustive(args: &Args, rep: &mut Report, n: usize) {
    let mut loc = Local::default();
    let mut complete = true;
    // the histories shorter than the sharding prefix belong to shard 0
    if args.shard == 0 {
        let mut short: Vec<Vec<Op>> = vec![vec![]];
        let mut frontier: Vec<Vec<Op>> = vec![vec![]];
        for _ in 1..PREFIX {
            let mut next = vec![];
            for h in &frontier {
                for op in OPS {
                    let mut h2 = h.clone();
                    h2.push(op);
                    next.push(h2);
                }
            }
            short.extend(next.iter().cloned());
            frontier = next;
        }
        for h in &short {
            if h.is_empty() {
                // the empty history: a fresh stack must equal the fresh model
                loc.evaluations += 1;
                if let Err(m) = Exec::new().compare() {
                    rep.violation(json!({"property":"C11","part":"exhaustive","history":[],"step":0,"check":m.check,"expected":m.expected,"observed":m.observed}));
                }
            } else {
                // only the last step is a new distinct history here
                run_history(rep, &mut loc, "exhaustive", h, h.len() - 1);
            }
        }
    }
    let blocks = 5usize.pow(PREFIX as u32);
    let mut tick = 0u32;
    'blocks: for block in 0..blocks {
        if (block as u64) % args.nshards != args.shard {
            continue;
        }
        let mut digits = vec![0u8; n];
        let mut b = block;
        for i in (0..PREFIX).rev() {
            digits[i] = (b % 5) as u8;
            b /= 5;
        }
        let mut new_from = PREFIX - 1; // histories of length PREFIX.. are new in this block
        loop {
            tick = tick.wrapping_add(1);
            if tick % 4096 == 0 && rep.elapsed() > args.max_s {
                complete = false;
                break 'blocks;
            }
            let ops: Vec<Op> = digits.iter().map(|d| OPS[*d as usize]).collect();
            let bad = run_history(rep, &mut loc, "exhaustive", &ops, new_from);
            if let Some(k) = bad {
                // every extension of a deviating history is skipped
                if k < PREFIX {
                    continue 'blocks;
                }
                for d in digits.iter_mut().skip(k + 1) {
                    *d = 4;
                }
            }
            // odometer over digits[PREFIX..n]
            let mut i = n;
            loop {
                if i == PREFIX {
                    continue 'blocks;
                }
                i -= 1;
                if digits[i] < 4 {
                    digits[i] += 1;
                    new_from = i;
                    break;
                }
                digits[i] = 0;
            }
        }
    }
    loc.flush(rep, "exhaustive_");
    rep.notes.insert("exhaustive_max_history_length".into(), json!(n));
    if !complete {
        rep.inconclusive(json!({"why": "time budget reached before the exhaustive enumeration of this shard finished", "max_s": args.max_s}));
    }
}

const MODES: [[u32; 5]; 5] = [
    // push pop snapshot clear restore
    [6, 1, 2, 1, 1], // grow
    [1, 7, 2, 1, 1], // dig (pop below the snapshot line)
    [2, 2, 6, 1, 1], // nest
    [1, 2, 1, 5, 4], // unwind
    [3, 3, 2, 2, 2], // mixed
];
const DEPTH_CAPS: [usize; 8] = [1, 2, 3, 5, 8, 12, 20, 20];

fn random_history(rep: &mut Report, loc: &mut Local, rng: &mut Rng, len: usize, depth_hist: &mut [u64; 21]) {
    let cap = *rng.pick(&DEPTH_CAPS);
    let mut ops: Vec<Op> = Vec::with_capacity(len);
    let step_no = Cell::new(0usize);
    let mut ex = Exec::new();
    let result = catch_unwind(AssertUnwindSafe(|| -> Result<(), (usize, Mismatch)> {
        let mut mode = 0usize;
        let mut left = 3 + rng.below(6);
        let mut after_clear = false;
        for i in 0..len {
            if left == 0 {
                mode = rng.below(MODES.len());
                left = 2 + rng.below(14);
            }
            left -= 1;
            let mut w = MODES[mode];
            let depth = ex.open.len();
            if depth >= cap {
                w[2] = 0;
            }
            if depth < cap && cap >= 12 {
                w[2] *= 2; // deep-nesting histories need to climb
            }
            if let Some(top) = ex.open.last() {
                if top.below() && depth >= 2 {
                    w[3] *= 4; // nested clear after pops below the line
                }
                if top.below() {
                    w[0] += 2; // re-push over popped originals
                }
            }
            if after_clear && depth >= 1 {
                w[4] *= 4; // restore after clear
            }
            if ex.model.cur.is_empty() {
                w[1] = w[1].min(1);
            }
            let op = OPS[rng.weighted(&w)];
            after_clear = (op == Op::Clear && depth >= 1) || (after_clear && op != Op::Restore && rng.chance(2, 3));
            ops.push(op);
            step_no.set(i);
            ex.step(op).map_err(|m| (i, m))?;
            loc.operations += 1;
            loc.kinds[ex.last_kind] += 1;
        }
        Ok(())
    }));
    loc.evaluations += 1;
    loc.hook_overstrict += ex.hook_overstrict.get();
    depth_hist[ex.max_depth.min(20)] += 1;
    if ex.bits & B_POP_BELOW != 0 {
        rep.count("random_histories_popping_below_a_snapshot_line");
    }
    if ex.bits & B_NESTED_CLEAR_AFTER_BELOW != 0 {
        rep.count("random_histories_with_nested_clear_after_pop_below");
    }
    if ex.bits & B_RESTORE_AFTER_CLEAR != 0 {
        rep.count("random_histories_with_restore_after_clear");
    }
    if ex.nontrivial() {
        rep.nontrivial(case_hash(&ops), sig_of(ex.bits));
        rep.sample_slot("random", || json!({"history_prefix": history_json(&ops[..ops.len().min(40)]), "length": ops.len(), "max_depth": ex.max_depth}));
    }
    match result {
        Ok(Ok(())) => {}
        Ok(Err((i, m))) => violation(rep, "random", &ops, i, m.check, m.expected, m.observed),
        Err(p) => {
            let i = step_no.get().min(ops.len().saturating_sub(1));
            violation(rep, "random", &ops, i, "no_panic", json!("no operation panics"), json!({"panic": vmon::pestrun::panic_message(&p)}));
        }
    }
}

pub fn run(args: &Args) {
    let mut rep = Report::new(args);
    if let Some(path) = &args.replay {
        replay(&mut rep, path);
        rep.finish(args);
        return;
    }
    // (a) exhaustive
    let n = match args.opt("max-len").and_then(|s| s.parse::<usize>().ok()) {
        Some(n) => n.max(PREFIX),
        None => {
            if args.thorough {
                10
            } else {
                8
            }
        }
    };
    exhaustive(args, &mut rep, n);
    rep.sample_slot("exhaustive", || json!({"note": "all histories over {push,pop,snapshot,clear_snapshot,restore} up to the stated length; e.g.", "history": ["push", "snapshot", "snapshot", "pop", "clear_snapshot", "restore"]}));

    // (b) random
    let mut rng = Rng::new(args.seed, "c11", args.shard);
    let total = args.budget(20_000, 2_000_000);
    let mut loc = Local::default();
    let mut depth_hist = [0u64; 21];
    let mut done = 0u64;
    for i in 0..total {
        if i % 64 == 0 && rep.elapsed() > args.max_s {
            rep.notes.insert("random_stopped_early_at_history".into(), json!(i));
            break;
        }
        let mut hr = rng.fork();
        random_history(&mut rep, &mut loc, &mut hr, 300, &mut depth_hist);
        done += 1;
    }
    loc.flush(&mut rep, "random_");
    let mut max_depth = 0;
    for (d, c) in depth_hist.iter().enumerate() {
        if *c > 0 {
            rep.add(&format!("random_histories_by_max_nesting_depth:{d:02}"), *c);
            max_depth = d;
        }
    }
    rep.notes.insert("random_max_nesting_depth_seen".into(), json!(max_depth));
    rep.notes.insert("random_histories_requested".into(), json!(total));
    rep.notes.insert("random_histories_run".into(), json!(done));
    rep.finish(args);
}

fn replay(rep: &mut Report, path: &std::path::Path) {
    let v: Value = serde_json::from_str(&std::fs::read_to_string(path).expect("replay file")).expect("json");
    let h = if v["history"].is_array() { &v["history"] } else { &v["witness"]["history"] };
    let mut ops = vec![];
    for x in h.as_array().cloned().unwrap_or_default() {
        match x.as_str().and_then(Op::parse) {
            Some(op) => ops.push(op),
            None => {
                rep.notes.insert("replay_unknown_operation".into(), x.clone());
                return;
            }
        }
    }
    let mut loc = Local::default();
    if ops.is_empty() {
        loc.evaluations += 1;
        if let Err(m) = Exec::new().compare() {
            rep.violation(json!({"property":"C11","part":"replay","history":[],"step":0,"check":m.check,"expected":m.expected,"observed":m.observed}));
        }
    } else {
        run_history(rep, &mut loc, "replay", &ops, ops.len() - 1);
    }
    loc.flush(rep, "replay_");
}
