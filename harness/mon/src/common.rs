//! Helpers shared by the per-property monitors in this binary.

use pest_meta::ast::Rule;
use pest_meta::optimizer::OptimizedRule;
use serde_json::{json, Value};
use vmon::model::Outcome;

pub fn config_name() -> &'static str {
    if cfg!(feature = "grammar-extras") {
        "grammar-extras"
    } else {
        "default"
    }
}

/// Reads a grammar text the way pest does. Err = rejected (messages).
pub fn read_grammar(text: &str) -> Result<(Vec<Rule>, Vec<OptimizedRule>), Vec<String>> {
    // a panic of the front-end is C09's business; everybody else treats it as a rejection
    match std::panic::catch_unwind(|| read_grammar_inner(text)) {
        Ok(r) => r,
        Err(p) => Err(vec![format!("front-end panicked: {}", vmon::pestrun::panic_message(&p))]),
    }
}

fn read_grammar_inner(text: &str) -> Result<(Vec<Rule>, Vec<OptimizedRule>), Vec<String>> {
    let optimized = match pest_meta::parse_and_optimize(text) {
        Ok((_, o)) => o,
        Err(es) => return Err(es.iter().map(|e| e.variant.message().to_string()).collect()),
    };
    let pairs = pest_meta::parser::parse(pest_meta::parser::Rule::grammar_rules, text).map_err(|e| vec![e.to_string()])?;
    let ast = pest_meta::parser::consume_rules(pairs).map_err(|es| es.iter().map(|e| e.to_string()).collect::<Vec<_>>())?;
    Ok((ast, optimized))
}

pub fn outcome_json(o: &Outcome) -> Value {
    match o {
        Outcome::Match { toks, end, stack } => json!({"kind":"match","end":end,"tokens":vmon::model::toks_to_string(toks),"stack":stack}),
        Outcome::NoMatch => json!({"kind":"nomatch"}),
        Outcome::Panic(m) => json!({"kind":"panic","message":m}),
        Outcome::Diverges(m) => json!({"kind":"diverges","message":m}),
        Outcome::Budget => json!({"kind":"budget"}),
    }
}

/// Runs `f` on a thread with a large stack (recursive descent depth is input dependent).
pub fn with_big_stack<T: Send + 'static>(f: impl FnOnce() -> T + Send + 'static) -> T {
    std::thread::Builder::new().stack_size(if cfg!(miri) { 1 << 23 } else { 1 << 30 }).spawn(f).unwrap().join().unwrap()
}
