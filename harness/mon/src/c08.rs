//! C08: failure reports point at the furthest failure with sound expectations.
//! Offline checker (vmon::errcheck) over the RuleEnter/RuleExit log of each failing VM parse.

use crate::common::*;
use serde_json::{json, Value};
use vmon::gen::{gen_grammar, GenCfg, Profile};
use vmon::model::Outcome;
use vmon::pestrun::run_vm;
use vmon::rng::{hash_bytes, Rng};
use vmon::shard::{Args, Report};

fn naive_line_col(input: &str, pos: usize) -> (usize, usize) {
    let before = &input[..pos];
    let line = 1 + before.matches('\n').count();
    let col = 1 + before.rsplit('\n').next().unwrap_or("").chars().count();
    (line, col)
}

type Types = std::collections::HashMap<String, pest_meta::ast::RuleType>;

fn types_of(rules: &[pest_meta::ast::Rule]) -> Types {
    rules.iter().map(|r| (r.name.clone(), r.ty)).collect()
}

fn check_case(rep: &mut Report, text: &str, vm: &pest_vm::Vm, types: &Types, rule: &str, input: &str, detail: bool) {
    // the process-wide "detailed errors" switch must not change what is reported (one shard = one thread)
    pest::set_error_detail(detail);
    let run = run_vm(vm, rule, input, 1_000_000, true);
    pest::set_error_detail(false);
    rep.count("evaluations");
    if detail {
        rep.count("evaluations_with_error_detail_on");
    }
    match run.outcome {
        Outcome::NoMatch => {}
        Outcome::Budget => {
            rep.count("skipped_call_limit");
            return;
        }
        _ => {
            rep.count("not_a_failing_parse");
            return;
        }
    }
    if run.events_overflowed {
        rep.inconclusive(json!({"why":"event cap reached","grammar":text,"rule":rule,"input":input}));
        return;
    }
    let err = run.err.clone().unwrap();
    if err.custom.is_some() {
        rep.count("custom_error");
        return;
    }
    rep.count("failing_parses_checked");
    rep.add("events_recorded", run.events.len() as u64);
    let acts = match vmon::errcheck::activations(&run.events) {
        Ok(a) => a,
        Err(m) => {
            rep.inconclusive(json!({"why": format!("event log not well nested: {m}"), "grammar": text, "rule": rule, "input": input}));
            return;
        }
    };
    let mut problems = vmon::errcheck::check(&acts, &err, |l| l.windows(2).all(|w| w[0] < w[1]));
    problems.extend(vmon::errcheck::check_atomicity(&run.events, types));
    if err.pos > input.len() || !input.is_char_boundary(err.pos) {
        problems.push(format!("reported position {} is not a char boundary of the input", err.pos));
    } else if err.line_col != naive_line_col(input, err.pos) {
        problems.push(format!("line/column {:?} differs from the naive count {:?}", err.line_col, naive_line_col(input, err.pos)));
    }
    let q = acts.iter().filter(|a| a.qualifies().is_some()).count();
    let negs = acts.iter().filter(|a| a.qualifies() == Some(true)).count();
    if !problems.is_empty() {
        let log: Vec<String> = acts.iter().map(|a| format!("{}@{} ok={} la={} at={}", a.rule, a.start, a.ok, a.lookahead, a.atomicity)).take(60).collect();
        rep.violation(json!({"property":"C08","config":config_name(),"backend":"vm","grammar":text,"rule":rule,"input":input,"error_detail":detail,
            "expected": problems, "observed": {"pos": err.pos, "positives": err.positives, "negatives": err.negatives}, "activations_in_exit_order": log}));
        return;
    }
    if q >= 2 && !input.is_empty() {
        let h = hash_bytes(&[text.as_bytes(), rule.as_bytes(), input.as_bytes()]);
        let sig = hash_bytes(&[&[(err.positives.len().min(5)) as u8, (err.negatives.len().min(5)) as u8, (negs > 0) as u8, (err.pos > 0) as u8, q.min(12) as u8]]);
        rep.nontrivial(h, sig);
        if !err.negatives.is_empty() {
            rep.count("reports_with_unexpected_rules");
        }
        if err.positives.len() > 1 {
            rep.count("reports_with_several_expected_rules");
        }
        if err.pos > 0 {
            rep.count("reports_past_position_0");
        }
        rep.sample_slot(&format!("p{}n{}", err.positives.len().min(2), err.negatives.len().min(1)), || {
            json!({"grammar": text, "rule": rule, "input": input, "reported": {"pos": err.pos, "positives": err.positives, "negatives": err.negatives}, "qualifying_activations": q})
        });
    }
}

pub fn run(args: &Args) {
    let mut rep = Report::new(args);
    if let Some(path) = &args.replay {
        let v: Value = serde_json::from_str(&std::fs::read_to_string(path).expect("replay file")).expect("json");
        let w = if v["witness"].is_object() { v["witness"].clone() } else { v.clone() };
        if let Ok((ast, opt)) = read_grammar(w["grammar"].as_str().unwrap()) {
            let vm = pest_vm::Vm::new(opt);
            check_case(&mut rep, w["grammar"].as_str().unwrap(), &vm, &types_of(&ast), w["rule"].as_str().unwrap(), w["input"].as_str().unwrap(), w["error_detail"].as_bool().unwrap_or(false));
        }
        rep.finish(args);
        return;
    }
    let mut rng = Rng::new(args.seed, "c08", args.shard);
    let n_grammars = args.budget(20_000, 1_500_000);
    let mut cfg = GenCfg::new(Profile::Full);
    cfg.max_rules = 6;
    cfg.negpred_pct = 12;
    for gi in 0..n_grammars {
        if rep.elapsed() > args.max_s {
            rep.notes.insert("stopped_early_at_grammar".into(), json!(gi));
            break;
        }
        let mut grng = rng.fork();
        let gcfg = cfg.vary(&mut grng);
        let rules = gen_grammar(&mut grng, &gcfg);
        let text = vmon::print::rules_to_string(&rules);
        let Ok((ast, optimized)) = read_grammar(&text) else {
            rep.count("grammars_rejected_by_pest");
            continue;
        };
        let (inputs, _, _) = vmon::inputs::inputs_for(&ast, &mut grng, 12, 2, 60);
        let vm = pest_vm::Vm::new(optimized);
        let types = types_of(&ast);
        let detail = gi % 4 == 3;
        rep.count("grammars_used");
        for r in &ast {
            for input in &inputs {
                let mut rf = vmon::reference::Ref::new(&ast, input);
                rf.max_steps = 50_000;
                if !matches!(rf.parse(&r.name), Outcome::NoMatch) {
                    // only failing parses matter here; divergent/over-budget ones are never run
                    continue;
                }
                rep.journal(|| json!({"grammar": text, "rule": r.name, "input": input}));
                check_case(&mut rep, &text, &vm, &types, &r.name, input, detail);
            }
        }
    }
    rep.finish(args);
}
