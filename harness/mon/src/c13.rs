//! C13: PrattParser / ConstPrattParser / PrecClimber build the precedence-correct tree.
//!
//! Observed: the tree each parser builds through its `map_*` callbacks for an operator table and a
//! well-formed token sequence. Tokens are `Pair`s made with `PairsBuilder` over a dummy input; token
//! `i` spans bytes `[i, i+1)`, so a callback identifies *which token* it was handed by the span start.
//!
//! Oracle (written from the property statement, not from pest's code): an explicit-stack
//! shunting-yard. An operator of level p has left power p (infix, postfix) and right power p
//! (left-associative infix) or "just below p" (right-associative infix, prefix). Powers are doubled
//! so that "just below p" is the integer 2p-1. An incoming infix/postfix operator with left power L
//! first reduces every stacked operator whose right power is >= L (on a tie the operator on the left
//! keeps its operand: that is what makes `a - b - c` group to the left), a prefix operator reduces
//! nothing (it has no left operand), a postfix operator is applied at once (it has no right operand).
//!
//! Independent of the oracle, every tree is checked structurally: in-order leaves are operand
//! 0,1,2,..; every operator token occurs exactly once and in a node of its own kind.
//!
//! Choices where the statement is silent:
//! * ConstPrattParser is run with N = number of operators in the table, and (random part, 1 in 4)
//!   with N padded by operators that never occur in the sequence; both are "the same table".
//! * Only well-formed sequences are fed (pest documents panics for malformed ones); a panic on a
//!   well-formed sequence is a violation.

use pest::iterators::{Pair, Pairs, PairsBuilder};
use pest::pratt_parser::{Assoc, ConstPrattParser, Op, PrattParser};
use serde_json::{json, Value};
use std::cell::Cell;
use std::panic::{catch_unwind, AssertUnwindSafe};
use vmon::rng::{hash_bytes, Rng};
use vmon::shard::{Args, Report};

#[derive(Clone, Copy, Debug, PartialEq, Eq, Hash, PartialOrd, Ord)]
#[rustfmt::skip]
enum R { Num, Op0, Op1, Op2, Op3, Op4, Op5, Op6, Op7, Op8, Op9, Op10, Op11, Op12, Op13, Op14, Op15, Op16, Op17, Op18, Op19, Op20, Op21, Op22, Op23, Op24, Op25, Op26, Op27, Op28, Op29, Op30, Op31, Op32, Op33, Op34, Op35, Op36, Op37, Op38, Op39, Op40, Op41, Op42, Op43, Op44, Op45, Op46, Op47 }

const NOPS: usize = 48;
#[rustfmt::skip]
const OPS: [R; NOPS] = [R::Op0, R::Op1, R::Op2, R::Op3, R::Op4, R::Op5, R::Op6, R::Op7, R::Op8, R::Op9, R::Op10, R::Op11, R::Op12, R::Op13, R::Op14, R::Op15, R::Op16, R::Op17, R::Op18, R::Op19, R::Op20, R::Op21, R::Op22, R::Op23, R::Op24, R::Op25, R::Op26, R::Op27, R::Op28, R::Op29, R::Op30, R::Op31, R::Op32, R::Op33, R::Op34, R::Op35, R::Op36, R::Op37, R::Op38, R::Op39, R::Op40, R::Op41, R::Op42, R::Op43, R::Op44, R::Op45, R::Op46, R::Op47];
/// Token value of an operand in a sequence (operators are their rule index 0..48).
const NUM: i8 = -1;
const MAX_TOKENS: usize = 40;
/// Dummy input: token i is the i-th byte.
const INPUT: &str = "xxxxxxxxxxxxxxxxxxxxxxxxxxxxxxxxxxxxxxxxxxxxxxxxxxxxxxxxxxxxxxxx";

#[derive(Clone, Copy, Debug, PartialEq, Eq, Hash, PartialOrd, Ord)]
enum Kind {
    Prefix,
    Postfix,
    InfixL,
    InfixR,
}
const KINDS: [Kind; 4] = [Kind::Prefix, Kind::Postfix, Kind::InfixL, Kind::InfixR];

impl Kind {
    fn name(self) -> &'static str {
        match self {
            Kind::Prefix => "prefix",
            Kind::Postfix => "postfix",
            Kind::InfixL => "infixl",
            Kind::InfixR => "infixr",
        }
    }
    fn parse(s: &str) -> Option<Kind> {
        KINDS.iter().copied().find(|k| k.name() == s)
    }
    fn is_infix(self) -> bool {
        matches!(self, Kind::InfixL | Kind::InfixR)
    }
}

/// Levels lowest first; each level a list of (rule index, kind). A rule occurs at most once.
#[derive(Clone, Debug, PartialEq, Eq)]
struct Table {
    levels: Vec<Vec<(usize, Kind)>>,
}

impl Table {
    /// rule index -> (kind, level starting at 1)
    fn lookup(&self) -> [Option<(Kind, u32)>; NOPS] {
        let mut t = [None; NOPS];
        for (li, l) in self.levels.iter().enumerate() {
            for (r, k) in l {
                t[*r] = Some((*k, li as u32 + 1));
            }
        }
        t
    }
    fn n_ops(&self) -> usize {
        self.levels.iter().map(|l| l.len()).sum()
    }
    fn mixed_level(&self) -> bool {
        self.levels.iter().any(|l| l.iter().any(|(_, k)| *k != l[0].1))
    }
    /// PrecClimber's domain: infix only, one associativity per level.
    fn climber_ok(&self) -> bool {
        self.levels.iter().all(|l| l.iter().all(|(_, k)| k.is_infix() && *k == l[0].1))
    }
    fn to_json(&self) -> Value {
        Value::Array(
            self.levels
                .iter()
                .map(|l| Value::Array(l.iter().map(|(r, k)| json!({"rule": r, "kind": k.name()})).collect()))
                .collect(),
        )
    }
    fn from_json(v: &Value) -> Option<Table> {
        Table::from_json_with(v, false)
    }
    /// `dups`: a rule may be declared more than once (the tables of the re-declaration family).
    fn from_json_with(v: &Value, dups: bool) -> Option<Table> {
        let mut levels = vec![];
        let mut seen = [false; NOPS];
        for l in v.as_array()? {
            let mut lv = vec![];
            for o in l.as_array()? {
                let r = o["rule"].as_u64()? as usize;
                if r >= NOPS || (seen[r] && !dups) {
                    return None;
                }
                seen[r] = true;
                lv.push((r, Kind::parse(o["kind"].as_str()?)?));
            }
            if lv.is_empty() {
                return None;
            }
            levels.push(lv);
        }
        if levels.is_empty() {
            return None;
        }
        Some(Table { levels })
    }
    fn bytes(&self) -> Vec<u8> {
        let mut b = vec![];
        for l in &self.levels {
            for (r, k) in l {
                b.push(*r as u8);
                b.push(*k as u8);
            }
            b.push(0xfe);
        }
        b
    }
}

/// The tree. Operators are identified by their token index in the sequence, operands by their
/// ordinal among the operands.
#[derive(Clone, Debug, PartialEq, Eq)]
enum T {
    Leaf(usize),
    Pre(usize, Box<T>),
    Post(usize, Box<T>),
    In(usize, Box<T>, Box<T>),
}

impl T {
    fn show(&self, toks: &[i8], out: &mut String) {
        match self {
            T::Leaf(i) => out.push_str(&format!("n{i}")),
            T::Pre(o, a) => {
                out.push_str(&format!("(op{}@{} ", toks.get(*o).copied().unwrap_or(-9), o));
                a.show(toks, out);
                out.push(')');
            }
            T::Post(o, a) => {
                out.push('(');
                a.show(toks, out);
                out.push_str(&format!(" op{}@{})", toks.get(*o).copied().unwrap_or(-9), o));
            }
            T::In(o, a, b) => {
                out.push('(');
                a.show(toks, out);
                out.push_str(&format!(" op{}@{} ", toks.get(*o).copied().unwrap_or(-9), o));
                b.show(toks, out);
                out.push(')');
            }
        }
    }
    fn to_string(&self, toks: &[i8]) -> String {
        let mut s = String::new();
        self.show(toks, &mut s);
        s
    }
}

// ---------------------------------------------------------------------------------------------
// Oracle

/// Shunting-yard over explicit stacks. `Err` = the sequence is not well-formed for this table.
fn oracle(lk: &[Option<(Kind, u32)>; NOPS], toks: &[i8]) -> Result<T, String> {
    struct Pending {
        tok: usize,
        infix: bool,
        right_power: u32,
    }
    fn reduce(p: Pending, out: &mut Vec<T>) -> Result<(), String> {
        if p.infix {
            let b = out.pop().ok_or("missing right operand")?;
            let a = out.pop().ok_or("missing left operand")?;
            out.push(T::In(p.tok, Box::new(a), Box::new(b)));
        } else {
            let a = out.pop().ok_or("missing operand of prefix")?;
            out.push(T::Pre(p.tok, Box::new(a)));
        }
        Ok(())
    }
    let mut out: Vec<T> = vec![];
    let mut ops: Vec<Pending> = vec![];
    let mut operands = 0usize;
    let mut want_operand = true; // grammar state: prefix* operand | postfix* (infix ...)
    for (i, t) in toks.iter().enumerate() {
        if *t == NUM {
            if !want_operand {
                return Err(format!("operand at {i} where an operator was expected"));
            }
            out.push(T::Leaf(operands));
            operands += 1;
            want_operand = false;
            continue;
        }
        let (kind, level) = lk.get(*t as usize).copied().flatten().ok_or_else(|| format!("token {i}: rule {t} not in table"))?;
        let left_power = 2 * level;
        match kind {
            Kind::Prefix => {
                if !want_operand {
                    return Err(format!("prefix at {i} after an operand"));
                }
                // no left operand: nothing is reduced; right power just below its level
                ops.push(Pending { tok: i, infix: false, right_power: 2 * level - 1 });
            }
            Kind::Postfix | Kind::InfixL | Kind::InfixR => {
                if want_operand {
                    return Err(format!("{} at {i} where an operand was expected", kind.name()));
                }
                while ops.last().map_or(false, |p| p.right_power >= left_power) {
                    let p = ops.pop().unwrap();
                    reduce(p, &mut out)?;
                }
                match kind {
                    Kind::Postfix => {
                        let a = out.pop().ok_or("missing operand of postfix")?;
                        out.push(T::Post(i, Box::new(a)));
                    }
                    Kind::InfixL => {
                        ops.push(Pending { tok: i, infix: true, right_power: 2 * level });
                        want_operand = true;
                    }
                    _ => {
                        ops.push(Pending { tok: i, infix: true, right_power: 2 * level - 1 });
                        want_operand = true;
                    }
                }
            }
        }
    }
    if want_operand {
        return Err("sequence ends where an operand was expected".into());
    }
    while let Some(p) = ops.pop() {
        reduce(p, &mut out)?;
    }
    if out.len() != 1 {
        return Err("operand stack did not reduce to one tree".into());
    }
    Ok(out.pop().unwrap())
}

/// Structural facts every result must have, whatever the grouping.
struct Shape {
    depth: usize,
    prefix_under_infix_rhs: bool,
    right_chain: bool, // a right-assoc infix node whose right child is an infix node of the same level
    applied: [u32; 4],
}

fn check_structure(t: &T, lk: &[Option<(Kind, u32)>; NOPS], toks: &[i8]) -> Result<Shape, String> {
    let mut used = vec![0u8; toks.len()];
    let mut next_leaf = 0usize;
    let mut sh = Shape { depth: 0, prefix_under_infix_rhs: false, right_chain: false, applied: [0; 4] };
    // explicit stack, in-order: (node, depth, state)
    enum Item<'a> {
        Visit(&'a T, usize),
        Op(usize, u8), // token index, node class 0 pre 1 post 2 in
    }
    let mut st = vec![Item::Visit(t, 1)];
    let kind_of = |tok: usize| -> Option<Kind> {
        let r = *toks.get(tok)?;
        if r < 0 {
            return None;
        }
        lk[r as usize].map(|x| x.0)
    };
    let level_of = |tok: usize| -> Option<u32> {
        let r = *toks.get(tok)?;
        if r < 0 {
            return None;
        }
        lk[r as usize].map(|x| x.1)
    };
    while let Some(it) = st.pop() {
        match it {
            Item::Op(tok, class) => {
                if tok >= toks.len() {
                    return Err(format!("operator token index {tok} out of range"));
                }
                used[tok] += 1;
                let k = kind_of(tok).ok_or_else(|| format!("token {tok} is not an operator"))?;
                let ok = match class {
                    0 => k == Kind::Prefix,
                    1 => k == Kind::Postfix,
                    _ => k.is_infix(),
                };
                if !ok {
                    return Err(format!("token {tok} ({}) applied as {}", k.name(), ["prefix", "postfix", "infix"][class as usize]));
                }
                sh.applied[k as usize] += 1;
            }
            Item::Visit(n, d) => {
                sh.depth = sh.depth.max(d);
                match n {
                    T::Leaf(i) => {
                        if *i != next_leaf {
                            return Err(format!("operand order: leaf {i} found where operand {next_leaf} belongs"));
                        }
                        next_leaf += 1;
                    }
                    T::Pre(o, a) => {
                        st.push(Item::Visit(a, d + 1));
                        st.push(Item::Op(*o, 0));
                    }
                    T::Post(o, a) => {
                        st.push(Item::Op(*o, 1));
                        st.push(Item::Visit(a, d + 1));
                    }
                    T::In(o, a, b) => {
                        if matches!(**b, T::Pre(..)) {
                            sh.prefix_under_infix_rhs = true;
                        }
                        if let T::In(o2, ..) = **b {
                            if kind_of(*o) == Some(Kind::InfixR) && level_of(*o) == level_of(o2) {
                                sh.right_chain = true;
                            }
                        }
                        st.push(Item::Visit(b, d + 1));
                        st.push(Item::Op(*o, 2));
                        st.push(Item::Visit(a, d + 1));
                    }
                }
            }
        }
    }
    let n_operands = toks.iter().filter(|t| **t == NUM).count();
    if next_leaf != n_operands {
        return Err(format!("{next_leaf} operands in the tree, {n_operands} in the sequence"));
    }
    for (i, t) in toks.iter().enumerate() {
        let want = if *t == NUM { 0 } else { 1 };
        if used[i] != want {
            return Err(format!("token {i} applied {} times, expected {want}", used[i]));
        }
    }
    Ok(sh)
}

// ---------------------------------------------------------------------------------------------
// Driving pest

fn rule_of(t: i8) -> R {
    if t == NUM {
        R::Num
    } else {
        OPS[t as usize]
    }
}

fn make_pairs(toks: &[i8]) -> Pairs<'static, R> {
    let mut b = PairsBuilder::new(INPUT);
    for (i, t) in toks.iter().enumerate() {
        b = b.rule(rule_of(*t), i, i + 1);
    }
    b.build()
}

/// Per-sequence context the callbacks consult: token index -> operand ordinal, expected rules.
struct Ctx<'a> {
    toks: &'a [i8],
    ordinal: &'a [usize],
    bad_pair: Cell<Option<usize>>,
}

impl<'a> Ctx<'a> {
    fn tok(&self, p: &Pair<'static, R>) -> usize {
        let i = p.as_span().start();
        if i >= self.toks.len() || rule_of(self.toks[i]) != p.as_rule() || p.as_span().end() != i + 1 {
            self.bad_pair.set(Some(i));
        }
        i
    }
}

/// The map_* chain is identical for PrattParser and ConstPrattParser.
macro_rules! pratt_run {
    ($parser:expr, $ctx:expr, $pairs:expr) => {{
        let ctx: &Ctx = $ctx;
        $parser
            .map_primary(|p: Pair<'static, R>| {
                let i = ctx.tok(&p);
                T::Leaf(ctx.ordinal.get(i).copied().unwrap_or(usize::MAX))
            })
            .map_prefix(|op: Pair<'static, R>, rhs: T| T::Pre(ctx.tok(&op), Box::new(rhs)))
            .map_postfix(|lhs: T, op: Pair<'static, R>| T::Post(ctx.tok(&op), Box::new(lhs)))
            .map_infix(|lhs: T, op: Pair<'static, R>, rhs: T| T::In(ctx.tok(&op), Box::new(lhs), Box::new(rhs)))
            .parse($pairs)
    }};
}

trait TreeBuilder {
    fn build(&self, ctx: &Ctx, pairs: Pairs<'static, R>) -> T;
}

impl TreeBuilder for PrattParser<R> {
    fn build(&self, ctx: &Ctx, pairs: Pairs<'static, R>) -> T {
        pratt_run!(self, ctx, pairs)
    }
}

impl<const N: usize> TreeBuilder for ConstPrattParser<R, N> {
    fn build(&self, ctx: &Ctx, pairs: Pairs<'static, R>) -> T {
        pratt_run!(self, ctx, pairs)
    }
}

#[allow(deprecated)]
impl TreeBuilder for pest::prec_climber::PrecClimber<R> {
    fn build(&self, ctx: &Ctx, pairs: Pairs<'static, R>) -> T {
        self.climb(
            pairs,
            |p: Pair<'static, R>| {
                let i = ctx.tok(&p);
                T::Leaf(ctx.ordinal.get(i).copied().unwrap_or(usize::MAX))
            },
            |lhs: T, op: Pair<'static, R>, rhs: T| T::In(ctx.tok(&op), Box::new(lhs), Box::new(rhs)),
        )
    }
}

fn op_of(rule: usize, kind: Kind) -> Op<R> {
    match kind {
        Kind::Prefix => Op::prefix(OPS[rule]),
        Kind::Postfix => Op::postfix(OPS[rule]),
        Kind::InfixL => Op::infix(OPS[rule], Assoc::Left),
        Kind::InfixR => Op::infix(OPS[rule], Assoc::Right),
    }
}

fn build_pratt(t: &Table) -> PrattParser<R> {
    let mut p = PrattParser::new();
    for (li, l) in t.levels.iter().enumerate() {
        // `a | b | c` groups to the left; `a | (b | c)` is the same level written differently
        let right_nested = (l.iter().map(|x| x.0).sum::<usize>() + li) % 3 == 0;
        let op = if right_nested {
            let mut it = l.iter().rev();
            let (r, k) = it.next().unwrap();
            let mut op = op_of(*r, *k);
            for (r, k) in it {
                op = op_of(*r, *k) | op;
            }
            op
        } else {
            let mut it = l.iter();
            let (r, k) = it.next().unwrap();
            let mut op = op_of(*r, *k);
            for (r, k) in it {
                op = op | op_of(*r, *k);
            }
            op
        };
        p = p.op(op);
    }
    p
}

fn mk_const<const N: usize>(flat: &[(usize, Kind, bool)]) -> ConstPrattParser<R, N> {
    assert_eq!(flat.len(), N);
    ConstPrattParser::new_const(std::array::from_fn(|i| (op_of(flat[i].0, flat[i].1), flat[i].2)))
}

/// ConstPrattParser for a table given as levels (pads already merged in by the caller).
fn build_const(levels: &[Vec<(usize, Kind)>]) -> Box<dyn TreeBuilder> {
    let mut flat = vec![];
    for l in levels {
        for (j, (r, k)) in l.iter().enumerate() {
            flat.push((*r, *k, j == 0));
        }
    }
    macro_rules! dispatch {
        ($($n:literal)*) => {
            match flat.len() {
                $($n => Box::new(mk_const::<$n>(&flat)) as Box<dyn TreeBuilder>,)*
                n => panic!("harness: no ConstPrattParser size {n}"),
            }
        };
    }
    dispatch!(1 2 3 4 5 6 7 8 9 10 11 12 13 14 15 16 17 18 19 20 21 22 23 24 25 26 27 28 29 30 31 32 33 34 35 36 37 38 39 40 41 42 43 44 45 46 47 48)
}

#[allow(deprecated)]
fn build_climber(t: &Table) -> pest::prec_climber::PrecClimber<R> {
    use pest::prec_climber::{Assoc as A, Operator, PrecClimber};
    let conv = |k: Kind| if k == Kind::InfixL { A::Left } else { A::Right };
    // every third table goes through the const constructor, entries in no particular order
    // ("Entries don't have to be ordered in any way")
    let key: usize = t.levels.iter().flatten().map(|x| x.0 * 7 + 1).sum();
    if key % 3 == 0 {
        let mut flat: Vec<(R, u32, A)> = vec![];
        for (li, l) in t.levels.iter().enumerate() {
            for (r, k) in l {
                flat.push((OPS[*r], li as u32 + 1, conv(*k)));
            }
        }
        // a deterministic shuffle
        let n = flat.len();
        for i in 0..n {
            flat.swap(i, (i * 5 + key) % n);
        }
        let leaked: &'static [(R, u32, A)] = Box::leak(flat.into_boxed_slice());
        return PrecClimber::new_const(leaked);
    }
    let mut v = vec![];
    for (li, l) in t.levels.iter().enumerate() {
        let right_nested = (l.iter().map(|x| x.0).sum::<usize>() + li) % 3 == 1;
        let op = if right_nested {
            let mut it = l.iter().rev();
            let (r, k) = it.next().unwrap();
            let mut op = Operator::new(OPS[*r], conv(*k));
            for (r, k) in it {
                op = Operator::new(OPS[*r], conv(*k)) | op;
            }
            op
        } else {
            let mut it = l.iter();
            let (r, k) = it.next().unwrap();
            let mut op = Operator::new(OPS[*r], conv(*k));
            for (r, k) in it {
                op = op | Operator::new(OPS[*r], conv(*k));
            }
            op
        };
        v.push(op);
    }
    PrecClimber::new(v)
}

/// Tables of the exhaustive family that are also built in a const context with the macro.
mod statics {
    use super::{Kind, Table, TreeBuilder, R};
    use pest::pratt_parser::{pratt_precedence, Assoc, ConstPrattParser, Op};

    static S0: ConstPrattParser<R, 5> = ConstPrattParser::new_const(pratt_precedence![
        Op::infix(R::Op3, Assoc::Left) | Op::prefix(R::Op0),
        Op::infix(R::Op1, Assoc::Right) | Op::postfix(R::Op4),
        Op::infix(R::Op2, Assoc::Left),
    ]);
    static S1: ConstPrattParser<R, 6> = ConstPrattParser::new_const(pratt_precedence![
        Op::postfix(R::Op5) | Op::infix(R::Op0, Assoc::Right),
        Op::prefix(R::Op4) | Op::infix(R::Op1, Assoc::Left),
        Op::infix(R::Op2, Assoc::Right) | Op::infix(R::Op3, Assoc::Left),
    ]);
    static S2: ConstPrattParser<R, 4> = ConstPrattParser::new_const(pratt_precedence![
        Op::prefix(R::Op2),
        Op::infix(R::Op0, Assoc::Left) | Op::infix(R::Op3, Assoc::Right),
        Op::postfix(R::Op1),
    ]);
    static S3: ConstPrattParser<R, 5> = ConstPrattParser::new_const([
        (Op::infix(R::Op4, Assoc::Left), true),
        (Op::infix(R::Op0, Assoc::Left), false),
        (Op::infix(R::Op1, Assoc::Right), true),
        (Op::prefix(R::Op2), true),
        (Op::postfix(R::Op3), false),
    ]);

    pub fn all() -> Vec<(Table, &'static dyn TreeBuilder)> {
        use Kind::*;
        let t = |l: Vec<Vec<(usize, Kind)>>| Table { levels: l };
        vec![
            (t(vec![vec![(3, InfixL), (0, Prefix)], vec![(1, InfixR), (4, Postfix)], vec![(2, InfixL)]]), &S0 as &dyn TreeBuilder),
            (t(vec![vec![(5, Postfix), (0, InfixR)], vec![(4, Prefix), (1, InfixL)], vec![(2, InfixR), (3, InfixL)]]), &S1),
            (t(vec![vec![(2, Prefix)], vec![(0, InfixL), (3, InfixR)], vec![(1, Postfix)]]), &S2),
            (t(vec![vec![(4, InfixL), (0, InfixL)], vec![(1, InfixR)], vec![(2, Prefix), (3, Postfix)]]), &S3),
        ]
    }
}

/// Everything built once per table.
struct Parsers<'s> {
    pratt: PrattParser<R>,
    konst: Box<dyn TreeBuilder>,
    konst_padded: Option<(Box<dyn TreeBuilder>, Value)>,
    konst_static: Option<&'s dyn TreeBuilder>,
    /// the same table written with some rules declared twice (an earlier declaration with another
    /// kind/level that the later one overrides): PrattParser and ConstPrattParser built from it
    redeclared: Option<(PrattParser<R>, Box<dyn TreeBuilder>, Value)>,
    #[allow(deprecated)]
    climber: Option<pest::prec_climber::PrecClimber<R>>,
}

impl<'s> Parsers<'s> {
    fn new(t: &Table) -> Parsers<'s> {
        Parsers {
            pratt: build_pratt(t),
            konst: build_const(&t.levels),
            konst_padded: None,
            konst_static: None,
            redeclared: None,
            climber: if t.climber_ok() { Some(build_climber(t)) } else { None },
        }
    }
}

// ---------------------------------------------------------------------------------------------
// One evaluation

#[derive(Default)]
struct Tally {
    applied: [u64; 4],
    depth_hist: [u64; 6],
    max_depth: u64,
    prefix_under_infix: u64,
    right_chain: u64,
    mixed_level_tables: u64,
    mixed_level_cases: u64,
    ran_pratt: u64,
    ran_const: u64,
    ran_const_padded: u64,
    ran_const_static: u64,
    ran_redeclared: u64,
    redeclared_differs_from_last_wins: u64,
    ran_climber: u64,
    nontrivial: u64,
    len_hist: [u64; 5],
}

impl Tally {
    fn flush(&self, rep: &mut Report) {
        for k in KINDS {
            rep.add(&format!("applied:{}", k.name()), self.applied[k as usize]);
        }
        let names = ["1-2", "3-4", "5-8", "9-16", "17-32", "33+"];
        for (i, n) in names.iter().enumerate() {
            rep.add(&format!("tree_depth:{n}"), self.depth_hist[i]);
        }
        let names = ["1-3", "4-7", "8-15", "16-31", "32-40"];
        for (i, n) in names.iter().enumerate() {
            rep.add(&format!("tokens:{n}"), self.len_hist[i]);
        }
        rep.add("cases_prefix_as_right_operand_of_infix", self.prefix_under_infix);
        rep.add("cases_right_assoc_chain", self.right_chain);
        rep.add("tables_with_mixed_level", self.mixed_level_tables);
        rep.add("cases_on_mixed_level_table", self.mixed_level_cases);
        rep.add("parser:PrattParser", self.ran_pratt);
        rep.add("parser:ConstPrattParser", self.ran_const);
        rep.add("parser:ConstPrattParser_padded", self.ran_const_padded);
        rep.add("parser:ConstPrattParser_static_macro", self.ran_const_static);
        rep.add("parser:PrattParser_vs_ConstPrattParser_on_table_with_redeclared_rules", self.ran_redeclared);
        rep.add("redeclared_tables_where_both_parsers_agree_but_not_last_declaration_wins", self.redeclared_differs_from_last_wins);
        rep.add("parser:PrecClimber", self.ran_climber);
        rep.add("nontrivial_cases", self.nontrivial);
        rep.notes.insert("max_tree_depth_this_shard".into(), json!(self.max_depth));
    }
}

fn witness(table: &Table, toks: &[i8], parser: &str, expected: Value, observed: Value, extra: Option<&Value>) -> Value {
    let mut w = json!({
        "property": "C13", "parser": parser,
        "table": table.to_json(), "tokens": toks,
        "expected": expected, "observed": observed,
        "legend": "tokens: -1 = operand, k = operator rule k; trees: nI = I-th operand, opK@J = operator rule K at token index J",
    });
    if let Some(e) = extra {
        w["const_table_with_padding"] = e.clone();
    }
    w
}

fn check_case(rep: &mut Report, tally: &mut Tally, table: &Table, lk: &[Option<(Kind, u32)>; NOPS], ps: &Parsers, toks: &[i8], part: &str) {
    rep.count("evaluations");
    let expected = match oracle(lk, toks) {
        Ok(t) => t,
        Err(e) => {
            // only reachable through a hand-written replay file: not a case of the property
            rep.count("excluded_malformed_sequence");
            rep.notes.insert("malformed_sequence".into(), json!(e));
            return;
        }
    };
    // the oracle's own result must have the structural facts too (guards the oracle)
    let shape = match check_structure(&expected, lk, toks) {
        Ok(s) => s,
        Err(e) => {
            rep.inconclusive(json!({"why": "oracle tree fails the structural check (harness defect)", "detail": e,
                                    "table": table.to_json(), "tokens": toks}));
            return;
        }
    };
    let mut ordinal = [usize::MAX; MAX_TOKENS + 24];
    let mut n = 0;
    for (i, t) in toks.iter().enumerate() {
        if *t == NUM {
            ordinal[i] = n;
            n += 1;
        }
    }
    // a defect in the climbing loops can also show as non-termination; the driver's watchdog
    // finds the case here
    rep.journal(|| json!({"table": table.to_json(), "tokens": toks}));
    let pairs = make_pairs(toks);
    let mut runs: Vec<(&str, &dyn TreeBuilder, Option<&Value>)> = Vec::with_capacity(5);
    runs.push(("PrattParser", &ps.pratt, None));
    tally.ran_pratt += 1;
    runs.push(("ConstPrattParser", &*ps.konst, None));
    tally.ran_const += 1;
    if let Some((k, desc)) = &ps.konst_padded {
        runs.push(("ConstPrattParser(padded)", &**k, Some(desc)));
        tally.ran_const_padded += 1;
    }
    if let Some(k) = ps.konst_static {
        runs.push(("ConstPrattParser(static, pratt_precedence!)", k, None));
        tally.ran_const_static += 1;
    }
    if let Some(c) = &ps.climber {
        runs.push(("PrecClimber", c, None));
        tally.ran_climber += 1;
    }
    for (name, parser, extra) in runs {
        let ctx = Ctx { toks, ordinal: &ordinal[..toks.len()], bad_pair: Cell::new(None) };
        let got = catch_unwind(AssertUnwindSafe(|| parser.build(&ctx, pairs.clone())));
        match got {
            Err(p) => {
                let msg = p.downcast_ref::<String>().cloned().or_else(|| p.downcast_ref::<&str>().map(|s| s.to_string())).unwrap_or_default();
                rep.violation(witness(table, toks, name, json!(expected.to_string(toks)), json!({"panic": msg}), extra));
            }
            Ok(tree) => {
                if let Some(i) = ctx.bad_pair.get() {
                    rep.violation(witness(table, toks, name, json!("callbacks receive the pairs of the sequence unchanged"),
                                          json!(format!("callback received a pair that is not token {i} of the sequence")), extra));
                } else if let Err(e) = check_structure(&tree, lk, toks) {
                    rep.violation(witness(table, toks, name, json!(expected.to_string(toks)),
                                          json!({"tree": tree.to_string(toks), "structural": e}), extra));
                } else if tree != expected {
                    rep.violation(witness(table, toks, name, json!(expected.to_string(toks)), json!(tree.to_string(toks)), extra));
                }
            }
        }
    }
    // a table in which rules are declared twice: the statement does not say which declaration
    // counts, only that ConstPrattParser gives the same tree as PrattParser for the same table
    if let Some((p, k, desc)) = &ps.redeclared {
        tally.ran_redeclared += 1;
        let run = |parser: &dyn TreeBuilder| {
            let ctx = Ctx { toks, ordinal: &ordinal[..toks.len()], bad_pair: Cell::new(None) };
            catch_unwind(AssertUnwindSafe(|| parser.build(&ctx, pairs.clone()))).map_err(|p| {
                p.downcast_ref::<String>().cloned().or_else(|| p.downcast_ref::<&str>().map(|s| s.to_string())).unwrap_or_default()
            })
        };
        let a = run(p);
        let b = run(&**k);
        let show = |r: &Result<T, String>| match r {
            Ok(t) => json!(t.to_string(toks)),
            Err(m) => json!({"panic": m}),
        };
        if a != b {
            let mut w = witness(table, toks, "ConstPrattParser vs PrattParser (table with re-declared rules)", show(&a), show(&b), None);
            w["table_with_redeclarations"] = desc.clone();
            w["expected_is"] = json!("PrattParser's tree for table_with_redeclarations; observed = ConstPrattParser's tree for the same table");
            rep.violation(w);
        } else if a.as_ref().ok() != Some(&expected) {
            tally.redeclared_differs_from_last_wins += 1;
        }
    }
    // evidence
    for k in 0..4 {
        tally.applied[k] += shape.applied[k] as u64;
    }
    let d = shape.depth;
    tally.max_depth = tally.max_depth.max(d as u64);
    tally.depth_hist[match d {
        0..=2 => 0,
        3..=4 => 1,
        5..=8 => 2,
        9..=16 => 3,
        17..=32 => 4,
        _ => 5,
    }] += 1;
    tally.len_hist[match toks.len() {
        0..=3 => 0,
        4..=7 => 1,
        8..=15 => 2,
        16..=31 => 3,
        _ => 4,
    }] += 1;
    tally.prefix_under_infix += shape.prefix_under_infix_rhs as u64;
    tally.right_chain += shape.right_chain as u64;
    let mixed = table.mixed_level();
    tally.mixed_level_cases += mixed as u64;
    // non-trivial: >= 3 operators of >= 2 different precedence levels
    let mut levels_seen = 0u64;
    let mut n_ops = 0;
    for t in toks {
        if *t != NUM {
            n_ops += 1;
            levels_seen |= 1u64 << lk[*t as usize].unwrap().1.min(63);
        }
    }
    if n_ops >= 3 && levels_seen.count_ones() >= 2 {
        tally.nontrivial += 1;
        let tb = table.bytes();
        let tk: Vec<u8> = toks.iter().map(|t| *t as u8).collect();
        let h = hash_bytes(&[&tb[..], &tk[..]]);
        let kinds_mask = (0..4).fold(0u8, |m, k| m | (((shape.applied[k] > 0) as u8) << k));
        let sig_bytes = [
            kinds_mask,
            shape.prefix_under_infix_rhs as u8,
            shape.right_chain as u8,
            mixed as u8,
            ps.climber.is_some() as u8,
            ps.konst_padded.is_some() as u8,
            ps.konst_static.is_some() as u8,
            (usize::BITS - d.leading_zeros()) as u8,
            levels_seen.count_ones() as u8,
        ];
        let sig = hash_bytes(&[&sig_bytes[..]]);
        rep.nontrivial(h, sig);
        let slot = if shape.prefix_under_infix_rhs && mixed {
            Some("prefix-right-operand+mixed-level")
        } else if shape.right_chain && mixed {
            Some("right-chain+mixed-level")
        } else if ps.climber.is_some() {
            Some("climber-table")
        } else if shape.applied[Kind::Postfix as usize] > 0 && shape.applied[Kind::Prefix as usize] > 0 {
            Some("prefix+postfix")
        } else {
            None
        };
        if let Some(s) = slot {
            let s = format!("{part}:{s}");
            rep.sample_slot(&s, || json!({"table": table.to_json(), "tokens": toks, "tree": expected.to_string(toks)}));
        }
    }
}

// ---------------------------------------------------------------------------------------------
// Workloads

/// All well-formed sequences of `1..=max_len` tokens over the table's operators, in a fixed order.
fn for_each_sequence(table: &Table, max_len: usize, f: &mut dyn FnMut(&[i8])) {
    let mut pre = vec![];
    let mut post = vec![];
    let mut inf = vec![];
    for l in &table.levels {
        for (r, k) in l {
            match k {
                Kind::Prefix => pre.push(*r as i8),
                Kind::Postfix => post.push(*r as i8),
                _ => inf.push(*r as i8),
            }
        }
    }
    pre.sort();
    post.sort();
    inf.sort();
    // iterative DFS; state true = an operand (or prefix) is expected
    fn rec(cur: &mut Vec<i8>, want: bool, max_len: usize, pre: &[i8], post: &[i8], inf: &[i8], f: &mut dyn FnMut(&[i8])) {
        if !want {
            f(cur);
        }
        if cur.len() == max_len {
            return;
        }
        if want {
            cur.push(NUM);
            rec(cur, false, max_len, pre, post, inf, f);
            cur.pop();
            // a prefix needs room for its operand
            if cur.len() + 2 <= max_len {
                for p in pre {
                    cur.push(*p);
                    rec(cur, true, max_len, pre, post, inf, f);
                    cur.pop();
                }
            }
        } else {
            for p in post {
                cur.push(*p);
                rec(cur, false, max_len, pre, post, inf, f);
                cur.pop();
            }
            if cur.len() + 2 <= max_len {
                for p in inf {
                    cur.push(*p);
                    rec(cur, true, max_len, pre, post, inf, f);
                    cur.pop();
                }
            }
        }
    }
    let mut cur = Vec::with_capacity(max_len);
    rec(&mut cur, true, max_len, &pre, &post, &inf, f);
}

/// The fixed family of 3-level tables of the exhaustive part.
/// A: 4 tables also built statically with `pratt_precedence!` / a const array.
/// B: all 4^3 tables with one operator per level.
/// C: all 10^3 tables with two operators per level (every unordered pair of kinds per level).
/// `with_c = false` gives A and B only (they come first in the list).
fn exhaustive_family(with_c: bool) -> Vec<(Table, Option<&'static dyn TreeBuilder>)> {
    let mut fam: Vec<(Table, Option<&'static dyn TreeBuilder>)> = statics::all().into_iter().map(|(t, s)| (t, Some(s))).collect();
    for a in KINDS {
        for b in KINDS {
            for c in KINDS {
                // rule numbers deliberately not in level order
                fam.push((Table { levels: vec![vec![(1, a)], vec![(2, b)], vec![(0, c)]] }, None));
            }
        }
    }
    if with_c {
        let mut pairs = vec![];
        for i in 0..4 {
            for j in i..4 {
                pairs.push((KINDS[i], KINDS[j]));
            }
        }
        for a in &pairs {
            for b in &pairs {
                for c in &pairs {
                    fam.push((Table { levels: vec![vec![(4, a.0), (1, a.1)], vec![(0, b.0), (5, b.1)], vec![(3, c.0), (2, c.1)]] }, None));
                }
            }
        }
    }
    fam
}

const EXH_LEN: usize = 7;

/// Both tiers: every table of the family x every well-formed sequence of <= 7 tokens.
/// Thorough adds longer sequences (families A, B up to 10 tokens, C up to 8).
fn run_exhaustive(args: &Args, rep: &mut Report, tally: &mut Tally) -> bool {
    let fam = exhaustive_family(true);
    let n_ab = exhaustive_family(false).len();
    let mut idx: u64 = 0;
    let mut mine: u64 = 0;
    let mut total_le7: u64 = 0;
    let mut complete = true;
    for (ti, (table, stat)) in fam.iter().enumerate() {
        if rep.elapsed() > args.max_s {
            rep.notes.insert("exhaustive_stopped_early_at_table".into(), json!(ti));
            rep.inconclusive(json!({"why": "time budget reached inside the exhaustive part", "table_index": ti}));
            complete = false;
            break;
        }
        let max_len = match (args.thorough, ti < n_ab) {
            (false, _) => EXH_LEN,
            (true, true) => 10,
            (true, false) => 8,
        };
        let lk = table.lookup();
        let mut ps = Parsers::new(table);
        ps.konst_static = *stat;
        if table.mixed_level() && args.shard == 0 {
            // every shard walks every table of the family; count each once
            tally.mixed_level_tables += 1;
        }
        for_each_sequence(table, max_len, &mut |toks| {
            let take = idx % args.nshards == args.shard;
            idx += 1;
            total_le7 += (toks.len() <= EXH_LEN) as u64;
            if take {
                mine += 1;
                check_case(rep, tally, table, &lk, &ps, toks, "exhaustive");
            }
        });
    }
    if args.shard == 0 {
        rep.add("exhaustive_tables", fam.len() as u64);
    }
    rep.add("exhaustive_cases", mine);
    rep.notes.insert(
        "exhaustive_space".into(),
        json!({"tables": fam.len(), "tables_one_op_per_level_or_static": n_ab, "max_tokens_all_tables": EXH_LEN,
               "sequences_up_to_7_tokens": total_le7, "sequences_total_all_shards": idx, "complete": complete}),
    );
    complete
}

fn gen_table(rng: &mut Rng) -> Table {
    if rng.chance(1, 12) {
        // a tall table: 20..44 levels of one (sometimes two) operators, as a language with many
        // precedence levels has; binding powers far apart and close together both occur
        let mut rules: Vec<usize> = (0..NOPS).collect();
        for i in (1..NOPS).rev() {
            rules.swap(i, rng.below(i + 1));
        }
        let n_levels = 20 + rng.below(25);
        let infix_only = rng.chance(1, 3);
        let mut levels = vec![];
        for _ in 0..n_levels {
            let mut l = vec![];
            let n = if rules.len() > n_levels && rng.chance(1, 8) { 2 } else { 1 };
            for _ in 0..n {
                let Some(r) = rules.pop() else { break };
                let k = if infix_only { [Kind::InfixL, Kind::InfixR][rng.below(2)] } else { KINDS[rng.weighted(&[1, 1, 3, 3])] };
                l.push((r, k));
            }
            if l.is_empty() {
                break;
            }
            levels.push(l);
        }
        return Table { levels };
    }
    let n_levels = 1 + rng.below(6);
    let mut rules: Vec<usize> = (0..NOPS).collect();
    for i in (1..NOPS).rev() {
        rules.swap(i, rng.below(i + 1));
    }
    // 0: anything anywhere, 1: infix only with one associativity per level (PrecClimber's domain),
    // 2: one kind per level, 3: every level mixed when it has >= 2 operators
    let mode = rng.weighted(&[5, 2, 1, 2]);
    let mut levels = vec![];
    for _ in 0..n_levels {
        let n = 1 + rng.weighted(&[3, 3, 2]);
        let first = match mode {
            1 => [Kind::InfixL, Kind::InfixR][rng.below(2)],
            _ => KINDS[rng.below(4)],
        };
        let mut l = vec![];
        for j in 0..n {
            let k = match mode {
                0 => KINDS[rng.below(4)],
                1 | 2 => first,
                _ => {
                    if j == 0 {
                        first
                    } else {
                        KINDS[(first as usize + 1 + rng.below(3)) % 4]
                    }
                }
            };
            l.push((rules.pop().unwrap(), k));
        }
        levels.push(l);
    }
    Table { levels }
}

/// Same table plus operators that never occur in a sequence: appended to existing levels or as
/// whole new levels, until the const array has `n_total` entries.
fn padded_levels(t: &Table, rng: &mut Rng, n_total: usize) -> Vec<Vec<(usize, Kind)>> {
    let mut used = [false; NOPS];
    for l in &t.levels {
        for (r, _) in l {
            used[*r] = true;
        }
    }
    let mut free: Vec<usize> = (0..NOPS).filter(|r| !used[*r]).collect();
    let mut levels = t.levels.clone();
    let mut n = t.n_ops();
    while n < n_total && !free.is_empty() {
        let r = free.swap_remove(rng.below(free.len()));
        let k = KINDS[rng.below(4)];
        if rng.chance(1, 2) {
            let li = rng.below(levels.len());
            let at = rng.below(levels[li].len() + 1);
            levels[li].insert(at, (r, k));
        } else {
            let at = rng.below(levels.len() + 1);
            levels.insert(at, vec![(r, k)]);
        }
        n += 1;
    }
    levels
}

/// Same table with 1..=3 of its rules declared a second time, earlier (a lower level, or earlier in
/// the same level) and with another kind, so that the original declaration is the later one.
fn redeclared_levels(t: &Table, rng: &mut Rng) -> Vec<Vec<(usize, Kind)>> {
    let mut levels = t.levels.clone();
    let n_extra = (1 + rng.below(3)).min(NOPS - t.n_ops());
    for _ in 0..n_extra {
        // pick a declaration of the original table
        let li = rng.below(levels.len());
        let candidates: Vec<usize> = (0..levels[li].len()).filter(|j| t.levels.iter().flatten().any(|x| x.0 == levels[li][*j].0)).collect();
        if candidates.is_empty() {
            continue;
        }
        let j = *rng.pick(&candidates);
        let (r, k) = levels[li][j];
        let other = KINDS[(k as usize + 1 + rng.below(3)) % 4];
        match rng.below(3) {
            // earlier in the same level (same precedence, other kind)
            0 => levels[li].insert(rng.below(j + 1), (r, other)),
            // appended to a lower level
            1 if li > 0 => {
                let lo = rng.below(li);
                let at = rng.below(levels[lo].len() + 1);
                levels[lo].insert(at, (r, if rng.chance(1, 2) { k } else { other }));
            }
            // a new lowest level
            _ => levels.insert(0, vec![(r, if rng.chance(1, 2) { k } else { other })]),
        }
    }
    levels
}

fn build_pratt_levels(levels: &[Vec<(usize, Kind)>]) -> PrattParser<R> {
    let mut p = PrattParser::new();
    for l in levels {
        let mut it = l.iter();
        let (r, k) = it.next().unwrap();
        let mut op = op_of(*r, *k);
        for (r, k) in it {
            op = op | op_of(*r, *k);
        }
        p = p.op(op);
    }
    p
}

fn gen_sequence(rng: &mut Rng, table: &Table, out: &mut Vec<i8>) {
    out.clear();
    let mut pre = vec![];
    let mut post = vec![];
    let mut inf = vec![];
    for l in &table.levels {
        for (r, k) in l {
            match k {
                Kind::Prefix => pre.push(*r as i8),
                Kind::Postfix => post.push(*r as i8),
                _ => inf.push(*r as i8),
            }
        }
    }
    // sometimes narrow the vocabulary so that chains of the same few operators appear
    if rng.chance(1, 3) {
        for v in [&mut pre, &mut post, &mut inf] {
            while v.len() > 1 && rng.chance(2, 3) {
                let i = rng.below(v.len());
                v.swap_remove(i);
            }
        }
    }
    let target = match rng.weighted(&[2, 3, 3, 2]) {
        0 => 1 + rng.below(4),
        1 => 4 + rng.below(6),
        2 => 8 + rng.below(12),
        _ => 16 + rng.below(MAX_TOKENS - 15),
    };
    let unary_den = 2 + rng.below(4) as u32; // P(another unary) = 1/den .. per sequence
    loop {
        // prefix* (leave room for the operand)
        while !pre.is_empty() && out.len() + 2 <= target && rng.chance(1, unary_den) {
            out.push(*rng.pick(&pre));
        }
        out.push(NUM);
        while !post.is_empty() && out.len() + 1 <= target && rng.chance(1, unary_den) {
            out.push(*rng.pick(&post));
        }
        if inf.is_empty() || out.len() + 2 > target {
            break;
        }
        out.push(*rng.pick(&inf));
    }
    // a table without infix operators: use the remaining room for unary operators
    if inf.is_empty() {
        while !post.is_empty() && out.len() < target && rng.chance(3, 4) {
            out.push(*rng.pick(&post));
        }
    }
    debug_assert!(out.len() <= MAX_TOKENS);
}

fn run_random(args: &Args, rep: &mut Report, tally: &mut Tally) {
    let mut rng = Rng::new(args.seed, "c13", args.shard);
    let budget = args.budget(100_000, 10_000_000);
    const PER_TABLE: u64 = 25;
    let mut done = 0u64;
    let mut toks: Vec<i8> = Vec::with_capacity(MAX_TOKENS);
    while done < budget {
        if rep.elapsed() > args.max_s {
            rep.notes.insert("random_stopped_early_after_cases".into(), json!(done));
            break;
        }
        let mut trng = rng.fork();
        let table = gen_table(&mut trng);
        rep.count("random_tables");
        rep.count(&format!("table_levels:{}", table.levels.len()));
        if table.mixed_level() {
            tally.mixed_level_tables += 1;
        }
        let lk = table.lookup();
        let mut ps = Parsers::new(&table);
        if table.n_ops() < NOPS && trng.chance(1, 4) {
            let n_total = table.n_ops() + 1 + trng.below(NOPS - table.n_ops());
            let lv = padded_levels(&table, &mut trng, n_total);
            let desc = Table { levels: lv.clone() }.to_json();
            ps.konst_padded = Some((build_const(&lv), desc));
        }
        if table.n_ops() < NOPS && trng.chance(1, 5) {
            let lv = redeclared_levels(&table, &mut trng);
            if lv.iter().map(|l| l.len()).sum::<usize>() > table.n_ops() {
                let desc = Table { levels: lv.clone() }.to_json();
                ps.redeclared = Some((build_pratt_levels(&lv), build_const(&lv), desc));
                rep.count("random_tables_with_redeclared_rules");
            }
        }
        for _ in 0..PER_TABLE.min(budget - done) {
            gen_sequence(&mut trng, &table, &mut toks);
            check_case(rep, tally, &table, &lk, &ps, &toks, "random");
            done += 1;
        }
    }
    rep.add("random_cases", done);
}

fn replay(rep: &mut Report, tally: &mut Tally, path: &std::path::Path) {
    let v: Value = serde_json::from_str(&std::fs::read_to_string(path).expect("replay file")).expect("json");
    let w = if v["witness"].is_object() { &v["witness"] } else { &v };
    let table = match Table::from_json(&w["table"]) {
        Some(t) => t,
        None => {
            rep.notes.insert("replay_rejected".into(), json!("table is not of the form [[{rule,kind},..],..] with distinct rules 0..18"));
            return;
        }
    };
    let toks: Option<Vec<i8>> = w["tokens"].as_array().map(|a| a.iter().filter_map(|x| x.as_i64()).filter(|x| (-1..NOPS as i64).contains(x)).map(|x| x as i8).collect());
    let toks = match toks {
        Some(t) if !t.is_empty() && t.len() <= MAX_TOKENS + 24 && t.len() == w["tokens"].as_array().unwrap().len() => t,
        _ => {
            rep.notes.insert("replay_rejected".into(), json!("tokens must be 1..=64 integers in -1..18"));
            return;
        }
    };
    let lk = table.lookup();
    let mut ps = Parsers::new(&table);
    if let Some(padded) = Table::from_json(&w["const_table_with_padding"]) {
        if padded.n_ops() <= NOPS {
            let desc = padded.to_json();
            ps.konst_padded = Some((build_const(&padded.levels), desc));
        }
    }
    if let Some(rd) = Table::from_json_with(&w["table_with_redeclarations"], true) {
        if rd.levels.iter().map(|l| l.len()).sum::<usize>() <= NOPS {
            let desc = rd.to_json();
            ps.redeclared = Some((build_pratt_levels(&rd.levels), build_const(&rd.levels), desc));
        }
    }
    let stat = statics::all().into_iter().find(|(t, _)| *t == table).map(|(_, s)| s);
    ps.konst_static = stat;
    check_case(rep, tally, &table, &lk, &ps, &toks, "replay");
}

pub fn run(args: &Args) {
    let mut rep = Report::new(args);
    let mut tally = Tally::default();
    if let Some(path) = &args.replay {
        replay(&mut rep, &mut tally, path);
        tally.flush(&mut rep);
        rep.finish(args);
        return;
    }
    run_exhaustive(args, &mut rep, &mut tally);
    run_random(args, &mut rep, &mut tally);
    tally.flush(&mut rep);
    rep.finish(args);
}
