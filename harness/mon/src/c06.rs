//! C06: validation guarantees termination (A) and accepts well-formed grammars (B).
//!
//! A: grammars without stack built-ins that pest ACCEPTED are parsed by the VM while two online
//!    monitors watch: no rule is entered at position p while an activation of the same rule
//!    entered at p is still open (hook H3 + the VM's own listener, which aborts the parse long
//!    before the native stack overflows), and no `repeat` iteration succeeds without moving
//!    (hook H1c, which unwinds). A call limit bounds every case; reaching it is inconclusive.
//! B: grammars that satisfy the statement's premise by construction must be accepted.

use crate::common::*;
use pest_meta::ast::{Expr, Rule, RuleType};
use serde_json::json;
use std::panic::{catch_unwind, AssertUnwindSafe};
use vmon::gen::{gen_grammar, GenCfg, Profile};
use vmon::rng::{hash_bytes, Rng};
use vmon::shard::{Args, Report};

const LIMIT: usize = 400_000;

fn b(e: Expr) -> Box<Expr> {
    Box::new(e)
}
fn s(x: &str) -> Expr {
    Expr::Str(x.into())
}
fn id(x: &str) -> Expr {
    Expr::Ident(x.into())
}
fn seq(a: Expr, c: Expr) -> Expr {
    Expr::Seq(b(a), b(c))
}

/// A nullable (may match empty) prefix that contains no rule reference.
fn nullable_head(rng: &mut Rng) -> Expr {
    match rng.below(12) {
        0 => Expr::Opt(b(s("a"))),
        1 => s(""),
        2 => Expr::PosPred(b(s("x"))),
        3 => Expr::NegPred(b(s("b"))),
        4 => Expr::Rep(b(s("a"))),
        5 => id("SOI"),
        6 => Expr::RepMax(b(s("a")), 2),
        7 => Expr::RepMinMax(b(s("a")), 0, 2),
        8 => Expr::RepMin(b(s("a")), 0),
        9 => Expr::Insens("".into()),
        10 => Expr::Opt(b(seq(s("a"), s("b")))),
        _ => seq(Expr::Opt(b(s("a"))), Expr::Opt(b(s("b")))),
    }
}

/// A context with a hole at a leftmost position: wraps a reference so that it can be reached
/// without consuming input.
fn leftmost_context(rng: &mut Rng, hole: Expr, depth: usize) -> Expr {
    leftmost_context2(rng, hole, depth, true)
}

fn leftmost_context2(rng: &mut Rng, hole: Expr, depth: usize, allow_consuming_head: bool) -> Expr {
    let t = || s("x");
    let inner = if depth > 0 && rng.chance(1, 3) { leftmost_context2(rng, hole, depth - 1, allow_consuming_head) } else { hole };
    match rng.below(if allow_consuming_head { 25 } else { 22 }) {
        22 | 23 | 24 => seq(s("x"), inner),
        0 => inner,
        1 => seq(Expr::Opt(b(inner)), t()),
        2 => seq(Expr::Rep(b(inner)), t()),
        3 => Expr::RepOnce(b(inner)),
        4 => Expr::RepExact(b(inner), 2),
        5 => Expr::RepMin(b(inner), 1),
        6 => seq(Expr::RepMax(b(inner), 2), t()),
        7 => Expr::RepMinMax(b(inner), 1, 2),
        8 => seq(Expr::RepMinMax(b(inner), 0, 2), t()),
        9 => seq(Expr::PosPred(b(inner)), t()),
        10 => seq(Expr::NegPred(b(inner)), t()),
        11 => {
            let h = nullable_head(rng);
            seq(h, inner)
        }
        12 => Expr::Choice(b(t()), b(inner)),
        13 => Expr::Choice(b(inner), b(t())),
        14 => Expr::Choice(b(seq(t(), s("y"))), b(inner)),
        15 => seq(inner, t()),
        16 => {
            let h = nullable_head(rng);
            seq(seq(h, inner), t())
        }
        17 => {
            let h1 = nullable_head(rng);
            let h2 = nullable_head(rng);
            seq(h1, seq(h2, inner))
        }
        18 => seq(Expr::Opt(b(Expr::Opt(b(inner)))), t()),
        19 => Expr::PosPred(b(Expr::NegPred(b(inner)))),
        20 => {
            #[cfg(feature = "grammar-extras")]
            {
                Expr::NodeTag(b(inner), "t".into())
            }
            #[cfg(not(feature = "grammar-extras"))]
            {
                seq(Expr::RepMin(b(inner), 0), t())
            }
        }
        _ => seq(Expr::RepExact(b(Expr::Opt(b(inner))), 2), t()),
    }
}

fn any_ty(rng: &mut Rng) -> RuleType {
    *rng.pick(&[RuleType::Normal, RuleType::Normal, RuleType::Silent, RuleType::Atomic, RuleType::CompoundAtomic, RuleType::NonAtomic])
}

/// Recursion-skewed grammars: a cycle r0 -> r1 -> .. -> r0 through leftmost contexts.
fn gen_cycle(rng: &mut Rng) -> Vec<Rule> {
    // mostly short cycles; now and then a long chain (a precedence tower of dozens of rules)
    let k = if rng.chance(1, 60) { 30 + rng.below(90) } else { 1 + rng.below(3) };
    let mut rules = vec![];
    for i in 0..k {
        let next = format!("r{}", (i + 1) % k);
        // in a long chain every link stays leftmost (one consuming head would break the cycle)
        let e = if k > 3 { leftmost_context2(rng, id(&next), 0, false) } else { leftmost_context(rng, id(&next), 2) };
        let e = if rng.chance(1, 3) { Expr::Choice(b(s("q")), b(e)) } else { e };
        rules.push(Rule { name: format!("r{i}"), ty: any_ty(rng), expr: e });
    }
    // sometimes the cycle goes through WHITESPACE / COMMENT
    if rng.chance(1, 5) {
        let name = if rng.chance(1, 2) { "WHITESPACE" } else { "COMMENT" };
        let e = match rng.below(3) {
            0 => seq(s(" "), id("r0")),
            1 => leftmost_context(rng, id(name), 1),
            _ => Expr::Choice(b(s(" ")), b(leftmost_context(rng, id("r0"), 1))),
        };
        rules.push(Rule { name: name.into(), ty: *rng.pick(&[RuleType::Silent, RuleType::Normal, RuleType::Atomic, RuleType::CompoundAtomic]), expr: e });
    }
    rules
}

/// Several repetitions over one consuming rule: well-formed ones (`c+`, `(c ~ ",")*`) next to one
/// whose body is made nullable by a count or `?`/`*` around the reference (`(c{0,3})*`, `(c?)+`); the
/// validator has to judge each repetition body by itself, in whatever order they come.
fn gen_multi_rep(rng: &mut Rng) -> Vec<Rule> {
    let c = || id("c");
    let good = |rng: &mut Rng| match rng.below(5) {
        0 => seq(Expr::RepOnce(b(c())), s("q")),
        1 => Expr::Rep(b(seq(c(), s("q")))),
        2 => seq(Expr::Rep(b(c())), s("q")),
        3 => Expr::RepMin(b(c()), 1 + rng.below(2) as u32),
        _ => Expr::RepMinMax(b(seq(c(), Expr::Opt(b(s(" "))))), 1, 4),
    };
    let nullable_body = match rng.below(6) {
        0 => Expr::RepMinMax(b(c()), 0, 1 + rng.below(3) as u32),
        1 => Expr::RepMax(b(c()), 1 + rng.below(3) as u32),
        2 => Expr::Opt(b(c())),
        3 => Expr::Rep(b(c())),
        4 => Expr::RepMin(b(c()), 0),
        _ => Expr::Choice(b(c()), b(Expr::RepMinMax(b(c()), 0, 2))),
    };
    let bad = match rng.below(4) {
        0 => Expr::Rep(b(nullable_body)),
        1 => Expr::RepOnce(b(nullable_body)),
        2 => seq(Expr::Rep(b(nullable_body)), s("q")),
        _ => Expr::RepMin(b(nullable_body), 1 + rng.below(3) as u32),
    };
    let mut bodies: Vec<Expr> = vec![];
    for _ in 0..1 + rng.below(3) {
        bodies.push(good(rng));
    }
    let at = rng.below(bodies.len() + 1);
    bodies.insert(at, bad);
    let mut rules = vec![];
    if rng.chance(1, 2) {
        // all in one rule, as alternatives or in sequence
        let mut it = bodies.into_iter();
        let mut e = it.next().unwrap();
        for nx in it {
            e = if rng.chance(1, 2) { Expr::Choice(b(e), b(nx)) } else { seq(e, nx) };
        }
        rules.push(Rule { name: "r0".into(), ty: any_ty(rng), expr: e });
    } else {
        for (i, e) in bodies.into_iter().enumerate() {
            rules.push(Rule { name: format!("r{i}"), ty: any_ty(rng), expr: e });
        }
    }
    let ce = match rng.below(3) {
        0 => s("a"),
        1 => seq(s("a"), Expr::Opt(b(s("x")))),
        _ => Expr::Choice(b(s("a")), b(s("x"))),
    };
    let at = rng.below(rules.len() + 1);
    rules.insert(at, Rule { name: "c".into(), ty: any_ty(rng), expr: ce });
    rules
}

/// A rule that can match empty and repeats ITSELF (directly, or through a second rule) after a consuming
/// literal: the repetition's body is nullable only through the reference back to the enclosing rule, and the
/// grammar is not left-recursive.
fn gen_self_rep(rng: &mut Rng) -> Vec<Rule> {
    let through_second = rng.chance(1, 3);
    let back = if through_second { id("r1") } else { id("r0") };
    let body = match rng.below(4) {
        0 => back.clone(),
        1 => seq(back.clone(), Expr::Opt(b(s(" ")))),
        2 => Expr::Choice(b(back.clone()), b(s("q"))),
        _ => Expr::Choice(b(seq(s("a"), s("a"))), b(back.clone())),
    };
    let rep = match rng.below(3) {
        0 => Expr::Rep(b(body)),
        1 => Expr::RepOnce(b(body)),
        _ => Expr::RepMin(b(body), 1 + rng.below(2) as u32),
    };
    let bracketed = match rng.below(3) {
        0 => seq(s("x"), seq(rep, s("q"))),
        1 => seq(s("x"), rep),
        _ => seq(seq(s("x"), Expr::Opt(b(s(" ")))), seq(rep, s("q"))),
    };
    let empty_alt = match rng.below(3) {
        0 => Expr::Opt(b(s("a"))),
        1 => Expr::Rep(b(s("a"))),
        _ => nullable_head(rng),
    };
    let r0 = if rng.chance(2, 3) { Expr::Choice(b(bracketed), b(empty_alt)) } else { Expr::Choice(b(seq(s("a"), s("q"))), b(Expr::Choice(b(bracketed), b(empty_alt)))) };
    let mut rules = vec![Rule { name: "r0".into(), ty: any_ty(rng), expr: r0 }];
    if through_second {
        let e = match rng.below(3) {
            0 => id("r0"),
            1 => Expr::Choice(b(s("q")), b(id("r0"))),
            _ => seq(Expr::Opt(b(s(" "))), id("r0")),
        };
        rules.push(Rule { name: "r1".into(), ty: any_ty(rng), expr: e });
    }
    rules
}

/// Repetitions whose body may succeed without consuming.
fn gen_stuck_rep(rng: &mut Rng) -> Vec<Rule> {
    if rng.chance(1, 3) {
        return gen_multi_rep(rng);
    }
    if rng.chance(1, 4) {
        return gen_self_rep(rng);
    }
    let mut rules = vec![];
    let nullable_rule = rng.chance(1, 2);
    let body = if nullable_rule {
        id("n")
    } else {
        let h = nullable_head(rng);
        match rng.below(5) {
            0 => h,
            1 => Expr::Choice(b(s("a")), b(h)),
            2 => seq(h, nullable_head(rng)),
            3 => Expr::Choice(b(seq(s("a"), s("b"))), b(h)),
            _ => Expr::RepExact(b(h), 2),
        }
    };
    let rep = match rng.below(4) {
        0 => Expr::Rep(b(body)),
        1 => Expr::RepOnce(b(body)),
        2 => Expr::RepMin(b(body), rng.below(3) as u32),
        _ => seq(Expr::Rep(b(body)), s("z")),
    };
    // anywhere in an expression: the validator has to look inside every operator
    let rep = match rng.below(14) {
        0 => Expr::RepMax(b(seq(rep, s("n"))), 3),
        1 => Expr::RepExact(b(rep), 2),
        2 => Expr::RepMinMax(b(seq(s("k"), rep)), 1, 3),
        3 => Expr::Opt(b(seq(rep, s("o")))),
        4 => seq(s("p"), Expr::PosPred(b(rep))),
        5 => seq(Expr::NegPred(b(seq(rep, s("q")))), s("x")),
        6 => Expr::Choice(b(s("c")), b(seq(rep, s("d")))),
        7 => Expr::RepMin(b(seq(s("m"), rep)), 2),
        8 => {
            #[cfg(feature = "grammar-extras")]
            {
                Expr::NodeTag(b(seq(rep, s("t"))), "t".into())
            }
            #[cfg(not(feature = "grammar-extras"))]
            {
                seq(s("u"), seq(rep, s("v")))
            }
        }
        9 => Expr::RepOnce(b(seq(s("w"), rep))),
        _ => rep,
    };
    let as_skip = rng.chance(1, 4);
    if as_skip {
        // the implicit repetition of WHITESPACE / COMMENT
        let name = if rng.chance(1, 2) { "WHITESPACE" } else { "COMMENT" };
        let h = nullable_head(rng);
        let e = match rng.below(3) {
            0 => h,
            1 => Expr::Choice(b(s(" ")), b(h)),
            _ => seq(h, nullable_head(rng)),
        };
        rules.push(Rule { name: "r0".into(), ty: any_ty(rng), expr: seq(s("a"), s("b")) });
        let sty = *rng.pick(&[RuleType::Silent, RuleType::Silent, RuleType::Normal, RuleType::Atomic, RuleType::CompoundAtomic, RuleType::NonAtomic]);
        rules.push(Rule { name: name.into(), ty: sty, expr: e });
    } else {
        rules.push(Rule { name: "r0".into(), ty: any_ty(rng), expr: rep });
    }
    if nullable_rule && !as_skip {
        let e = match rng.below(3) {
            0 => nullable_head(rng),
            1 => Expr::Choice(b(s("a")), b(nullable_head(rng))),
            _ => seq(nullable_head(rng), nullable_head(rng)),
        };
        rules.push(Rule { name: "n".into(), ty: any_ty(rng), expr: e });
    }
    rules
}

/// Independent analysis used only to *explain* an observed re-entry: is there a cycle of
/// leftmost rule references when only the references written in the grammar are followed
/// (the implicit WHITESPACE/COMMENT calls ignored)?
fn explicit_left_cycle(rules: &[Rule]) -> bool {
    use std::collections::{HashMap, HashSet};
    let idx: HashMap<&str, usize> = rules.iter().enumerate().map(|(i, r)| (r.name.as_str(), i)).collect();
    // least fixpoint of "may succeed without consuming input"
    let mut nullable = vec![false; rules.len()];
    fn nul(e: &Expr, idx: &HashMap<&str, usize>, nullable: &[bool]) -> bool {
        match e {
            Expr::Str(s) | Expr::Insens(s) => s.is_empty(),
            Expr::Range(..) | Expr::PeekSlice(..) | Expr::Skip(_) => false,
            Expr::Ident(n) => match idx.get(n.as_str()) {
                Some(i) => nullable[*i],
                None => n == "SOI" || n == "EOI",
            },
            Expr::PosPred(_) | Expr::NegPred(_) | Expr::Opt(_) | Expr::Rep(_) | Expr::RepMax(..) => true,
            Expr::Seq(a, b) => nul(a, idx, nullable) && nul(b, idx, nullable),
            Expr::Choice(a, b) => nul(a, idx, nullable) || nul(b, idx, nullable),
            Expr::RepOnce(i) | Expr::Push(i) => nul(i, idx, nullable),
            Expr::RepExact(i, n) | Expr::RepMin(i, n) | Expr::RepMinMax(i, n, _) => *n == 0 || nul(i, idx, nullable),
            #[cfg(feature = "grammar-extras")]
            Expr::NodeTag(i, _) => nul(i, idx, nullable),
            #[cfg(feature = "grammar-extras")]
            Expr::PushLiteral(_) => true,
        }
    }
    loop {
        let mut changed = false;
        for (i, r) in rules.iter().enumerate() {
            if !nullable[i] && nul(&r.expr, &idx, &nullable) {
                nullable[i] = true;
                changed = true;
            }
        }
        if !changed {
            break;
        }
    }
    fn left(e: &Expr, idx: &HashMap<&str, usize>, nullable: &[bool], out: &mut HashSet<usize>) {
        match e {
            Expr::Ident(n) => {
                if let Some(i) = idx.get(n.as_str()) {
                    out.insert(*i);
                }
            }
            Expr::Seq(a, b) => {
                left(a, idx, nullable, out);
                if nul(a, idx, nullable) {
                    left(b, idx, nullable, out);
                }
            }
            Expr::Choice(a, b) => {
                left(a, idx, nullable, out);
                left(b, idx, nullable, out);
            }
            Expr::PosPred(i) | Expr::NegPred(i) | Expr::Opt(i) | Expr::Rep(i) | Expr::RepOnce(i) | Expr::Push(i) | Expr::RepExact(i, _) | Expr::RepMin(i, _) | Expr::RepMax(i, _) | Expr::RepMinMax(i, _, _) => left(i, idx, nullable, out),
            #[cfg(feature = "grammar-extras")]
            Expr::NodeTag(i, _) => left(i, idx, nullable, out),
            _ => {}
        }
    }
    let edges: Vec<HashSet<usize>> = rules
        .iter()
        .map(|r| {
            let mut o = HashSet::new();
            left(&r.expr, &idx, &nullable, &mut o);
            o
        })
        .collect();
    // cycle detection
    for start in 0..rules.len() {
        let mut seen = HashSet::new();
        let mut stack: Vec<usize> = edges[start].iter().copied().collect();
        while let Some(x) = stack.pop() {
            if x == start {
                return true;
            }
            if seen.insert(x) {
                stack.extend(edges[x].iter().copied());
            }
        }
    }
    false
}

/// Renames one rule to the name of a non-keyword built-in (a grammar may define those).
fn rename_like_builtin(mut rules: Vec<Rule>, rng: &mut Rng) -> Vec<Rule> {
    let cands: Vec<usize> = (0..rules.len()).filter(|i| rules[*i].name != "WHITESPACE" && rules[*i].name != "COMMENT").collect();
    if cands.is_empty() {
        return rules;
    }
    let i = *rng.pick(&cands);
    let old = rules[i].name.clone();
    let new = rng.pick(&["NEWLINE", "ASCII_DIGIT", "LETTER", "SPACE_SEPARATOR", "ASCII_ALPHA"]).to_string();
    if rules.iter().any(|r| r.name == new) {
        return rules;
    }
    fn ren(e: Expr, old: &str, new: &str) -> Expr {
        e.map_bottom_up(|x| match x {
            Expr::Ident(n) if n == old => Expr::Ident(new.to_string()),
            o => o,
        })
    }
    for r in rules.iter_mut() {
        r.expr = ren(r.expr.clone(), &old, &new);
    }
    rules[i].name = new;
    rules
}

#[derive(Debug)]
enum Verdict {
    Terminated,
    Reentry(String, usize),
    StuckRepeat,
    Budget,
    OtherPanic(String),
}

fn run_monitored(optimized: Vec<pest_meta::optimizer::OptimizedRule>, rule: &str, input: &str) -> (Verdict, u64) {
    let vm = pest_vm::Vm::new_with_listener(optimized, Box::new(|_, _| pest::verif::vm_reentry().is_some()));
    pest::set_call_limit(std::num::NonZeroUsize::new(LIMIT));
    pest::verif::enable(true);
    pest::verif::set_cap(0);
    pest::verif::panic_on_stuck_repeat(true);
    let r = catch_unwind(AssertUnwindSafe(|| {
        let _ = vm.parse(rule, input);
    }));
    let reentry = pest::verif::vm_reentry();
    let fin = pest::verif::last_final();
    pest::verif::panic_on_stuck_repeat(false);
    pest::verif::enable(false);
    pest::set_call_limit(None);
    let calls = fin.as_ref().map_or(0, |f| f.calls as u64);
    if let Some((r, p)) = reentry {
        return (Verdict::Reentry(r, p), calls);
    }
    match r {
        Err(p) => {
            let m = vmon::pestrun::panic_message(&p);
            if m.contains("stuck repeat") {
                (Verdict::StuckRepeat, calls)
            } else {
                (Verdict::OtherPanic(m), calls)
            }
        }
        Ok(()) => {
            if fin.map_or(false, |f| f.calls >= LIMIT) {
                (Verdict::Budget, calls)
            } else {
                (Verdict::Terminated, calls)
            }
        }
    }
}

fn uses_stack(rules: &[Rule]) -> bool {
    rules.iter().any(|r| {
        r.expr.iter_top_down().any(|e| match e {
            Expr::Push(_) | Expr::PeekSlice(..) => true,
            #[cfg(feature = "grammar-extras")]
            Expr::PushLiteral(_) => true,
            Expr::Ident(n) => matches!(n.as_str(), "POP" | "PEEK" | "DROP" | "POP_ALL" | "PEEK_ALL"),
            _ => false,
        })
    })
}

fn part_a_case(rep: &mut Report, family: &str, text: &str, rule: &str, input: &str) {
    // one witness per grammar is enough
    if rep.notes.get("last_violating_grammar").and_then(|v| v.as_str()) == Some(text) {
        return;
    }
    let optimized = match pest_meta::parse_and_optimize(text) {
        Ok((_, o)) => o,
        Err(_) => return,
    };
    rep.count("evaluations");
    rep.count("a_parses_monitored");
    let (v, calls) = run_monitored(optimized, rule, input);
    rep.add("a_calls_total", calls);
    match v {
        Verdict::Terminated => {
            rep.count("a_terminated");
        }
        Verdict::Budget => {
            rep.inconclusive(json!({"why":"call limit reached without a monitor event","grammar":text,"rule":rule,"input":input}));
        }
        Verdict::OtherPanic(m) => {
            // not this property's business (e.g. nothing should panic without the stack built-ins,
            // but C01 judges results); count it
            rep.count("a_other_panic");
            rep.notes.insert("a_other_panic_sample".into(), json!({"grammar":text,"rule":rule,"input":input,"message":m}));
        }
        Verdict::Reentry(r, p) => {
            rep.notes.insert("last_violating_grammar".into(), json!(text));
            let w = json!({"property":"C06","part":"A","family":family,"config":config_name(),"grammar":text,"rule":rule,"input":input,
                "expected":"an accepted grammar without stack built-ins never re-enters a rule without consuming input",
                "observed": format!("rule {r} entered at position {p} while an activation of {r} entered at {p} with the same atomicity was still open")});
            // known: the validator does not follow the implicit WHITESPACE/COMMENT calls. Explained only
            // if the references written in the grammar form no leftmost cycle at all.
            if let Ok((ast, _)) = read_grammar(text) {
                let has_skip = ast.iter().any(|r| r.name == "WHITESPACE" || r.name == "COMMENT");
                if has_skip && !explicit_left_cycle(&ast) {
                    rep.known_finding("c06-left-recursion-through-implicit-skip", w);
                    return;
                }
            }
            rep.violation(json!({"property":"C06","part":"A","family":family,"config":config_name(),"grammar":text,"rule":rule,"input":input,
                "expected":"an accepted grammar without stack built-ins never re-enters a rule without consuming input",
                "observed": format!("rule {r} entered at position {p} while an activation of {r} entered at {p} with the same atomicity was still open")}));
        }
        Verdict::StuckRepeat => {
            rep.notes.insert("last_violating_grammar".into(), json!(text));
            rep.violation(json!({"property":"C06","part":"A","family":family,"config":config_name(),"grammar":text,"rule":rule,"input":input,
                "expected":"an accepted grammar without stack built-ins has no repetition that iterates without consuming input",
                "observed":"a repeat iteration succeeded with the position unchanged (it would loop forever)"}));
        }
    }
}

pub fn run(args: &Args) {
    let mut rep = Report::new(args);
    if let Some(path) = &args.replay {
        let v: serde_json::Value = serde_json::from_str(&std::fs::read_to_string(path).expect("replay file")).expect("json");
        let w = if v["witness"].is_object() { v["witness"].clone() } else { v.clone() };
        let text = w["grammar"].as_str().unwrap();
        if w["part"] == "B" {
            part_b_case(&mut rep, text);
        } else {
            part_a_case(&mut rep, "replay", text, w["rule"].as_str().unwrap(), w["input"].as_str().unwrap());
        }
        rep.finish(args);
        return;
    }
    let mut rng = Rng::new(args.seed, "c06", args.shard);
    if args.shard == 0 {
        for k in vmon::shard::load_known(&args.known, "C06") {
            if let Some(g) = k.witness["grammar"].as_str() {
                rep.count("known_witnesses_replayed");
                if k.witness["part"] == "B" {
                    part_b_case(&mut rep, g);
                } else {
                    part_a_case(&mut rep, "regression", g, k.witness["rule"].as_str().unwrap_or("r0"), k.witness["input"].as_str().unwrap_or(""));
                }
            }
        }
    }
    let n = args.budget(40_000, 2_000_000);
    let mut cfg_a = GenCfg::new(Profile::NoStack);
    cfg_a.wild_left_refs_pct = 45;
    cfg_a.max_rules = 4;
    cfg_a.shapes_pct = 10;
    cfg_a.builtin_named_rules = true;
    let mut cfg_b = GenCfg::new(Profile::Guarded);
    cfg_b.max_rules = 6;
    cfg_b.max_depth = 5;
    let inputs_small: Vec<String> = {
        let (v, _) = vmon::inputs::exhaustive(&['x', 'a', ' ', 'q'], 90);
        v
    };
    for i in 0..n {
        if rep.elapsed() > args.max_s {
            rep.notes.insert("stopped_early_at".into(), json!(i));
            break;
        }
        let mut grng = rng.fork();
        // ---- part A
        let (family, rules) = match i % 4 {
            0 => ("cycle", gen_cycle(&mut grng)),
            1 => ("stuck_repetition", gen_stuck_rep(&mut grng)),
            _ => ("generator_no_stack_wild_left_refs", gen_grammar(&mut grng, &cfg_a)),
        };
        let rules = if family != "generator_no_stack_wild_left_refs" && grng.chance(1, 4) { rename_like_builtin(rules, &mut grng) } else { rules };
        let text = vmon::print::rules_to_string(&rules);
        rep.count(&format!("a_generated:{family}"));
        debug_assert!(!uses_stack(&rules));
        match pest_meta::parse_and_optimize(&text) {
            Err(_) => rep.count(&format!("a_rejected:{family}")),
            Ok(_) => {
                rep.count(&format!("a_accepted:{family}"));
                let h = hash_bytes(&[text.as_bytes()]);
                rep.nontrivial(h, hash_bytes(&[family.as_bytes(), &[rules.len() as u8]]));
                rep.sample_slot(&format!("A:{family}"), || json!({"part":"A","family":family,"grammar":text}));
                let inputs: Vec<String> = if family == "generator_no_stack_wild_left_refs" {
                    vmon::inputs::inputs_for(&rules, &mut grng, 4, 1, 40).0
                } else {
                    inputs_small.clone()
                };
                for r in &rules {
                    for input in &inputs {
                        rep.journal(|| json!({"part":"A","grammar":text,"rule":r.name,"input":input}));
                        part_a_case(&mut rep, family, &text, &r.name, input);
                    }
                }
            }
        }
        // ---- part B
        let rules = gen_grammar(&mut grng, &cfg_b);
        let text = vmon::print::rules_to_string(&rules);
        rep.count("b_generated");
        let h = hash_bytes(&[text.as_bytes()]);
        let shape = rules.iter().map(|r| r.expr.iter_top_down().count()).sum::<usize>();
        rep.nontrivial(h, hash_bytes(&[b"B", &[rules.len() as u8, (shape / 4) as u8]]));
        rep.sample_slot("B", || json!({"part":"B","grammar":text}));
        part_b_case(&mut rep, &text);
    }
    rep.finish(args);
}

fn part_b_case(rep: &mut Report, text: &str) {
    rep.count("evaluations");
    rep.count("b_checked");
    match pest_meta::parse_and_optimize(text) {
        Ok(_) => rep.count("b_accepted"),
        Err(es) => {
            let msgs: Vec<String> = es.iter().map(|e| e.variant.message().to_string()).collect();
            rep.violation(json!({"property":"C06","part":"B","config":config_name(),"grammar":text,
                "expected":"accepted: every repetition body, non-final alternative and recursive path begins with a consuming terminal",
                "observed": msgs}));
        }
    }
}
