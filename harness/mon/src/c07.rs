//! C07: the grammar reader reconstructs exactly the grammar that was written.
//! Abstract grammar -> concrete syntax in spelling-fuzz mode -> pest_meta reader -> must be equal.

use crate::common::*;
use pest_meta::ast::{Expr, Rule};
use serde_json::json;
use vmon::gen::{gen_grammar, GenCfg, Profile};
use vmon::print::Printer;
use vmon::rng::{hash_bytes, Rng};
use vmon::shard::{Args, Report};

fn kinds(rules: &[Rule]) -> u32 {
    let mut k = 0u32;
    for r in rules {
        for e in r.expr.iter_top_down() {
            k |= 1 << match e {
                Expr::Str(_) => 0,
                Expr::Insens(_) => 1,
                Expr::Range(..) => 2,
                Expr::Ident(_) => 3,
                Expr::PeekSlice(..) => 4,
                Expr::PosPred(_) => 5,
                Expr::NegPred(_) => 6,
                Expr::Seq(..) => 7,
                Expr::Choice(..) => 8,
                Expr::Opt(_) => 9,
                Expr::Rep(_) => 10,
                Expr::RepOnce(_) => 11,
                Expr::RepExact(..) => 12,
                Expr::RepMin(..) => 13,
                Expr::RepMax(..) => 14,
                Expr::RepMinMax(..) => 15,
                Expr::Skip(_) => 16,
                Expr::Push(_) => 17,
                #[cfg(feature = "grammar-extras")]
                Expr::PushLiteral(_) => 18,
                #[cfg(feature = "grammar-extras")]
                Expr::NodeTag(..) => 19,
            };
        }
    }
    k
}

const KIND_NAMES: &[&str] = &[
    "str", "insens", "range", "ident", "peek_slice", "pos_pred", "neg_pred", "seq", "choice", "opt", "rep", "rep_once", "rep_exact", "rep_min",
    "rep_max", "rep_min_max", "skip", "push", "push_literal", "node_tag",
];

fn read(text: &str) -> Result<Vec<Rule>, String> {
    let pairs = pest_meta::parser::parse(pest_meta::parser::Rule::grammar_rules, text).map_err(|e| format!("syntax: {e}"))?;
    pest_meta::parser::consume_rules(pairs).map_err(|es| format!("validation: {}", es.iter().map(|e| e.variant.message().to_string()).collect::<Vec<_>>().join("; ")))
}

thread_local! {
    /// the near-miss text read (and refused or not) just before the current case, if any
    static AFTER: std::cell::RefCell<Option<String>> = const { std::cell::RefCell::new(None) };
}

fn after() -> serde_json::Value {
    AFTER.with(|a| json!(a.borrow().clone()))
}

fn check(rep: &mut Report, rules: &[Rule], text: &str, canonical: &str) {
    rep.count("evaluations");
    let r = std::panic::catch_unwind(|| read(text));
    let features = (text.contains("/*") as u8) | ((text.contains("//") as u8) << 1) | ((text.contains('\\') as u8) << 2) | ((text.contains("((") as u8) << 3) | ((text.contains("\r\n") as u8) << 4);
    let k = kinds(rules);
    match r {
        Err(p) => {
            rep.violation(json!({"property":"C07","config":config_name(),"text":text,"canonical":canonical,"after_reading":after(),
                "expected":"the rules that were printed","observed":format!("panic: {}", vmon::pestrun::panic_message(&p))}));
        }
        Ok(Err(msg)) => {
            // a legal spelling of a grammar must be read exactly when its canonical spelling is:
            // whether the validator likes the grammar is C06's business, but that verdict (and
            // readability itself) must not depend on spacing, comments, escapes or parentheses
            if text != canonical && read(canonical).is_ok() {
                rep.violation(json!({"property":"C07","config":config_name(),"text":text,"canonical":canonical,"after_reading":after(),
                    "expected":"the rules that were printed (the canonical spelling of the same grammar is read back)","observed":msg}));
            } else if msg.starts_with("syntax") {
                // our own canonical spelling is not readable: the printer or the reader is wrong
                rep.violation(json!({"property":"C07","config":config_name(),"text":text,"canonical":canonical,"after_reading":after(),
                    "expected":"a grammar written in pest's concrete syntax parses","observed":msg}));
            } else if msg.contains("overflow") || msg.contains("incorrect") {
                // refused by the reader itself, in every spelling: but the index, count or character it refuses is one
                // the abstract grammar holds (an i32 slice index, a u32 count, a char), so it has a spelling to be read from
                rep.violation(json!({"property":"C07","config":config_name(),"text":text,"canonical":canonical,"after_reading":after(),
                    "expected":"the rules that were printed: every i32 slice index, u32 count and character has a spelling the reader accepts","observed":msg}));
            } else {
                rep.count("rejected_in_any_spelling");
            }
        }
        Ok(Ok(back)) => {
            rep.count("read_back");
            if k.count_ones() >= 3 && features != 0 {
                rep.nontrivial(hash_bytes(&[text.as_bytes()]), hash_bytes(&[&k.to_le_bytes(), &[features]]));
                rep.count_bits("kind:", k, KIND_NAMES);
                for (i, n) in ["block_comment", "line_comment", "escape", "nested_parens", "crlf"].iter().enumerate() {
                    if features & (1 << i) != 0 {
                        rep.count(&format!("spelling:{n}"));
                    }
                }
                rep.sample(|| json!({"text": text, "canonical": canonical}));
            }
            if back != rules {
                let first = back.iter().zip(rules.iter()).find(|(a, b)| a != b);
                rep.violation(json!({"property":"C07","config":config_name(),"text":text,"canonical":canonical,"after_reading":after(),
                    "expected": first.map(|(_, b)| format!("{b:?}")).unwrap_or_else(|| format!("{} rules", rules.len())),
                    "observed": first.map(|(a, _)| format!("{a:?}")).unwrap_or_else(|| format!("{} rules", back.len()))}));
            }
        }
    }
}

pub fn run(args: &Args) {
    let mut rep = Report::new(args);
    if let Some(path) = &args.replay {
        let v: serde_json::Value = serde_json::from_str(&std::fs::read_to_string(path).expect("replay file")).expect("json");
        let w = if v["witness"].is_object() { v["witness"].clone() } else { v.clone() };
        let text = w["text"].as_str().unwrap();
        let canonical = w["canonical"].as_str().unwrap();
        if let Some(bad) = w["after_reading"].as_str() {
            // the case was observed after this text had been read on the same thread
            let _ = std::panic::catch_unwind(|| read(bad).is_ok());
            AFTER.with(|a| *a.borrow_mut() = Some(bad.to_string()));
            let _ = read(canonical);
            let _ = std::panic::catch_unwind(|| read(bad).is_ok());
        }
        match read(canonical) {
            Ok(rules) => check(&mut rep, &rules, text, canonical),
            Err(e) => {
                rep.notes.insert("replay_canonical_unreadable".into(), json!(e));
            }
        }
        rep.finish(args);
        return;
    }
    let mut rng = Rng::new(args.seed, "c07", args.shard);
    if args.shard == 0 {
        for k in vmon::shard::load_known(&args.known, "C07") {
            if let (Some(t), Some(c)) = (k.witness["text"].as_str(), k.witness["canonical"].as_str()) {
                if let Ok(rules) = read(c) {
                    rep.count("known_witnesses_replayed");
                    check(&mut rep, &rules, t, c);
                }
            }
        }
    }
    let n = args.budget(60_000, 5_000_000);
    let mut cfg = GenCfg::new(Profile::Guarded);
    cfg.wide_literals = true;
    cfg.stack_anyway = true;
    cfg.max_rules = 4;
    cfg.max_depth = 5;
    cfg.max_count = 40;
    let tcfg = vmon::textgen::default_cfg();
    for i in 0..n {
        if rep.elapsed() > args.max_s {
            rep.notes.insert("stopped_early_at".into(), json!(i));
            break;
        }
        let mut grng = rng.fork();
        let rules = gen_grammar(&mut grng, &cfg);
        let canonical = vmon::print::rules_to_string(&rules);
        // the canonical spelling itself
        if i % 8 == 0 {
            check(&mut rep, &rules, &canonical, &canonical);
        }
        let text = Printer::fuzz(&mut grng).rules(&rules);
        // one case in three: a near-miss text (refused for most of them) is read first on this thread; what the
        // reader answers for the grammar after it may not depend on that
        if i % 3 == 1 {
            let (bad, _, _) = vmon::textgen::gen_text(&mut grng, i, &[], &tcfg);
            let bad = if grng.chance(1, 2) { format!("x = {{ {} }}", vmon::textgen::escape_literal(&mut grng)) } else { bad };
            rep.count("cases_after_a_near_miss_text");
            if std::panic::catch_unwind(|| read(&bad).is_ok()).unwrap_or(false) {
                rep.count("near_miss_texts_that_were_accepted");
            }
            AFTER.with(|a| *a.borrow_mut() = Some(bad));
        } else {
            AFTER.with(|a| *a.borrow_mut() = None);
        }
        rep.journal(|| json!({"text": text, "canonical": canonical, "after_reading": after()}));
        check(&mut rep, &rules, &text, &canonical);
    }
    rep.finish(args);
}
