//! C05: optimizer passes preserve meaning.
//! (a) each pass at the semantics level: REF(R) vs REF(p(R)) for p applied to the raw AST and to
//!     the pipeline prefix it normally sees; (b) the whole pipeline on the real engine vs REF(R),
//!     including the final stack; (c) attribution by leaving single passes out.

use crate::common::*;
use pest_meta::ast::{Expr, Rule};
use pest_meta::optimizer::verif_passes as p;
use pest_meta::optimizer::OptimizedRule;
use serde_json::json;
use vmon::gen::{gen_grammar, GenCfg, Profile};
use vmon::model::Outcome;
use vmon::pestrun::{run_vm, same_outcome};
use vmon::reference::{opbit, PlusReading, Ref};
use vmon::rng::{hash_bytes, Rng};
use vmon::shard::{Args, Report};

const PASSES: &[&str] = &["rotate", "skip", "unroll", "concatenate", "factor", "list"];

fn apply(pass: &str, rules: &[Rule]) -> Vec<Rule> {
    let map = p::rule_map(rules);
    rules
        .iter()
        .cloned()
        .map(|r| match pass {
            "rotate" => p::rotate(r),
            "skip" => p::skip(r, &map),
            "unroll" => p::unroll(r),
            "concatenate" => p::concatenate(r),
            "factor" => p::factor(r),
            "list" => p::list(r),
            _ => unreachable!(),
        })
        .collect()
}

/// The pipeline of `optimize`, optionally with one pass left out.
fn pipeline(rules: &[Rule], omit: Option<&str>) -> Vec<OptimizedRule> {
    let mut cur = rules.to_vec();
    for pass in PASSES {
        if Some(*pass) == omit {
            continue;
        }
        // the skipper's inlining map is the map of the *original* rules, as in optimize()
        if *pass == "skip" {
            let map = p::rule_map(rules);
            cur = cur.into_iter().map(|r| p::skip(r, &map)).collect();
        } else {
            cur = apply(pass, &cur);
        }
    }
    let opt: Vec<OptimizedRule> = cur.into_iter().map(p::to_optimized).collect();
    if omit == Some("restore_on_err") {
        return opt;
    }
    let map = p::optimized_rule_map(&opt);
    opt.into_iter().map(|r| p::restore_on_err(r, &map)).collect()
}

/// The rewrite the lister documents, and nothing else: `(a ~ b)* ~ a` -> `a ~ (b ~ a)*`, bottom-up.
fn documented_list(rule: Rule) -> Rule {
    let Rule { name, ty, expr } = rule;
    let expr = expr.map_bottom_up(|e| match e {
        Expr::Seq(l, r) => match *l {
            Expr::Rep(inner) => match *inner {
                Expr::Seq(l1, l2) if l1 == r => Expr::Seq(l1, Box::new(Expr::Rep(Box::new(Expr::Seq(l2, r))))),
                other => Expr::Seq(Box::new(Expr::Rep(Box::new(other))), r),
            },
            other => Expr::Seq(Box::new(other), r),
        },
        other => other,
    });
    Rule { name, ty, expr }
}

fn reference(rules: &[Rule], rule: &str, input: &str, plus: PlusReading) -> (Outcome, u32) {
    let mut r = Ref::new(rules, input);
    r.plus = plus;
    let o = r.parse(rule);
    (o, r.ops_seen)
}

fn has_rep_once(rules: &[Rule]) -> bool {
    rules.iter().any(|r| r.expr.iter_top_down().any(|e| matches!(e, Expr::RepOnce(_))))
}

pub fn run(args: &Args) {
    let mut rep = Report::new(args);
    if let Some(path) = &args.replay {
        let v: serde_json::Value = serde_json::from_str(&std::fs::read_to_string(path).expect("replay file")).expect("json");
        let text = v["grammar"].as_str().unwrap_or_else(|| v["witness"]["grammar"].as_str().unwrap());
        let rule = v["rule"].as_str().unwrap_or_else(|| v["witness"]["rule"].as_str().unwrap());
        let input = v["input"].as_str().unwrap_or_else(|| v["witness"]["input"].as_str().unwrap());
        if let Ok((ast, _)) = read_grammar(text) {
            check_grammar_case(&mut rep, text, &ast, None, rule, input);
        }
        rep.finish(args);
        return;
    }
    let mut rng = Rng::new(args.seed, "c05", args.shard);
    let n_grammars = args.budget(10_000, 1_000_000);
    let mut cfg = GenCfg::new(Profile::Full);
    cfg.nonatomic_skip_rules = true;
    cfg.shapes_pct = 45;
    cfg.skipper_pct = 8;
    // witnesses of fixed / known entries are replayed on every run (shard 0)
    if args.shard == 0 {
        for k in vmon::shard::load_known(&args.known, "C05") {
            if let (Some(g), Some(r), Some(i)) = (k.witness["grammar"].as_str(), k.witness["rule"].as_str(), k.witness["input"].as_str()) {
                if let Some(c) = k.witness["config"].as_str() {
                    if c != config_name() {
                        continue;
                    }
                }
                if let Ok((ast, _)) = read_grammar(g) {
                    rep.count("known_witnesses_replayed");
                    check_grammar_case(&mut rep, g, &ast, None, r, i);
                }
            }
        }
    }
    unicode_families(args, &mut rep);
    for gi in 0..n_grammars {
        if rep.elapsed() > args.max_s {
            rep.notes.insert("stopped_early_at_grammar".into(), json!(gi));
            break;
        }
        let mut grng = rng.fork();
        cfg.builtin_named_rules = gi % 5 == 4;
        let gcfg = cfg.vary(&mut grng);
        let rules = gen_grammar(&mut grng, &gcfg);
        let text = vmon::print::rules_to_string(&rules);
        rep.count("grammars_generated");
        let (ast, _optimized) = match read_grammar(&text) {
            Ok(x) => x,
            Err(_) => {
                rep.count("grammars_rejected_by_pest");
                continue;
            }
        };
        rep.count("grammars_used");
        // which passes change this grammar (on the pipeline prefix they normally see)?
        let mut cur = ast.clone();
        let mut stages: Vec<(&str, Vec<Rule>, Vec<Rule>)> = vec![];
        for pass in PASSES {
            let next = if *pass == "skip" {
                let map = p::rule_map(&ast);
                cur.iter().cloned().map(|r| p::skip(r, &map)).collect()
            } else {
                apply(pass, &cur)
            };
            if next != cur {
                rep.count(&format!("pass_changed_grammar:{pass}"));
                stages.push((pass, cur.clone(), next.clone()));
            }
            cur = next;
        }
        // layer (b) judges what `optimize` really returns; the pipeline rebuilt from the single pass
        // functions is used only to see which passes rewrote the grammar and for attribution
        let full = _optimized;
        let restorer_changed = pipeline(&ast, None) != pipeline(&ast, Some("restore_on_err"));
        if restorer_changed {
            rep.count("pass_changed_grammar:restore_on_err");
        }
        let vm = pest_vm::Vm::new(full);
        let (inputs, l, n_exh) = vmon::inputs::inputs_for(&ast, &mut grng, 10, 2, if args.thorough { 400 } else { 160 });
        rep.add("exhaustive_len_sum", l as u64);
        rep.add("exhaustive_inputs", n_exh as u64);
        for r in &ast {
            for input in &inputs {
                rep.journal(|| json!({"grammar": text, "rule": r.name, "input": input}));
                check_case(&mut rep, &text, &ast, &stages, Some(&vm), &r.name, input, restorer_changed);
            }
        }
    }
    rep.finish(args);
}

/// Two small families over ALL advertised Unicode property names (the random generator only knows a
/// handful): the skipper's `(!NAME ~ ANY)*` shape in an atomic rule, and choices between a grouped
/// category and names that merely look related to it. Inputs use real members of each property,
/// including members outside the BMP.
fn unicode_families(args: &Args, rep: &mut Report) {
    let names: Vec<&str> = pest::unicode::unicode_property_names().collect();
    let groups = ["LETTER", "CASED_LETTER", "MARK", "NUMBER", "PUNCTUATION", "SYMBOL", "SEPARATOR", "OTHER"];
    let members = |name: &str| -> Vec<char> {
        let Some(f) = pest::unicode::by_name(name) else { return vec![] };
        let mut out = vec![];
        if let Some(c) = (0u32..0x3000).filter_map(char::from_u32).find(|c| f(*c)) {
            out.push(c);
        }
        if let Some(c) = (0x3000u32..0x10000).rev().filter_map(char::from_u32).find(|c| f(*c)) {
            out.push(c);
        }
        if let Some(c) = (0x10000u32..0x110000).filter_map(char::from_u32).find(|c| f(*c)) {
            out.push(c);
        }
        out
    };
    for (ni, name) in names.iter().enumerate() {
        if ni as u64 % args.nshards != args.shard {
            continue;
        }
        let ms = members(name);
        if ms.is_empty() {
            continue;
        }
        rep.count("unicode_family_names");
        let mut grammars: Vec<String> = vec![
            format!("r = @{{ (!{name} ~ ANY)* }}\n"),
            format!("r = @{{ (!({name} | \"q\") ~ ANY)* ~ {name}? }}\n"),
        ];
        for g in groups {
            if *name != g && (name.ends_with(&format!("_{g}")) || ni % 37 == 0) {
                grammars.push(format!("r = {{ ({g} | {name})+ }}\n"));
                grammars.push(format!("r = {{ ({name} | {g})+ }}\n"));
                grammars.push(format!("r = @{{ (\"z\" | {g} | {name})* ~ \"!\" }}\n"));
            }
        }
        let mut inputs: Vec<String> = vec!["xx".into(), "x!".into()];
        for m in &ms {
            inputs.push(format!("x{m}y"));
            inputs.push(format!("{m}{m}!"));
            inputs.push(format!("{m}x"));
        }
        for g in &grammars {
            if let Ok((ast, _)) = read_grammar(g) {
                rep.count("unicode_family_grammars");
                for i in &inputs {
                    check_grammar_case(rep, g, &ast, None, "r", i);
                }
            }
        }
    }
}

fn check_grammar_case(rep: &mut Report, text: &str, ast: &[Rule], _vm: Option<&pest_vm::Vm>, rule: &str, input: &str) {
    let mut cur = ast.to_vec();
    let mut stages: Vec<(&str, Vec<Rule>, Vec<Rule>)> = vec![];
    for pass in PASSES {
        let next = if *pass == "skip" {
            let map = p::rule_map(ast);
            cur.iter().cloned().map(|r| p::skip(r, &map)).collect()
        } else {
            apply(pass, &cur)
        };
        if next != cur {
            stages.push((pass, cur.clone(), next.clone()));
        }
        cur = next;
    }
    let vm = pest_vm::Vm::new(pest_meta::optimizer::optimize(ast.to_vec()));
    check_case(rep, text, ast, &stages, Some(&vm), rule, input, true);
}

#[allow(clippy::too_many_arguments)]
fn check_case(rep: &mut Report, text: &str, ast: &[Rule], stages: &[(&str, Vec<Rule>, Vec<Rule>)], vm: Option<&pest_vm::Vm>, rule: &str, input: &str, restorer_changed: bool) {
    let (base, ops) = reference(ast, rule, input, PlusReading::Native);
    rep.count("evaluations");
    match base {
        Outcome::Diverges(_) | Outcome::Budget => {
            rep.count("excluded_reference_diverges_or_budget");
            return;
        }
        _ => {}
    }
    let touched = !stages.is_empty() || restorer_changed;
    if touched && ops.count_ones() >= 3 && !input.is_empty() {
        let h = hash_bytes(&[text.as_bytes(), rule.as_bytes(), input.as_bytes()]);
        let names: Vec<&str> = stages.iter().map(|s| s.0).collect();
        let sig = hash_bytes(&[&ops.to_le_bytes(), base.kind().as_bytes(), names.join(",").as_bytes(), &[restorer_changed as u8]]);
        rep.nontrivial(h, sig);
        rep.count_bits("op:", ops, opbit::NAMES);
        rep.sample_slot(&format!("{}:{}", names.first().copied().unwrap_or("restore_on_err"), base.kind()), || {
            json!({"grammar": text, "rule": rule, "input": input, "passes_that_rewrote_it": names, "restorer_rewrote_it": restorer_changed, "reference": outcome_json(&base)})
        });
    }

    // (a) per pass, at the semantics level, on the prefix the pass normally sees
    for (pass, before, after) in stages {
        rep.count(&format!("per_pass_comparisons:{pass}"));
        let (o1, _) = reference(before, rule, input, PlusReading::Native);
        let (o2, _) = reference(after, rule, input, PlusReading::Native);
        if matches!(o1, Outcome::Diverges(_) | Outcome::Budget) || matches!(o2, Outcome::Diverges(_) | Outcome::Budget) {
            rep.count("per_pass_excluded");
            continue;
        }
        if same_outcome(&o2, &o1, true) {
            continue;
        }
        let w = json!({"property":"C05","layer":"per-pass","pass":pass,"config":config_name(),"grammar":text,"rule":rule,"input":input,
            "before": vmon::print::rules_to_string_lossy(before), "after": vmon::print::rules_to_string_lossy(after),
            "expected": outcome_json(&o1), "observed": outcome_json(&o2)});
        if *pass == "list" {
            // known: the documented rewrite itself is not an equivalence. Explained only if the
            // pass did exactly the documented rewrite.
            let doc: Vec<Rule> = before.iter().cloned().map(documented_list).collect();
            if &doc == after {
                rep.known_finding("lister-rewrite-unsound", w);
                continue;
            }
        }
        if *pass == "unroll" && !cfg!(feature = "grammar-extras") && has_rep_once(before) {
            let (o1u, _) = reference(before, rule, input, PlusReading::Unrolled);
            if same_outcome(&o2, &o1u, true) {
                rep.known_finding("c01-plus-unrolled-trailing-skip", w);
                continue;
            }
            if matches!(o1u, Outcome::Budget | Outcome::Diverges(_)) {
                rep.inconclusive(json!({"why": "unroll pass disagreement, and the reference runs out of its step budget under the e ~ e* reading that would explain it", "grammar": text, "rule": rule, "input": input}));
                continue;
            }
        }
        rep.violation(w);
    }

    // (b) the whole pipeline on the real engine, final stack included
    let Some(vm) = vm else { return };
    let real = run_vm(vm, rule, input, crate::c01::VM_LIMIT, false).outcome;
    if matches!(real, Outcome::Budget) {
        rep.inconclusive(json!({"why":"vm call limit","grammar":text,"rule":rule,"input":input}));
        return;
    }
    rep.count("pipeline_comparisons");
    if same_outcome(&real, &base, true) {
        return;
    }
    let w = json!({"property":"C05","layer":"pipeline","config":config_name(),"grammar":text,"rule":rule,"input":input,
        "expected": outcome_json(&base), "observed": outcome_json(&real)});
    // (c) attribution: which single pass, left out, removes the disagreement?
    let mut fixed_by: Vec<&str> = vec![];
    for omit in ["rotate", "skip", "concatenate", "factor", "list", "restore_on_err"] {
        let vm2 = pest_vm::Vm::new(pipeline(ast, Some(omit)));
        let real2 = run_vm(&vm2, rule, input, crate::c01::VM_LIMIT, false).outcome;
        if same_outcome(&real2, &base, true) {
            fixed_by.push(omit);
        }
    }
    let mut w = w;
    w["disagreement_disappears_without_pass"] = json!(fixed_by);
    // known findings explain a disagreement only through their own predicate; they may combine
    let list_is_documented = stages.iter().find(|s| s.0 == "list").map_or(false, |(_, before, after)| {
        let doc: Vec<Rule> = before.iter().cloned().map(documented_list).collect();
        &doc == after
    });
    let plus_applicable = !cfg!(feature = "grammar-extras") && has_rep_once(ast);
    if fixed_by.contains(&"list") && list_is_documented {
        rep.known_finding("lister-rewrite-unsound", w);
        return;
    }
    if plus_applicable {
        let (base_u, _) = reference(ast, rule, input, PlusReading::Unrolled);
        if same_outcome(&real, &base_u, true) {
            rep.known_finding("c01-plus-unrolled-trailing-skip", w);
            return;
        }
        if matches!(base_u, Outcome::Budget | Outcome::Diverges(_)) {
            rep.inconclusive(json!({"why": "pipeline disagreement under the documented reading of e+, and the reference runs out of its step budget under the e ~ e* reading that would explain it", "grammar": text, "rule": rule, "input": input}));
            return;
        }
        if list_is_documented {
            let vm2 = pest_vm::Vm::new(pipeline(ast, Some("list")));
            let real2 = run_vm(&vm2, rule, input, crate::c01::VM_LIMIT, false).outcome;
            if same_outcome(&real2, &base_u, true) {
                rep.known_finding("lister-rewrite-unsound", w.clone());
                rep.known_finding("c01-plus-unrolled-trailing-skip", w);
                return;
            }
        }
    }
    rep.violation(w);
}
