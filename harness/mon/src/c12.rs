//! C12: a call limit never changes a result silently.
//! For every (grammar, input): the unlimited result, the number of calls N it needs (hook H1c),
//! then the result under every limit 1..N+3.

use crate::common::*;
use serde_json::{json, Value};
use std::num::NonZeroUsize;
use std::panic::{catch_unwind, AssertUnwindSafe};
use vmon::gen::{gen_grammar, GenCfg, Profile};
use vmon::model::Tok;
use vmon::pestrun::{err_info, toks_of, ErrInfo};
use vmon::rng::{hash_bytes, Rng};
use vmon::shard::{Args, Report};

#[derive(Clone, Debug, PartialEq)]
enum Res {
    Ok(Vec<Tok>),
    Err(ErrInfo),
    Limit,
    Panic,
}

fn show(r: &Res) -> Value {
    match r {
        Res::Ok(t) => json!({"ok": vmon::model::toks_to_string(t)}),
        Res::Err(e) => json!({"err": {"pos": e.pos, "positives": e.positives, "negatives": e.negatives, "custom": e.custom}}),
        Res::Limit => json!("call limit reached"),
        Res::Panic => json!("panic"),
    }
}

/// Parses under `limit`; returns (result, calls counted, refusals observed).
fn parse_with(vm: &pest_vm::Vm, rule: &str, input: &str, limit: usize) -> (Res, usize, usize) {
    pest::set_call_limit(NonZeroUsize::new(limit));
    pest::verif::enable(true);
    pest::verif::set_cap(1_000_000);
    let r = catch_unwind(AssertUnwindSafe(|| match vm.parse(rule, input) {
        Ok(p) => Res::Ok(toks_of(p, |r| r.to_string())),
        Err(e) => {
            let i = err_info(&e, |r| r.to_string());
            if i.custom.as_deref() == Some("call limit reached") {
                Res::Limit
            } else {
                Res::Err(i)
            }
        }
    }));
    let calls = pest::verif::last_final().map_or(0, |f| f.calls);
    let refused = pest::verif::take_events().iter().filter(|e| matches!(e, pest::verif::Event::CallRefused { .. })).count();
    pest::verif::enable(false);
    pest::set_call_limit(None);
    (r.unwrap_or(Res::Panic), calls, refused)
}

/// "No limit" for the reference run: far beyond the 400 calls a swept case may need, but finite, so that a
/// grammar that loops on the stack alone (the validator cannot reject those) ends instead of exhausting memory.
const HUGE: usize = 200_000;

fn check_case(rep: &mut Report, text: &str, optimized: &[pest_meta::optimizer::OptimizedRule], vm: &pest_vm::Vm, rule: &str, input: &str, max_n: usize) {
    let (r_inf, n, _) = parse_with(vm, rule, input, HUGE);
    if matches!(r_inf, Res::Panic) {
        rep.count("skipped_unlimited_parse_panics");
        return;
    }
    if matches!(r_inf, Res::Limit) {
        rep.count("skipped_too_many_calls");
        return;
    }
    if n > max_n {
        rep.count("skipped_too_many_calls");
        return;
    }
    rep.count("cases");
    rep.add("calls_needed_sum", n as u64);
    let mut reached = false;
    let mut tripped = 0u64;
    for l in 1..=n + 3 {
        rep.count("evaluations");
        let (r_l, _, refused) = parse_with(vm, rule, input, l);
        if refused > 0 {
            tripped += 1;
        }
        let same = r_l == r_inf;
        let bad = if matches!(r_l, Res::Limit) {
            // a limit error after the parse already completed under a smaller limit
            if reached {
                Some("the parse completed under a smaller limit but reports the limit under a larger one")
            } else {
                None
            }
        } else if same {
            reached = true;
            None
        } else {
            Some("a result that is neither the unlimited result nor the call-limit error")
        };
        if let Some(why) = bad {
            rep.violation(json!({"property":"C12","config":config_name(),"grammar":text,"rule":rule,"input":input,"limit":l,"calls_needed":n,
                "refusals_observed": refused, "why": why, "expected": show(&r_inf), "observed": show(&r_l)}));
            break;
        }
    }
    // "completes identically under every larger limit": also the largest limits there are
    if reached {
        // powers of two plus small amounts below the number of calls this parse needs (a limit that is narrowed,
        // truncated or wrapped somewhere on its way would turn into one that trips), and the top of the range
        let hh = hash_bytes(&[text.as_bytes(), rule.as_bytes(), input.as_bytes(), b"huge"]);
        let d1 = 1 + (hh % (n.max(2) as u64)) as usize;
        let d2 = (n as usize / 2).max(1);
        let bases = [1usize << 16, 1 << 31, 1 << 32, 1 << 33, 1 << 40, 1 << 48, 1 << 63];
        let b1 = bases[(hh >> 8) as usize % bases.len()];
        let b2 = bases[(hh >> 16) as usize % bases.len()];
        for big in [usize::MAX, usize::MAX / 2 + 1, u32::MAX as usize + 1, u32::MAX as usize + 1 + d1, b1 + d1, b2 + d2, usize::MAX - d1, (u32::MAX as usize) * 2 + d2] {
            rep.count("evaluations");
            rep.count("huge_limits_tried");
            let (r_l, _, _) = parse_with(vm, rule, input, big);
            if r_l != r_inf {
                rep.violation(json!({"property":"C12","config":config_name(),"grammar":text,"rule":rule,"input":input,"limit":big.to_string(),"calls_needed":n,
                    "why": "the parse completes under a small limit but not identically under a huge one", "expected": show(&r_inf), "observed": show(&r_l)}));
                break;
            }
        }
    }
    rep.add("limits_that_tripped", tripped);
    // The limit is a process-wide knob: somebody may change it while a parse is running. A parse that
    // started under limit L must still return the unlimited result or the limit error. The VM's
    // listener (called at every rule entry, on the parsing thread) changes the knob at entry k.
    if tripped > 0 && n >= 4 && !matches!(r_inf, Res::Panic) {
        let h = hash_bytes(&[text.as_bytes(), rule.as_bytes(), input.as_bytes()]);
        for t in 0..4u64 {
            let l = 1 + ((h >> (8 * t)) as usize % n);
            let k = 1 + ((h >> (8 * t + 4)) as usize % 6);
            let new_limit = if t % 2 == 0 { 0 } else { l + 1 + (h as usize % 5) };
            let counter = std::sync::Arc::new(std::sync::atomic::AtomicUsize::new(0));
            let c2 = counter.clone();
            let vm2 = pest_vm::Vm::new_with_listener(
                optimized.to_vec(),
                Box::new(move |_, _| {
                    if c2.fetch_add(1, std::sync::atomic::Ordering::SeqCst) + 1 == k {
                        pest::set_call_limit(NonZeroUsize::new(new_limit));
                    }
                    false
                }),
            );
            rep.count("evaluations");
            rep.count("limit_changed_mid_parse");
            let (r_l, _, refused) = parse_with(&vm2, rule, input, l);
            if counter.load(std::sync::atomic::Ordering::SeqCst) < k {
                continue;
            }
            if !(r_l == r_inf || matches!(r_l, Res::Limit)) {
                rep.violation(json!({"property":"C12","config":config_name(),"grammar":text,"rule":rule,"input":input,"limit":l,"calls_needed":n,
                    "limit_changed_to": new_limit, "changed_at_rule_entry": k, "refusals_observed": refused,
                    "why": "the limit knob was changed while the parse was running; the result is neither the unlimited result nor the call-limit error",
                    "expected": show(&r_inf), "observed": show(&r_l)}));
                break;
            }
        }
    }
    if n >= 8 && tripped > 0 {
        let kind = match r_inf {
            Res::Ok(_) => "ok",
            _ => "err",
        };
        rep.nontrivial(hash_bytes(&[text.as_bytes(), rule.as_bytes(), input.as_bytes()]), hash_bytes(&[kind.as_bytes(), &[(n / 16) as u8]]));
        rep.sample_slot(kind, || json!({"grammar": text, "rule": rule, "input": input, "calls_needed": n, "limits_swept": n + 3, "unlimited_result": show(&r_inf)}));
    }
}

pub fn run(args: &Args) {
    let mut rep = Report::new(args);
    if let Some(path) = &args.replay {
        let v: Value = serde_json::from_str(&std::fs::read_to_string(path).expect("replay file")).expect("json");
        let w = if v["witness"].is_object() { v["witness"].clone() } else { v.clone() };
        if let Ok((_, opt)) = read_grammar(w["grammar"].as_str().unwrap()) {
            let vm = pest_vm::Vm::new(opt.clone());
            check_case(&mut rep, w["grammar"].as_str().unwrap(), &opt, &vm, w["rule"].as_str().unwrap(), w["input"].as_str().unwrap(), 100_000);
        }
        rep.finish(args);
        return;
    }
    let mut rng = Rng::new(args.seed, "c12", args.shard);
    if args.shard == 0 {
        for k in vmon::shard::load_known(&args.known, "C12") {
            if let (Some(g), Some(r), Some(i)) = (k.witness["grammar"].as_str(), k.witness["rule"].as_str(), k.witness["input"].as_str()) {
                if let Ok((_, opt)) = read_grammar(g) {
                    rep.count("known_witnesses_replayed");
                    let vm = pest_vm::Vm::new(opt.clone());
                    check_case(&mut rep, g, &opt, &vm, r, i, 100_000);
                }
            }
        }
    }
    let n_grammars = args.budget(24_000, 1_500_000);
    let mut cfg = GenCfg::new(Profile::Full);
    cfg.max_rules = 4;
    for gi in 0..n_grammars {
        if rep.elapsed() > args.max_s {
            rep.notes.insert("stopped_early_at_grammar".into(), json!(gi));
            break;
        }
        let mut grng = rng.fork();
        let gcfg = cfg.vary(&mut grng);
        let rules = gen_grammar(&mut grng, &gcfg);
        let text = vmon::print::rules_to_string(&rules);
        let Ok((ast, optimized)) = read_grammar(&text) else {
            rep.count("grammars_rejected_by_pest");
            continue;
        };
        // grammars the reference cannot finish are not handed to the engine without a limit
        let (inputs, _, _) = vmon::inputs::inputs_for(&ast, &mut grng, 14, 2, 30);
        let vm = pest_vm::Vm::new(optimized.clone());
        rep.count("grammars_used");
        for r in &ast {
            for input in inputs.iter().filter(|i| i.len() <= 24) {
                let mut rf = vmon::reference::Ref::new(&ast, input);
                rf.max_steps = 20_000;
                if matches!(rf.parse(&r.name), vmon::model::Outcome::Diverges(_) | vmon::model::Outcome::Budget) {
                    rep.count("skipped_reference_diverges");
                    continue;
                }
                rep.journal(|| json!({"grammar": text, "rule": r.name, "input": input}));
                check_case(&mut rep, &text, &optimized, &vm, &r.name, input, 400);
            }
        }
    }
    rep.finish(args);
}
