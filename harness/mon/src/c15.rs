//! C15: detailed error tracking is observationally transparent.
//! The same parse with set_error_detail(false) and (true).

use crate::common::*;
use serde_json::{json, Value};
use std::panic::{catch_unwind, AssertUnwindSafe};
use vmon::gen::{gen_grammar, GenCfg, Profile};
use vmon::model::Tok;
use vmon::pestrun::{err_info, toks_of, ErrInfo};
use vmon::rng::{hash_bytes, Rng};
use vmon::shard::{Args, Report};

const LIMIT: usize = 2_000_000;

#[derive(Clone, Debug, PartialEq)]
enum Res {
    Ok(Vec<Tok>),
    Err(ErrInfo),
    Limit,
    Panic(String),
}

fn show(r: &Res) -> Value {
    match r {
        Res::Ok(t) => json!({"ok": vmon::model::toks_to_string(t)}),
        Res::Err(e) => json!({"err": {"pos": e.pos, "positives": e.positives, "negatives": e.negatives, "custom": e.custom, "line_col": [e.line_col.0, e.line_col.1]}}),
        Res::Limit => json!("call limit reached"),
        Res::Panic(m) => json!({"panic": m}),
    }
}

struct DetailInfo {
    problems: Vec<String>,
    had_attempts: bool,
    expected_tokens: usize,
    call_stacks: usize,
}

fn parse(vm: &pest_vm::Vm, rule: &str, input: &str, detail: bool) -> (Res, Option<DetailInfo>) {
    pest::set_error_detail(detail);
    pest::set_call_limit(std::num::NonZeroUsize::new(LIMIT));
    let r = catch_unwind(AssertUnwindSafe(|| match vm.parse(rule, input) {
        Ok(p) => (Res::Ok(toks_of(p, |r| r.to_string())), None),
        Err(e) => {
            let i = err_info(&e, |r| r.to_string());
            let mut info = None;
            if detail {
                let mut d = DetailInfo { problems: vec![], had_attempts: false, expected_tokens: 0, call_stacks: 0 };
                if let Some(a) = e.parse_attempts() {
                    d.had_attempts = true;
                    if a.max_position > input.len() || !input.is_char_boundary(a.max_position) {
                        d.problems.push(format!("max_position {} is not a char boundary within the input (len {})", a.max_position, input.len()));
                    }
                    d.expected_tokens = a.expected_tokens().len() + a.unexpected_tokens().len();
                    d.call_stacks = a.call_stacks().len();
                }
                let rule_to_message: pest::error::RuleToMessageFn<&str> = Box::new(|r: &&str| if r.len() % 2 == 0 { Some(format!("about {r}")) } else { None });
                let is_ws: pest::error::IsWhitespaceFn = Box::new(|s: String| s.trim().is_empty());
                match catch_unwind(AssertUnwindSafe(|| e.parse_attempts_error(input, &rule_to_message, &is_ws).map(|pe| format!("{pe}")))) {
                    Ok(Some(s)) => {
                        if s.is_empty() {
                            d.problems.push("help message renders as the empty string".into());
                        }
                    }
                    Ok(None) => {
                        if d.had_attempts {
                            d.problems.push("attempts recorded but no help message".into());
                        }
                    }
                    Err(p) => d.problems.push(format!("parse_attempts_error / its Display panicked: {}", vmon::pestrun::panic_message(&p))),
                }
                let _ = format!("{e}");
                info = Some(d);
            }
            if i.custom.as_deref() == Some("call limit reached") {
                (Res::Limit, info)
            } else {
                (Res::Err(i), info)
            }
        }
    }));
    pest::set_call_limit(None);
    pest::set_error_detail(false);
    match r {
        Ok(x) => x,
        Err(p) => (Res::Panic(vmon::pestrun::panic_message(&p)), None),
    }
}

fn check_case(rep: &mut Report, text: &str, vm: &pest_vm::Vm, rule: &str, input: &str) {
    rep.count("evaluations");
    let (off, _) = parse(vm, rule, input, false);
    if matches!(off, Res::Limit) {
        rep.inconclusive(json!({"why":"call limit","grammar":text,"rule":rule,"input":input}));
        return;
    }
    let (on, info) = parse(vm, rule, input, true);
    let kind = match &off {
        Res::Ok(_) => "ok",
        Res::Err(_) => "err",
        Res::Panic(_) => "documented_panic",
        Res::Limit => "limit",
    };
    rep.count(&format!("outcome:{kind}"));
    let same = match (&off, &on) {
        (Res::Panic(_), Res::Panic(_)) => true,
        (a, b) => a == b,
    };
    if !same {
        rep.violation(json!({"property":"C15","config":config_name(),"grammar":text,"rule":rule,"input":input,
            "expected": show(&off), "observed": show(&on), "why":"the result with error detail on differs from the result with it off"}));
        return;
    }
    if let Some(d) = info {
        if d.had_attempts {
            rep.count("errors_with_attempt_info");
            rep.add("tokens_recorded", d.expected_tokens as u64);
            rep.add("call_stacks_recorded", d.call_stacks as u64);
        }
        if !d.problems.is_empty() {
            rep.violation(json!({"property":"C15","config":config_name(),"grammar":text,"rule":rule,"input":input,
                "expected":"attempt position on a char boundary inside the input; help message renders","observed": d.problems}));
            return;
        }
        if d.had_attempts && !input.is_empty() {
            let h = hash_bytes(&[text.as_bytes(), rule.as_bytes(), input.as_bytes()]);
            rep.nontrivial(h, hash_bytes(&[kind.as_bytes(), &[d.expected_tokens.min(9) as u8, d.call_stacks.min(9) as u8]]));
            rep.sample_slot(&format!("err:{}", d.call_stacks.min(3)), || json!({"grammar": text, "rule": rule, "input": input, "result": show(&off), "tokens_recorded": d.expected_tokens, "call_stacks": d.call_stacks}));
        }
    } else if matches!(off, Res::Ok(_)) && input.len() >= 2 {
        let h = hash_bytes(&[text.as_bytes(), rule.as_bytes(), input.as_bytes()]);
        rep.nontrivial(h, hash_bytes(&[b"ok"]));
    }
}

/// The detail switch and the call limit are two process-wide settings: flipping one from another thread may not
/// change the other. The main thread sets a limit of 10 calls and parses an input that needs more (must end in the
/// limit error), then lifts the limit and parses again (must match), while a second thread flips the detail switch as
/// fast as it can. Every parse reads both settings once when its state is built, so each outcome is determined.
fn settings_race(rep: &mut Report, args: &Args) {
    let text = "list = { item* }\nitem = { \"a\" }\n";
    let Ok((_, opt)) = read_grammar(text) else { return };
    let vm = pest_vm::Vm::new(opt);
    let input = "aaaaaaaaaaaaaaaa";
    let stop = std::sync::atomic::AtomicBool::new(false);
    let flips = std::sync::atomic::AtomicU64::new(0);
    let rounds: u64 = if args.thorough { 200_000 } else { 20_000 };
    let mut bad: Option<Value> = None;
    std::thread::scope(|sc| {
        sc.spawn(|| {
            let mut on = false;
            while !stop.load(std::sync::atomic::Ordering::Relaxed) {
                on = !on;
                pest::set_error_detail(on);
                flips.fetch_add(1, std::sync::atomic::Ordering::Relaxed);
            }
            pest::set_error_detail(false);
        });
        for i in 0..rounds {
            pest::set_call_limit(std::num::NonZeroUsize::new(10));
            let limited = match vm.parse("list", input) {
                Ok(_) => "Ok".to_string(),
                Err(e) => e.variant.message().to_string(),
            };
            pest::set_call_limit(None);
            let free = vm.parse("list", input).is_ok();
            if !limited.contains("call limit") || !free {
                bad = Some(json!({"property":"C15","config":config_name(),"kind":"settings_race","grammar":text,"rule":"list","input":input,"round":i,
                    "expected":"under set_call_limit(10) the parse ends in the call-limit error, without a limit it matches, whatever another thread does to set_error_detail",
                    "observed":{"under_limit_10": limited, "without_limit_matches": free}}));
                break;
            }
            rep.count("evaluations");
        }
        stop.store(true, std::sync::atomic::Ordering::Relaxed);
    });
    pest::set_call_limit(None);
    pest::set_error_detail(false);
    rep.add("settings_race_detail_flips_by_the_other_thread", flips.load(std::sync::atomic::Ordering::Relaxed));
    rep.add("settings_race_rounds", rounds);
    if let Some(w) = bad {
        rep.violation(w);
    }
}

pub fn run(args: &Args) {
    let mut rep = Report::new(args);
    if let Some(path) = &args.replay {
        let v: Value = serde_json::from_str(&std::fs::read_to_string(path).expect("replay file")).expect("json");
        let w = if v["witness"].is_object() { v["witness"].clone() } else { v.clone() };
        if let Ok((_, opt)) = read_grammar(w["grammar"].as_str().unwrap()) {
            let vm = pest_vm::Vm::new(opt);
            check_case(&mut rep, w["grammar"].as_str().unwrap(), &vm, w["rule"].as_str().unwrap(), w["input"].as_str().unwrap());
        }
        rep.finish(args);
        return;
    }
    if args.shard < 4 {
        settings_race(&mut rep, args);
    }
    let mut rng = Rng::new(args.seed, "c15", args.shard);
    let n_grammars = args.budget(12_000, 2_000_000);
    let mut cfg = GenCfg::new(Profile::Full);
    cfg.big_choices_pct = 12;
    cfg.long_literals_pct = 10;
    cfg.negpred_pct = 6;
    cfg.prefix_family_pct = 16;
    for gi in 0..n_grammars {
        if rep.elapsed() > args.max_s {
            rep.notes.insert("stopped_early_at_grammar".into(), json!(gi));
            break;
        }
        let mut grng = rng.fork();
        let gcfg = cfg.vary(&mut grng);
        let rules = gen_grammar(&mut grng, &gcfg);
        let text = vmon::print::rules_to_string(&rules);
        let Ok((ast, optimized)) = read_grammar(&text) else {
            rep.count("grammars_rejected_by_pest");
            continue;
        };
        let (inputs, _, _) = vmon::inputs::inputs_for(&ast, &mut grng, 12, 2, 60);
        let vm = pest_vm::Vm::new(optimized);
        rep.count("grammars_used");
        for r in &ast {
            for input in &inputs {
                let mut rf = vmon::reference::Ref::new(&ast, input);
                rf.max_steps = 50_000;
                if matches!(rf.parse(&r.name), vmon::model::Outcome::Diverges(_) | vmon::model::Outcome::Budget) {
                    rep.count("skipped_reference_diverges");
                    continue;
                }
                rep.journal(|| json!({"grammar": text, "rule": r.name, "input": input}));
                check_case(&mut rep, &text, &vm, &r.name, input);
            }
        }
    }
    rep.finish(args);
}
