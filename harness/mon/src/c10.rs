//! C10: line/column arithmetic and error rendering, for all text.
//!
//! Observed: `Position::new / pos / line_col / line_of / span`, `Span::new / start / end / as_str /
//! start_pos / end_pos / lines / lines_span`, `merge_spans`, `Pair::line_col` (a full-input
//! `LineIndex` through `PairsBuilder` and a consumed-prefix one through a real `pest::state`
//! parse), `Error::new_from_pos / new_from_span`, `Error.location`, `Error.line_col`, `Display`.
//!
//! Oracle: the naive definitions of the statement, computed from scratch for every offset:
//!  * line = 1 + number of '\n' before the offset; column = 1 + number of chars since the last
//!    '\n' ('\r' is an ordinary character, "\r\n" ends a line only at its '\n' - this is what
//!    the repository's own `position::tests::line_col` pins);
//!  * `Position::new` is `Some` iff the offset is a char boundary within the string; `Span::new` is
//!    `Some` iff both offsets are and start <= end;
//!  * `line_of` is the line containing the offset, including its terminating "\n" if any;
//!  * `lines_span()` yields consecutive whole input lines; if it yields anything the first is the
//!    line containing `start`; every line that intersects `[start, end)` is yielded; nothing
//!    beyond the line that contains `end` is. (The line *starting* exactly at `end` is permitted
//!    but not required, and for an empty span yielding nothing is permitted: the docs say "lines
//!    (partially) covered by this span" and do not settle either; both are counted.)
//!    `lines()` are the same lines as `&str`;
//!  * `merge_spans(x, y)` is `Some(min start .. max end)` iff the spans overlap or touch;
//!  * `Error.line_col` / `Error.location` are the naive line/column and the offsets given. For the
//!    END of a span error whose end is at column 1 the code documents ("we want to point to the
//!    visual lf symbol") and the repository's test `display_custom_span_end_after_newline` pins a
//!    different convention: the position just after the '\n' is reported on the '\n''s own
//!    line. That convention is accepted for an end that really follows a '\n' (counted as
//!    `span_error_end:reported_on_the_newline's_line`); nothing else is;
//!  * rendering never panics; it shows the reported line number (header `--> l:c` and the row
//!    `l | text`), that line's text (each '\r'/'\n' either dropped or shown as one visible
//!    symbol, every other char unchanged) and a `^` whose char index in the marker row equals
//!    column-1, tabs of the line repeated before it (pinned by `underline_with_tabs`). For a span
//!    error "the line"/"the column" are those of the span's start; when pest draws its
//!    "inverted columns" underline the `^` under the start column is the right-hand one.
//!    NOT judged, only counted: a `^` that is under the reported column while a CR before the
//!    offset is not displayed (then it is not under the *character* at the offset, but the
//!    statement only asks for the column); continuation lines, `...` rows, the extent of the
//!    underline, raw line breaks of a continued line in the output.
//!
//! Findings of the exhaustive run on the unchanged tree (kept as findings, explained by the
//! predicates next to `KEY_*` below, downgraded only when known_findings.jsonl lists the key):
//!  * the displayed line has every CR removed, so with a lone CR before the offset the line
//!    can be shorter than column-1 and the `^` lands left of the reported column;
//!  * `new_from_span` on an empty span at the end of a non-empty last line shows an empty text
//!    row and the `^` in column 1 (because `lines()` yields nothing there);
//!  * `new_from_span` reports end column 2 for an end at offset 0.
//!
//! Workload: EXHAUSTIVE over all strings of <= 5 (quick) / <= 6 (thorough) symbols from
//! {'a','é','🎈','\n','\r','\t'} x all byte offsets 0..=len+1 (boundaries, non-boundaries, one
//! past the end) x all offset pairs; sharded by string index. Plus random strings of up to 200
//! chars (all offsets, a sample of pairs). Non-trivial = the string has a line break and a
//! multi-byte char. Replay = {"text":..., "a":offset, "b":offset}.

use pest::error::{Error, ErrorVariant, InputLocation, LineColLocation};
use pest::iterators::PairsBuilder;
use pest::{Position, Span};
use serde_json::{json, Value};
use std::cell::Cell;
use std::collections::{BTreeMap, BTreeSet};
use std::panic::{catch_unwind, AssertUnwindSafe};
use vmon::rng::{hash_bytes, Rng};
use vmon::shard::{load_known, Args, Report};

#[allow(non_camel_case_types)]
#[derive(Clone, Copy, Debug, Eq, Hash, Ord, PartialEq, PartialOrd)]
enum R {
    outer,
    inner,
}

const SYMBOLS: [char; 6] = ['a', 'é', '🎈', '\n', '\r', '\t'];

/// `new_from_pos`/`new_from_span` delete every '\r' from the displayed line; predicate: the text row
/// is exactly the line minus CR/LF, a CR precedes the offset, and the first `^` is where pest's
/// own arithmetic puts it for that shortened text (min(column-1, chars shown)), not at column-1.
const KEY_STRIPPED_CR: &str = "c10-error-render-drops-cr-before-marker";
/// `new_from_span` on an empty span at the end of the input; predicate: start == end == len, the last
/// line is not empty, the text row is empty and the `^` is at index 0.
const KEY_SPAN_AT_EOF: &str = "c10-span-error-at-end-of-input-shows-no-line";
/// `new_from_span` moves an end at column 1 "back to the newline" even when there is no char
/// before it; predicate: end == 0 and the reported end is (1, 2).
const KEY_SPAN_END_AT_ZERO: &str = "c10-span-error-end-column-at-offset-0";

// ------------------------------------------------------------------------------------------
// the naive oracle

fn naive_line_col(text: &str, o: usize) -> (usize, usize) {
    let before = &text.as_bytes()[..o];
    let line = 1 + before.iter().filter(|b| **b == b'\n').count();
    let since = before.iter().rposition(|b| *b == b'\n').map(|i| i + 1).unwrap_or(0);
    let col = 1 + text[since..o].chars().count();
    (line, col)
}

struct Oracle<'a> {
    text: &'a str,
    /// number of '\n' among the first `o` bytes, for o in 0..=len
    nl_before: Vec<usize>,
    /// naive (line, col) at every boundary offset ((0,0) elsewhere)
    lc: Vec<(usize, usize)>,
    /// [start, end) of every line, the terminating '\n' included; the last one may be empty
    lines: Vec<(usize, usize)>,
}

impl<'a> Oracle<'a> {
    fn new(text: &'a str) -> Oracle<'a> {
        let bytes = text.as_bytes();
        let mut nl_before = vec![0; bytes.len() + 1];
        let mut starts = vec![0];
        for (i, b) in bytes.iter().enumerate() {
            nl_before[i + 1] = nl_before[i] + (*b == b'\n') as usize;
            if *b == b'\n' {
                starts.push(i + 1);
            }
        }
        let mut lines = vec![];
        for (k, s) in starts.iter().enumerate() {
            lines.push((*s, starts.get(k + 1).copied().unwrap_or(bytes.len())));
        }
        let mut lc = vec![(0, 0); bytes.len() + 1];
        for (o, slot) in lc.iter_mut().enumerate() {
            if text.is_char_boundary(o) {
                *slot = naive_line_col(text, o);
            }
        }
        Oracle { text, nl_before, lc, lines }
    }
    fn valid(&self, o: usize) -> bool {
        o <= self.text.len() && self.text.is_char_boundary(o)
    }
    fn line_of(&self, o: usize) -> (usize, usize) {
        self.lines[self.nl_before[o]]
    }
}

// ------------------------------------------------------------------------------------------
// findings

struct Finding {
    check: &'static str,
    expected: Value,
    observed: Value,
    /// key of the known-findings entry whose predicate explains this mismatch, if any
    explained: Option<&'static str>,
}

fn finding(out: &mut Vec<Finding>, check: &'static str, expected: Value, observed: Value) {
    out.push(Finding { check, expected, observed, explained: None });
}

#[derive(Default)]
struct Tally {
    m: BTreeMap<&'static str, u64>,
}

impl Tally {
    fn add(&mut self, k: &'static str) {
        *self.m.entry(k).or_insert(0) += 1;
    }
    fn flush(&mut self, rep: &mut Report) {
        for (k, v) in std::mem::take(&mut self.m) {
            rep.add(k, v);
        }
    }
}

fn lcl_json(l: &LineColLocation) -> Value {
    match l {
        LineColLocation::Pos(p) => json!({"pos": [p.0, p.1]}),
        LineColLocation::Span(s, e) => json!({"span": [[s.0, s.1], [e.0, e.1]]}),
    }
}

fn digits(n: usize) -> usize {
    n.to_string().len()
}

fn strip_crlf(s: &str) -> String {
    s.replace(&['\r', '\n'][..], "")
}

/// How the displayed text `shown` relates to the line `line`: every '\r'/'\n' may be dropped or
/// replaced by one visible symbol, everything else must be unchanged. Returns, for the first
/// `prefix_chars` chars of `line`, how many displayed chars they became and whether any of them was
/// dropped; `None` when `shown` is not such a rendering of `line`.
fn align(line: &str, shown: &str, prefix_chars: usize) -> Option<(usize, bool)> {
    let mut d = shown.chars().peekable();
    let mut shown_before = 0;
    let mut dropped_before = false;
    let mut consumed = 0;
    for (i, c) in line.chars().enumerate() {
        let in_prefix = i < prefix_chars;
        if c == '\r' || c == '\n' {
            let vis = if c == '\r' { '␍' } else { '␊' };
            if d.peek() == Some(&vis) {
                d.next();
                consumed += 1;
            } else if in_prefix {
                dropped_before = true;
            }
        } else {
            if d.next() != Some(c) {
                return None;
            }
            consumed += 1;
        }
        if in_prefix {
            shown_before = consumed;
        }
    }
    if d.next().is_some() {
        return None;
    }
    Some((shown_before, dropped_before))
}

/// Marker row judged against the displayed line: `^` at char index `col-1`, exactly the offset's
/// predecessors displayed before it, tabs of the displayed line repeated in the marker row.
struct MarkerView {
    caret: Option<usize>,
    tabs_ok: bool,
}

fn marker_view(shown: &str, marker: &str, caret_index: Option<usize>) -> MarkerView {
    let d: Vec<char> = shown.chars().collect();
    let tabs_ok = match caret_index {
        Some(ci) => marker.chars().take(ci).enumerate().all(|(i, m)| if d.get(i) == Some(&'\t') { m == '\t' } else { m == ' ' }),
        None => false,
    };
    MarkerView { caret: caret_index, tabs_ok }
}

// ------------------------------------------------------------------------------------------
// checks on one offset

fn check_position(or: &Oracle, o: usize, stage: &Cell<&'static str>, t: &mut Tally, out: &mut Vec<Finding>) {
    let text = or.text;
    stage.set("Position::new");
    let p = Position::new(text, o);
    if p.is_some() != or.valid(o) {
        finding(out, "position_new", json!({"some": or.valid(o)}), json!({"some": p.is_some()}));
        return;
    }
    let Some(p) = p else {
        t.add("position:rejected_offset");
        return;
    };
    t.add("position:accepted_offset");
    if p.pos() != o {
        finding(out, "position_pos", json!(o), json!(p.pos()));
    }
    let want = or.lc[o];
    stage.set("Position::line_col");
    let got = p.line_col();
    if got != want {
        finding(out, "position_line_col", json!([want.0, want.1]), json!([got.0, got.1]));
    }
    stage.set("Position::line_of");
    let (ls, le) = or.line_of(o);
    let got_line = p.line_of();
    if got_line != &text[ls..le] {
        finding(out, "position_line_of", json!(&text[ls..le]), json!(got_line));
    }
    stage.set("Error::new_from_pos");
    let e: Error<R> = Error::new_from_pos(ErrorVariant::CustomError { message: "m".to_owned() }, p);
    if e.line_col != LineColLocation::Pos(want) {
        finding(out, "pos_error_line_col", json!({"pos": [want.0, want.1]}), lcl_json(&e.line_col));
    }
    if e.location != InputLocation::Pos(o) {
        finding(out, "pos_error_location", json!({"pos": o}), json!(format!("{:?}", e.location)));
    }
    stage.set("Display for Error (new_from_pos)");
    let shown = e.to_string();
    t.add("render:position_error");
    check_render(or, &shown, want, want.0, (ls, le), None, false, t, out);
}

/// Judges one rendering. `(l, c)` = the (start) line/column that must be reported, `widest` = the
/// largest line number the error reports (it sets the gutter width), `line` = the input line
/// that contains the (start) offset.
#[allow(clippy::too_many_arguments)]
fn check_render(or: &Oracle, shown: &str, (l, c): (usize, usize), widest: usize, line: (usize, usize), end_col: Option<usize>, span_at_eof_empty: bool, t: &mut Tally, out: &mut Vec<Finding>) {
    let is_pos = end_col.is_none();
    let name = |what: &'static str| -> &'static str {
        match (is_pos, what) {
            (true, "header") => "pos_render_header",
            (true, "line_row") => "pos_render_line_row",
            (true, "line_text") => "pos_render_line_text",
            (true, "marker") => "pos_render_marker",
            (false, "header") => "span_render_header",
            (false, "line_row") => "span_render_line_row",
            (false, "line_text") => "span_render_line_text",
            (false, "marker") => "span_render_marker",
            (true, "marker_tabs") => "pos_render_marker_tabs",
            (false, "marker_tabs") => "span_render_marker_tabs",
            _ => "render",
        }
    };
    let rows: Vec<&str> = shown.split('\n').collect();
    let gutter = " ".repeat(digits(widest));
    let header = format!("{gutter}--> {l}:{c}");
    if rows.first().copied() != Some(header.as_str()) {
        finding(out, name("header"), json!(header), json!(rows.first()));
        return;
    }
    // the row showing the reported line: right-aligned number, " | ", text
    let row_prefix = format!("{l} | ");
    let Some(d) = rows.get(2).and_then(|r| r.trim_start_matches(' ').strip_prefix(row_prefix.as_str())) else {
        finding(out, name("line_row"), json!(format!("third row `{row_prefix}<text of line {l}>`")), json!(rows.get(2)));
        return;
    };
    let line_text = &or.text[line.0..line.1];
    if rows.len() < 6 {
        finding(out, name("marker"), json!("a marker row"), json!(shown));
        return;
    }
    let marker_prefix = format!("{gutter} | ");
    let Some(u) = rows[rows.len() - 3].strip_prefix(marker_prefix.as_str()) else {
        finding(out, name("marker"), json!("a marker row above the two closing rows"), json!(shown));
        return;
    };
    let al = align(line_text, d, c - 1);
    // index of the '^' that must sit under the reported column: the first one, or - when pest
    // draws an "inverted columns" underline for a span ending left of its start - the last one
    let first = u.chars().position(|ch| ch == '^');
    let last = u.chars().collect::<Vec<_>>().iter().rposition(|ch| *ch == '^');
    let caret = match (first, last) {
        (Some(f), Some(la)) if !is_pos && f != c - 1 && la == c - 1 => {
            t.add("span_render:marker_under_start_column_is_the_right_end_of_the_underline");
            Some(la)
        }
        (f, _) => f,
    };
    let mv = marker_view(d, u, caret);
    let expected = json!({"line_row_text": "the line with each CR/LF dropped or shown as one symbol", "line": line_text, "marker_char_index": c - 1});
    let observed = |al: Option<(usize, bool)>| json!({"line_row_text": d, "marker_row": u, "marker_char_index": caret, "chars_shown_for_the_prefix": al.map(|a| a.0), "cr_dropped_before_marker": al.map(|a| a.1), "rendering": shown});
    let shown_chars = d.chars().count();
    let cr_before = line_text.chars().take(c - 1).any(|ch| ch == '\r');
    // where pest's own underline arithmetic puts the first '^' for the text it displays
    let algorithmic_first = match end_col {
        Some(ce) if c > ce => (ce.saturating_sub(2)).min(shown_chars), // "inverted columns"
        _ => (c - 1).min(shown_chars),
    };
    match al {
        None => {
            // the row does not show the line's text
            let mut explained = None;
            // empty span at the very end of a non-empty last line: `lines()` yields nothing there, so
            // the row shows "" and the marker has no text to be indented by
            if !is_pos && span_at_eof_empty && d.is_empty() && !line_text.is_empty() && first == Some(0) {
                explained = Some(KEY_SPAN_AT_EOF);
            }
            out.push(Finding { check: name("line_text"), expected, observed: observed(al), explained });
        }
        Some((_, dropped)) => {
            if mv.caret != Some(c - 1) {
                // the marker is not under the reported column
                let mut explained = None;
                // every '\r' of the line was deleted although one precedes the offset: the displayed
                // text is the line minus CR/LF, it has fewer chars than column-1, and the marker is
                // exactly where pest's arithmetic puts it for that shortened text
                if d == strip_crlf(line_text) && cr_before && dropped && first == Some(algorithmic_first) && (end_col.is_some() || marker_view(d, u, first).tabs_ok) {
                    explained = Some(KEY_STRIPPED_CR);
                }
                out.push(Finding { check: name("marker"), expected, observed: observed(al), explained });
            } else if dropped {
                // Under the reported column, but a CR that precedes the offset is not displayed, so the
                // marker is not under the character at the offset. The statement asks for "a marker
                // under the reported column", which this is: counted, not judged.
                t.add("render:marker_under_reported_column_but_a_cr_before_it_is_not_displayed(observed)");
            } else if caret == first && !mv.tabs_ok {
                // tabs of the line must be repeated in the marker row, or the '^' is not *visually*
                // under its column (pinned by the repository's `underline_with_tabs`)
                out.push(Finding { check: name("marker_tabs"), expected, observed: observed(al), explained: None });
            }
        }
    }
}

// ------------------------------------------------------------------------------------------
// checks on one offset pair

fn check_pair(or: &Oracle, a: usize, b: usize, stage: &Cell<&'static str>, t: &mut Tally, out: &mut Vec<Finding>) {
    let text = or.text;
    let valid = or.valid(a) && or.valid(b) && a <= b;
    stage.set("Span::new");
    let sp = Span::new(text, a, b);
    if sp.is_some() != valid {
        finding(out, "span_new", json!({"some": valid}), json!({"some": sp.is_some()}));
        return;
    }
    let Some(sp) = sp else {
        t.add("span:rejected_pair");
        return;
    };
    t.add("span:accepted_pair");
    if sp.start() != a || sp.end() != b || sp.as_str() != &text[a..b] {
        finding(out, "span_accessors", json!({"start": a, "end": b, "str": &text[a..b]}), json!({"start": sp.start(), "end": sp.end(), "str": sp.as_str()}));
    }
    let (lca, lcb) = (or.lc[a], or.lc[b]);
    stage.set("Span::start_pos/end_pos/split + line_col");
    let (p1, p2) = sp.split();
    let got = (sp.start_pos().line_col(), sp.end_pos().line_col(), p1.pos(), p2.pos());
    if got != (lca, lcb, a, b) {
        finding(out, "span_positions_line_col", json!([[lca.0, lca.1], [lcb.0, lcb.1], a, b]), json!([[got.0 .0, got.0 .1], [got.1 .0, got.1 .1], got.2, got.3]));
    }
    stage.set("Position::span");
    if let (Some(pa), Some(pb)) = (Position::new(text, a), Position::new(text, b)) {
        if pa.span(&pb) != sp {
            finding(out, "position_span", json!([a, b]), json!(format!("{:?}", pa.span(&pb))));
        }
    }

    // ---- lines ----
    stage.set("Span::lines_span");
    let cap = text.len() + 3;
    let got: Vec<(usize, usize)> = sp.lines_span().take(cap).map(|s| (s.start(), s.end())).collect();
    stage.set("Span::lines");
    let got_str: Vec<&str> = sp.lines().take(cap).collect();
    check_lines(or, a, b, &got, &got_str, t, out);

    // ---- pairs ----
    stage.set("PairsBuilder + Pair::line_col");
    let mut pairs = PairsBuilder::new(text).rule_with(R::outer, a, b, |i| i.rule(R::inner, b, b)).build();
    match pairs.next() {
        Some(outer) => {
            let o_lc = outer.line_col();
            let o_span = (outer.as_span().start(), outer.as_span().end());
            let i_lc = outer.into_inner().next().map(|p| p.line_col());
            if o_lc != lca || i_lc != Some(lcb) || o_span != (a, b) {
                finding(out, "pair_line_col_full_index", json!({"outer": [lca.0, lca.1], "inner": [lcb.0, lcb.1], "span": [a, b]}), json!({"outer": [o_lc.0, o_lc.1], "inner": i_lc.map(|x| [x.0, x.1]), "span": [o_span.0, o_span.1]}));
            }
        }
        None => finding(out, "pair_line_col_full_index", json!("one pair"), json!("none")),
    }
    stage.set("pest::state + Pair::line_col");
    let parsed = pest::state::<R, _>(text, |s| {
        s.match_string(&text[..a]).and_then(|s| s.rule(R::outer, |s| s.match_string(&text[a..b]).and_then(|s| s.rule(R::inner, Ok))))
    });
    match parsed {
        Ok(mut pairs) => match pairs.next() {
            Some(outer) => {
                let o_lc = outer.line_col();
                let o_span = (outer.as_span().start(), outer.as_span().end());
                let i_lc = outer.into_inner().next().map(|p| p.line_col());
                if o_lc != lca || i_lc != Some(lcb) || o_span != (a, b) {
                    finding(out, "pair_line_col_prefix_index", json!({"outer": [lca.0, lca.1], "inner": [lcb.0, lcb.1], "span": [a, b]}), json!({"outer": [o_lc.0, o_lc.1], "inner": i_lc.map(|x| [x.0, x.1]), "span": [o_span.0, o_span.1]}));
                }
            }
            None => finding(out, "pair_line_col_prefix_index", json!("one pair"), json!("none")),
        },
        Err(e) => finding(out, "pair_line_col_prefix_index", json!("the literal prefix parse succeeds"), json!(e.to_string())),
    }

    // ---- span error ----
    stage.set("Error::new_from_span");
    let e: Error<R> = Error::new_from_span(ErrorVariant::CustomError { message: "m".to_owned() }, sp);
    if e.location != InputLocation::Span((a, b)) {
        finding(out, "span_error_location", json!({"span": [a, b]}), json!(format!("{:?}", e.location)));
    }
    let mut widest = lca.0.max(lcb.0);
    let mut end_col = lcb.1;
    match &e.line_col {
        LineColLocation::Span(s, en) => {
            widest = s.0.max(en.0);
            end_col = en.1;
            if *s != lca {
                finding(out, "span_error_start_line_col", json!([lca.0, lca.1]), lcl_json(&e.line_col));
            }
            if *en == lcb {
                t.add("span_error_end:naive");
            } else if lcb.1 == 1 && b > 0 && {
                // the documented/pinned convention: "point to the visual lf symbol"
                let nl = b - 1; // the '\n' before `b` (column 1 and b > 0 imply it)
                *en == (or.lc[nl].0, or.lc[nl].1 + 1)
            } {
                t.add("span_error_end:reported_on_the_newline's_line");
            } else {
                let mut f = Finding { check: "span_error_end_line_col", expected: json!([lcb.0, lcb.1]), observed: lcl_json(&e.line_col), explained: None };
                if b == 0 && *en == (1, 2) {
                    f.explained = Some(KEY_SPAN_END_AT_ZERO);
                }
                out.push(f);
            }
        }
        other => finding(out, "span_error_line_col", json!("LineColLocation::Span"), lcl_json(other)),
    }
    stage.set("Display for Error (new_from_span)");
    let shown = e.to_string();
    t.add("render:span_error");
    let template_rows = if shown.contains(" | ...\n") { 8 } else { 7 };
    let n_rows = shown.split('\n').count();
    if n_rows > template_rows {
        t.add("span_render:raw_line_break_of_the_continued_line_in_the_output(not judged)");
    }
    let at_eof_empty = a == b && a == text.len() && !text.is_empty();
    check_render(or, &shown, lca, widest, or.line_of(a), Some(end_col), at_eof_empty, t, out);
}

fn check_lines(or: &Oracle, a: usize, b: usize, got: &[(usize, usize)], got_str: &[&str], t: &mut Tally, out: &mut Vec<Finding>) {
    let text = or.text;
    let expected_min: Vec<(usize, usize)> = if a < b { (or.nl_before[a]..=or.nl_before[b - 1]).map(|k| or.lines[k]).collect() } else { vec![] };
    let describe = || json!({"must_yield": expected_min, "may_also_yield_line": or.lines[or.nl_before[b]], "all_lines": or.lines});
    let as_str: Vec<&str> = got.iter().map(|(s, e)| text.get(*s..*e).unwrap_or("<not a slice>")).collect();
    if as_str != got_str {
        finding(out, "lines_vs_lines_span", json!(as_str), json!(got_str));
    }
    let mut ks = vec![];
    for g in got {
        match or.lines.iter().position(|l| l == g) {
            Some(k) => ks.push(k),
            None => {
                finding(out, "lines_span_whole_lines", describe(), json!(got));
                return;
            }
        }
    }
    if ks.windows(2).any(|w| w[1] != w[0] + 1) {
        finding(out, "lines_span_consecutive", describe(), json!(got));
        return;
    }
    match (ks.first(), ks.last()) {
        (Some(first), Some(last)) => {
            if *first != or.nl_before[a] {
                finding(out, "lines_span_first_line", describe(), json!(got));
            } else if a < b && *last < or.nl_before[b - 1] {
                finding(out, "lines_span_covers_span", describe(), json!(got));
            } else if *last > or.nl_before[b] {
                finding(out, "lines_span_beyond_end", describe(), json!(got));
            } else if a < b && *last > or.nl_before[b - 1] {
                t.add("lines:also_yields_the_line_starting_at_end(permitted)");
            } else if a == b {
                t.add("lines:empty_span_yields_its_line");
            } else {
                t.add("lines:exactly_the_intersecting_lines");
            }
        }
        _ => {
            if a < b {
                finding(out, "lines_span_covers_span", describe(), json!(got));
            } else {
                t.add("lines:empty_span_yields_nothing(permitted)");
            }
        }
    }
}

fn check_merge(or: &Oracle, x: (usize, usize), y: (usize, usize), stage: &Cell<&'static str>, out: &mut Vec<Finding>) {
    stage.set("merge_spans");
    let (Some(sx), Some(sy)) = (Span::new(or.text, x.0, x.1), Span::new(or.text, y.0, y.1)) else { return };
    let want = if x.1 >= y.0 && x.0 <= y.1 { Some((x.0.min(y.0), x.1.max(y.1))) } else { None };
    let got = pest::merge_spans(&sx, &sy).map(|s| (s.start(), s.end()));
    if got != want {
        finding(out, "merge_spans", json!({"x": [x.0, x.1], "y": [y.0, y.1], "merged": want.map(|w| [w.0, w.1])}), json!(got.map(|w| [w.0, w.1])));
    }
}

/// `merge_spans` builds a span too: whatever it is given - also spans of two different strings, which
/// its signature allows - it may only return a span on ordered boundary offsets of the string that
/// span says it is over, and looking at that span must not panic.
fn check_merge_cross(text_a: &str, text_b: &str, x: (usize, usize), y: (usize, usize), stage: &Cell<&'static str>, out: &mut Vec<Finding>) {
    stage.set("merge_spans(two inputs)");
    let (Some(sx), Some(sy)) = (Span::new(text_a, x.0, x.1), Span::new(text_b, y.0, y.1)) else { return };
    for (first, second, ta) in [(&sx, &sy, text_a), (&sy, &sx, text_b)] {
        if let Some(m) = pest::merge_spans(first, second) {
            let inp = m.get_input();
            let ok = m.start() <= m.end() && m.end() <= inp.len() && inp.is_char_boundary(m.start()) && inp.is_char_boundary(m.end());
            if !ok || (inp != text_a && inp != text_b) {
                finding(out, "merge_spans_two_inputs", json!({"x": [x.0, x.1], "y": [y.0, y.1], "other_text": text_b, "first_text": ta,
                    "merged": "None, or a span on ordered char boundaries of its own input"}), json!({"start": m.start(), "end": m.end(), "input_len": inp.len()}));
                continue;
            }
            stage.set("merge_spans(two inputs): as_str/lines/line_col of the result");
            let _ = m.as_str().len();
            let _ = m.lines().count();
            let _ = m.start_pos().line_col();
            let _ = m.end_pos().line_col();
        }
    }
}

// ------------------------------------------------------------------------------------------
// driver side

struct Ctx {
    known: BTreeSet<String>,
    tally: Tally,
    evaluations: u64,
}

impl Ctx {
    fn report(&mut self, rep: &mut Report, text: &str, a: usize, b: usize, api: &str, fs: Vec<Finding>) {
        for f in fs {
            let w = json!({"property": "C10", "text": text, "a": a, "b": b, "api": api, "check": f.check, "expected": f.expected, "observed": f.observed});
            match f.explained {
                Some(key) if self.known.contains(key) => rep.known_finding(key, w),
                Some(key) => {
                    let mut w = w;
                    w["explained_by_predicate"] = json!(key);
                    rep.violation(w)
                }
                None => rep.violation(w),
            }
        }
    }

    fn position(&mut self, rep: &mut Report, or: &Oracle, o: usize) {
        self.evaluations += 1;
        let stage = Cell::new("");
        let mut fs = vec![];
        let r = catch_unwind(AssertUnwindSafe(|| check_position(or, o, &stage, &mut self.tally, &mut fs)));
        if let Err(p) = r {
            finding(&mut fs, "no_panic", json!("no panic"), json!({"panic": vmon::pestrun::panic_message(&p), "in": stage.get()}));
        }
        if !fs.is_empty() {
            self.report(rep, or.text, o, o, "position", fs);
        }
    }

    fn pair(&mut self, rep: &mut Report, or: &Oracle, a: usize, b: usize) {
        self.evaluations += 1;
        let stage = Cell::new("");
        let mut fs = vec![];
        let r = catch_unwind(AssertUnwindSafe(|| check_pair(or, a, b, &stage, &mut self.tally, &mut fs)));
        if let Err(p) = r {
            finding(&mut fs, "no_panic", json!("no panic"), json!({"panic": vmon::pestrun::panic_message(&p), "in": stage.get()}));
        }
        if !fs.is_empty() {
            self.report(rep, or.text, a, b, "span", fs);
        }
    }

    fn merge_cross(&mut self, rep: &mut Report, text_a: &str, text_b: &str, x: (usize, usize), y: (usize, usize)) {
        self.evaluations += 1;
        let stage = Cell::new("");
        let mut fs = vec![];
        let r = catch_unwind(AssertUnwindSafe(|| check_merge_cross(text_a, text_b, x, y, &stage, &mut fs)));
        if let Err(p) = r {
            finding(&mut fs, "no_panic", json!({"no panic": true, "x": [x.0, x.1], "y": [y.0, y.1], "other_text": text_b}),
                    json!({"panic": vmon::pestrun::panic_message(&p), "in": stage.get()}));
        }
        if !fs.is_empty() {
            rep.count("merge_spans_two_inputs_findings");
            self.report(rep, text_a, x.0, x.1, "merge_spans_two_inputs", fs);
        }
    }

    fn merge(&mut self, rep: &mut Report, or: &Oracle, x: (usize, usize), y: (usize, usize)) {
        self.evaluations += 1;
        let stage = Cell::new("");
        let mut fs = vec![];
        let r = catch_unwind(AssertUnwindSafe(|| check_merge(or, x, y, &stage, &mut fs)));
        if let Err(p) = r {
            finding(&mut fs, "no_panic", json!("no panic"), json!({"panic": vmon::pestrun::panic_message(&p), "in": stage.get()}));
        }
        if !fs.is_empty() {
            // replayable through (a, b) = x; the second span is part of expected/observed
            self.report(rep, or.text, x.0, x.1, "merge_spans", fs);
        }
    }
}

/// Behaviour signature of a text: which of the arithmetic's special cases it contains.
fn text_bits(text: &str) -> u32 {
    let b = text.as_bytes();
    let mut bits = 0u32;
    for (i, c) in text.char_indices() {
        match c {
            '\n' => {
                bits |= 1;
                if i > 0 && b[i - 1] == b'\r' {
                    bits |= 2;
                }
                if i == 0 || b[i - 1] == b'\n' {
                    bits |= 4; // empty line
                }
            }
            '\r' => {
                if b.get(i + 1) != Some(&b'\n') {
                    bits |= 8; // lone CR
                }
            }
            '\t' => bits |= 16,
            _ => {}
        }
        match c.len_utf8() {
            2 => bits |= 32,
            3 => bits |= 64,
            4 => bits |= 128,
            _ => {}
        }
    }
    if text.ends_with('\n') {
        bits |= 256;
    }
    if text.ends_with('\r') {
        bits |= 512;
    }
    let lines = text.matches('\n').count();
    if lines >= 2 {
        bits |= 1024;
    }
    if text.is_empty() {
        bits |= 2048;
    }
    bits
}

fn register(rep: &mut Report, text: &str, slot: &str) {
    let bits = text_bits(text);
    if bits & 1 != 0 && bits & (32 | 64 | 128) != 0 {
        rep.nontrivial(hash_bytes(&[text.as_bytes()]), hash_bytes(&[&bits.to_le_bytes()]));
        if bits & 8 != 0 {
            rep.sample_slot(slot, || json!({"text": text}));
        }
    }
    const NAMES: [&str; 12] = ["lf", "crlf", "empty_line", "lone_cr", "tab", "2_byte_char", "3_byte_char", "4_byte_char", "ends_with_lf", "ends_with_cr", "3+_lines", "empty_text"];
    rep.count_bits("text_with:", bits, &NAMES);
}

/// Everything about one short text: all offsets, all pairs, and (for very short texts) all span pairs.
fn exhaustive_text(ctx: &mut Ctx, rep: &mut Report, text: &str, merge_all: bool) {
    let or = Oracle::new(text);
    let n = text.len();
    for o in 0..=n + 1 {
        ctx.position(rep, &or, o);
    }
    for a in 0..=n + 1 {
        for b in 0..=n + 1 {
            ctx.pair(rep, &or, a, b);
        }
    }
    if merge_all {
        let spans: Vec<(usize, usize)> = (0..=n).flat_map(|a| (a..=n).map(move |b| (a, b))).filter(|(a, b)| or.valid(*a) && or.valid(*b)).collect();
        for x in &spans {
            for y in &spans {
                ctx.merge(rep, &or, *x, *y);
            }
        }
        // the same spans against every span of a few other strings (other lengths, other boundaries)
        for other in ["ab\ncd", "日本語 text", "é\r\n🎈", "", "xxxxxxxxxxxxxxxxxxxxxxxx"] {
            let m = other.len();
            let ospans: Vec<(usize, usize)> =
                (0..=m).flat_map(|a| (a..=m).map(move |b| (a, b))).filter(|(a, b)| other.is_char_boundary(*a) && other.is_char_boundary(*b)).collect();
            for x in &spans {
                for y in ospans.iter().step_by(1 + ospans.len() / 40) {
                    ctx.merge_cross(rep, or.text, other, *x, *y);
                }
            }
        }
    }
}

fn random_text(rng: &mut Rng) -> String {
    let n = match rng.below(4) {
        0 => rng.below(12),
        1 => rng.below(60),
        _ => rng.below(201),
    };
    // line-break density varies per text
    let nl = [2u32, 6, 12, 25][rng.below(4)];
    let w = [30, 6, 4, 4, 4, nl, nl / 2 + 1, 3, 5, 3];
    let mut s = String::new();
    let mut chars = 0;
    while chars < n {
        match rng.weighted(&w) {
            0 => s.push((b'a' + rng.below(6) as u8) as char),
            1 => s.push(' '),
            2 => s.push(*rng.pick(&['é', 'ß', 'ж'])),
            3 => s.push(*rng.pick(&['嗨', '€'])),
            4 => s.push(*rng.pick(&['🎈', '𝄞'])),
            5 => s.push('\n'),
            6 => {
                s.push_str("\r\n");
                chars += 1;
            }
            7 => s.push('\r'),
            8 => s.push('\t'),
            // any other control / separator character: none of them is a line break for pest
            _ => s.push(*rng.pick(&['\u{b}', '\u{c}', '\u{1}', '\u{0}', '\u{7f}', '\u{1b}', '\u{85}', '\u{2028}', '\u{2029}', '\u{a0}', '\u{feff}', 'Ａ'])),
        }
        chars += 1;
    }
    s
}

fn random_case(ctx: &mut Ctx, rep: &mut Report, rng: &mut Rng, text: &str) {
    let or = Oracle::new(text);
    let n = text.len();
    for o in 0..=n + 1 {
        ctx.position(rep, &or, o);
    }
    let bounds: Vec<usize> = (0..=n).filter(|o| text.is_char_boundary(*o)).collect();
    // random ordered boundary pairs
    for _ in 0..24 {
        let x = *rng.pick(&bounds);
        let y = *rng.pick(&bounds);
        ctx.pair(rep, &or, x.min(y), x.max(y));
    }
    // pairs glued to line starts / line ends / the end of input
    for _ in 0..16 {
        let l1 = *rng.pick(&or.lines);
        let l2 = *rng.pick(&or.lines);
        let x = *rng.pick(&[l1.0, l1.1, l1.1.saturating_sub(1), n]);
        let y = *rng.pick(&[l2.0, l2.1, l2.1.saturating_sub(1), n]);
        ctx.pair(rep, &or, x.min(y), x.max(y));
    }
    // arbitrary offsets: non-boundaries, inverted, past the end
    for _ in 0..8 {
        ctx.pair(rep, &or, rng.below(n + 3), rng.below(n + 3));
    }
    for _ in 0..8 {
        let mut p = [*rng.pick(&bounds), *rng.pick(&bounds), *rng.pick(&bounds), *rng.pick(&bounds)];
        if p[0] > p[1] {
            p.swap(0, 1);
        }
        if p[2] > p[3] {
            p.swap(2, 3);
        }
        ctx.merge(rep, &or, (p[0], p[1]), (p[2], p[3]));
    }
}

/// One parse result with many pairs on many lines, looked at in arbitrary order: all pairs of a
/// `Pairs` share one line index, so whatever that index remembers between lookups must not matter.
fn shared_index_case(rep: &mut Report, rng: &mut Rng, text: &str) {
    let bounds: Vec<usize> = (0..=text.len()).filter(|o| text.is_char_boundary(*o)).collect();
    if bounds.len() < 3 {
        return;
    }
    let n = 4 + rng.below(28);
    let mut spans: Vec<(usize, usize)> = (0..n)
        .map(|_| {
            let x = *rng.pick(&bounds);
            let y = *rng.pick(&bounds);
            (x.min(y), x.max(y))
        })
        .collect();
    // top-level leaves; in document order mostly, sometimes in the order they were drawn
    let in_order = rng.chance(3, 4);
    if in_order {
        spans.sort();
    }
    let text2 = text.to_string();
    let spans2 = spans.clone();
    let mut order: Vec<usize> = (0..n).collect();
    match rng.below(4) {
        0 => order.reverse(),
        1 => {}
        _ => {
            for i in (1..n).rev() {
                let j = rng.below(i + 1);
                order.swap(i, j);
            }
        }
    }
    let order2 = order.clone();
    let r = std::panic::catch_unwind(move || {
        let mut b = PairsBuilder::new(&text2);
        for (x, y) in &spans2 {
            b = b.rule(R::inner, *x, *y);
        }
        let pairs: Vec<_> = b.build().collect();
        let mut got = vec![];
        for i in &order2 {
            got.push((*i, pairs[*i].line_col(), pairs[*i].as_span().start()));
        }
        // a second pass in document order over the same shared index
        for (i, p) in pairs.iter().enumerate() {
            got.push((i, p.line_col(), p.as_span().start()));
        }
        got
    });
    rep.count("evaluations");
    rep.count("shared_index_cases");
    let witness = |observed: Value| {
        json!({"property":"C10","check":"Pair::line_col over one shared line index, lookups in arbitrary order","text":text,"spans":spans,
            "lookup_order":order,"leaves_in_document_order":in_order,"a":0,"b":0,"expected":"1 + newlines before the start / 1 + chars since the last newline, for every pair, whatever was looked at before","observed":observed})
    };
    match r {
        Err(p) => rep.violation(witness(json!({"panic": vmon::pestrun::panic_message(&p)}))),
        Ok(got) => {
            for (i, lc, start) in got {
                rep.count("shared_index_lookups");
                let want = naive_line_col(text, spans[i].0);
                if lc != want || start != spans[i].0 {
                    rep.violation(witness(json!({"pair": i, "start": start, "line_col": [lc.0, lc.1], "naive": [want.0, want.1]})));
                    return;
                }
            }
        }
    }
}

pub fn run(args: &Args) {
    let mut rep = Report::new(args);
    let known_entries = load_known(&args.known, "C10");
    let mut ctx = Ctx { known: known_entries.iter().filter(|k| k.status == "known").map(|k| k.key.clone()).collect(), tally: Tally::default(), evaluations: 0 };
    if let Some(path) = &args.replay {
        let v: Value = serde_json::from_str(&std::fs::read_to_string(path).expect("replay file")).expect("json");
        let v = if v["text"].is_string() { v } else { v["witness"].clone() };
        replay_case(&mut ctx, &mut rep, &v);
        finish(ctx, rep, args);
        return;
    }
    // the canonical witnesses of the listed known findings are re-judged on every run (shard 0)
    if args.shard == 0 {
        for k in &known_entries {
            if k.status == "known" || k.status == "fixed" {
                replay_case(&mut ctx, &mut rep, &k.witness);
            }
        }
    }

    // (a) exhaustive
    let max_len = match args.opt("max-len").and_then(|s| s.parse::<usize>().ok()) {
        Some(n) => n,
        None => {
            if args.thorough {
                6
            } else {
                5
            }
        }
    };
    let mut index: u64 = 0;
    let mut complete = true;
    'outer: for len in 0..=max_len {
        let count = 6u64.pow(len as u32);
        for code in 0..count {
            let mine = index % args.nshards == args.shard;
            index += 1;
            if !mine {
                continue;
            }
            if rep.elapsed() > args.max_s {
                complete = false;
                break 'outer;
            }
            let mut text = String::new();
            let mut c = code;
            for _ in 0..len {
                text.insert(0, SYMBOLS[(c % 6) as usize]);
                c /= 6;
            }
            rep.count("exhaustive_texts");
            register(&mut rep, &text, "exhaustive");
            exhaustive_text(&mut ctx, &mut rep, &text, text.len() <= 6);
        }
    }
    rep.notes.insert("exhaustive_max_text_length_in_symbols".into(), json!(max_len));
    if !complete {
        rep.inconclusive(json!({"why": "time budget reached before the exhaustive enumeration of this shard finished", "max_s": args.max_s}));
    }

    // (b) random
    let mut rng = Rng::new(args.seed, "c10", args.shard);
    let total = args.budget(10_000, 100_000);
    for i in 0..total {
        if rep.elapsed() > args.max_s {
            rep.notes.insert("random_stopped_early_at_text".into(), json!(i));
            break;
        }
        let mut r = rng.fork();
        let text = random_text(&mut r);
        rep.count("random_texts");
        register(&mut rep, &text, "random");
        random_case(&mut ctx, &mut rep, &mut r, &text);
        shared_index_case(&mut rep, &mut r, &text);
        if i % 4 == 0 {
            // many short lines: lookups that jump far in line numbers
            let many: String = (0..10 + r.below(40)).map(|k| format!("{}{}", ["a", "é", "", "🎈b"][k % 4], if r.chance(1, 5) { "\r\n" } else { "\n" })).collect();
            shared_index_case(&mut rep, &mut r, &many);
        }
    }
    finish(ctx, rep, args);
}

fn finish(mut ctx: Ctx, mut rep: Report, args: &Args) {
    rep.add("evaluations", ctx.evaluations);
    ctx.tally.flush(&mut rep);
    rep.finish(args);
}

fn replay_case(ctx: &mut Ctx, rep: &mut Report, v: &Value) {
    let Some(text) = v["text"].as_str() else {
        rep.notes.insert("replay_without_text".into(), v.clone());
        return;
    };
    let a = v["a"].as_u64().unwrap_or(0) as usize;
    let b = v["b"].as_u64().unwrap_or(a as u64) as usize;
    let or = Oracle::new(text);
    register(rep, text, "replay");
    // offsets far outside the text are clamped to "one past the end" (same verdict, no huge tables)
    let clamp = |o: usize| o.min(text.len() + 1);
    ctx.position(rep, &or, clamp(a));
    if b != a {
        ctx.position(rep, &or, clamp(b));
    }
    ctx.pair(rep, &or, clamp(a), clamp(b));
    if let (Some(x), Some(y)) = (v["expected"]["x"].as_array(), v["expected"]["y"].as_array()) {
        let g = |arr: &Vec<Value>, i: usize| arr.get(i).and_then(|x| x.as_u64()).unwrap_or(0) as usize;
        ctx.merge(rep, &or, (g(x, 0), g(x, 1)), (g(y, 0), g(y, 1)));
    }
}
