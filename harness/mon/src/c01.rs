//! C01: the VM over the optimized grammar vs the reference reading of the documented semantics.

use crate::common::*;
use pest_meta::ast::{Expr, Rule};
use serde_json::json;
use vmon::gen::{gen_grammar, GenCfg, Profile};
use vmon::model::Outcome;
use vmon::pestrun::{run_vm, same_outcome};
use vmon::reference::{opbit, PlusReading, Ref};
use vmon::rng::{hash_bytes, Rng};
use vmon::shard::{Args, Report};

pub const VM_LIMIT: usize = 3_000_000;

fn has_rep_once(rules: &[Rule]) -> bool {
    rules.iter().any(|r| r.expr.iter_top_down().any(|e| matches!(e, Expr::RepOnce(_))))
}

/// Did the `list` pass change this grammar? (C05 tracks that rewrite as a known finding.)
pub fn lister_touches(ast: &[Rule]) -> bool {
    use pest_meta::optimizer::verif_passes as p;
    let map = p::rule_map(ast);
    ast.iter().any(|r| {
        let pre = p::factor(p::concatenate(p::unroll(p::skip(p::rotate(r.clone()), &map))));
        p::list(pre.clone()) != pre
    })
}

pub struct CaseResult {
    pub reference: Outcome,
    pub real: Outcome,
    pub ops: u32,
    pub backtracked: bool,
    pub skip_consumed: bool,
}

pub fn run_case(ast: &[Rule], vm: &pest_vm::Vm, rule: &str, input: &str, plus: PlusReading) -> CaseResult {
    let mut r = Ref::new(ast, input);
    r.plus = plus;
    let reference = r.parse(rule);
    let (ops, backtracked, skip_consumed) = (r.ops_seen, r.backtracked, r.skip_consumed);
    let real = match reference {
        // never hand a case the reference cannot finish to the real engine
        Outcome::Diverges(_) | Outcome::Budget => Outcome::Budget,
        _ => run_vm(vm, rule, input, VM_LIMIT, false).outcome,
    };
    CaseResult { reference, real, ops, backtracked, skip_consumed }
}

pub fn run(args: &Args) {
    let mut rep = Report::new(args);
    let mut rng = Rng::new(args.seed, "c01", args.shard);
    let n_grammars = args.budget(60_000, 1_500_000);
    let mut cfg = GenCfg::new(Profile::Full);
    cfg.nonatomic_skip_rules = true;
    cfg.wild_left_refs_pct = 3;
    if let Some(path) = &args.replay {
        replay(args, &mut rep, path);
        rep.finish(args);
        return;
    }
    // the repository's own grammar files (test grammars, bundled grammars, the meta-grammar) as a realistic family
    let files = vmon::textgen::corpus(args.opt("corpus").unwrap_or("/repo"));
    for (fi, (name, text)) in files.iter().enumerate() {
        if fi as u64 % args.nshards != args.shard || name.contains("fuzzsample") {
            continue;
        }
        let Ok((ast, optimized)) = read_grammar(text) else { continue };
        if lister_touches(&ast) {
            rep.count("corpus_grammars_set_aside_lister");
            continue;
        }
        rep.count("corpus_grammars_used");
        let vm = pest_vm::Vm::new(optimized);
        let mut grng = rng.fork();
        let (inputs, _, _) = vmon::inputs::inputs_for(&ast, &mut grng, if args.thorough { 400 } else { 60 }, 3, 60);
        for r in ast.iter().take(80) {
            for input in &inputs {
                rep.journal(|| json!({"grammar": text, "rule": r.name, "input": input}));
                check_case(&mut rep, text, &ast, &vm, &r.name, input);
            }
        }
    }
    for gi in 0..n_grammars {
        if rep.elapsed() > args.max_s {
            rep.notes.insert("stopped_early_at_grammar".into(), json!(gi));
            break;
        }
        let mut grng = rng.fork();
        cfg.builtin_named_rules = gi % 5 == 4;
        let gcfg = cfg.vary(&mut grng);
        let rules = gen_grammar(&mut grng, &gcfg);
        let text = vmon::print::rules_to_string(&rules);
        rep.count("grammars_generated");
        let (ast, optimized) = match read_grammar(&text) {
            Ok(x) => x,
            Err(_) => {
                rep.count("grammars_rejected_by_pest");
                continue;
            }
        };
        if ast != rules {
            rep.count("grammars_read_back_differently");
        }
        if lister_touches(&ast) {
            rep.count("grammars_set_aside_lister");
            continue;
        }
        rep.count("grammars_used");
        let vm = pest_vm::Vm::new(optimized);
        let (inputs, l, _) = vmon::inputs::inputs_for(&ast, &mut grng, 12, 2, if args.thorough { 1000 } else { 160 });
        rep.add("exhaustive_len_sum", l as u64);
        for r in &ast {
            for input in &inputs {
                rep.journal(|| json!({"grammar": text, "rule": r.name, "input": input}));
                check_case(&mut rep, &text, &ast, &vm, &r.name, input);
            }
        }
    }
    rep.finish(args);
}

pub fn check_case(rep: &mut Report, text: &str, ast: &[Rule], vm: &pest_vm::Vm, rule: &str, input: &str) {
    rep.count("evaluations");
    let c = run_case(ast, vm, rule, input, PlusReading::Native);
    rep.count(&format!("ref_outcome:{}", c.reference.kind()));
    match (&c.reference, &c.real) {
        (Outcome::Diverges(_), _) => {
            rep.count("excluded_reference_diverges");
            return;
        }
        (Outcome::Budget, _) => {
            rep.count("excluded_reference_budget");
            return;
        }
        (_, Outcome::Budget) => {
            rep.inconclusive(json!({"why":"vm call limit","grammar":text,"rule":rule,"input":input}));
            return;
        }
        _ => {}
    }
    let nontrivial = c.ops.count_ones() >= 3 && !input.is_empty();
    if nontrivial {
        let h = hash_bytes(&[text.as_bytes(), rule.as_bytes(), input.as_bytes()]);
        let sig = hash_bytes(&[&c.ops.to_le_bytes(), c.reference.kind().as_bytes(), &[c.backtracked as u8, c.skip_consumed as u8]]);
        rep.nontrivial(h, sig);
        rep.count_bits("op:", c.ops, opbit::NAMES);
        if c.backtracked {
            rep.count("cases_with_backtracking");
        }
        if c.skip_consumed {
            rep.count("cases_with_implicit_skip_consuming");
        }
        rep.sample_slot(c.reference.kind(), || json!({"grammar": text, "rule": rule, "input": input, "reference": outcome_json(&c.reference)}));
    }
    if same_outcome(&c.real, &c.reference, false) {
        return;
    }
    let witness = json!({
        "property": "C01", "config": config_name(), "grammar": text, "rule": rule, "input": input,
        "expected": outcome_json(&c.reference), "observed": outcome_json(&c.real),
    });
    // explained by the known `e+ := e ~ e*` reading of default features?
    if !cfg!(feature = "grammar-extras") && has_rep_once(ast) {
        let c2 = run_case(ast, vm, rule, input, PlusReading::Unrolled);
        if same_outcome(&c2.real, &c2.reference, false) {
            rep.known_finding("c01-plus-unrolled-trailing-skip", witness);
            return;
        }
        if matches!(c2.reference, Outcome::Budget | Outcome::Diverges(_)) {
            // under the `e ~ e*` reading the reference does not finish within its step budget (deeply
            // recursive skip rules): the listed finding cannot be told from a new one here
            rep.inconclusive(json!({"why": "disagreement under the documented reading of e+, and the reference runs out of its step budget under the e ~ e* reading that would explain it",
                                    "grammar": text, "rule": rule, "input": input}));
            return;
        }
    }
    rep.violation(witness);
}

fn replay(_args: &Args, rep: &mut Report, path: &std::path::Path) {
    let v: serde_json::Value = serde_json::from_str(&std::fs::read_to_string(path).expect("replay file")).expect("json");
    let text = v["grammar"].as_str().unwrap();
    let rule = v["rule"].as_str().unwrap();
    let input = v["input"].as_str().unwrap();
    match read_grammar(text) {
        Ok((ast, opt)) => {
            let vm = pest_vm::Vm::new(opt);
            check_case(rep, text, &ast, &vm, rule, input);
        }
        Err(e) => {
            rep.notes.insert("replay_grammar_rejected".into(), json!(e));
        }
    }
}
