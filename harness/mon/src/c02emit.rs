//! C02 stage 1: draws grammars and inputs and writes the generated batch workspace
//! (16 crates of `#[derive(Parser)] #[grammar_inline]` modules + case files).

use crate::common::*;
use serde_json::json;
use std::fmt::Write as _;
use vmon::gen::{gen_grammar, GenCfg, Profile};
use vmon::rng::Rng;
use vmon::shard::Args;

const RUST_KEYWORDS: &[&str] = &["self", "Self", "crate", "super"];

pub fn run(args: &Args) {
    let out = std::path::PathBuf::from(args.opt("out-dir").expect("--out-dir"));
    let batches: usize = args.opt("batches").map(|s| s.parse().unwrap()).unwrap_or(16);
    let n: usize = args.opt("n").map(|s| s.parse().unwrap()).unwrap_or(200);
    let extras = cfg!(feature = "grammar-extras");
    let mut rng = Rng::new(args.seed, "c02emit", 0);
    std::fs::create_dir_all(out.join(".cargo")).unwrap();
    let mut per_batch: Vec<Vec<serde_json::Value>> = vec![vec![]; batches];
    let mut sources: Vec<String> = vec![String::new(); batches];
    let mut mains: Vec<Vec<usize>> = vec![vec![]; batches];
    let mut accepted = 0usize;
    let mut tries = 0usize;
    // witnesses of listed findings (known and fixed) are part of every batch set
    let mut witnesses: Vec<(String, String, String)> = vec![];
    for k in vmon::shard::load_known(&args.known, "C02") {
        if let (Some(g), Some(r), Some(i)) = (k.witness["grammar"].as_str(), k.witness["rule"].as_str(), k.witness["input"].as_str()) {
            if let Some(c) = k.witness["config"].as_str() {
                if c != config_name() {
                    continue;
                }
            }
            witnesses.push((g.to_string(), r.to_string(), i.to_string()));
        }
    }
    while accepted < n && tries < n * 20 {
        tries += 1;
        let mut grng = rng.fork();
        let family = match tries % 8 {
            0 => "skip_rule_modifiers",
            1 => "rules_named_like_builtins",
            2 => "unicode_property_builtins",
            3 | 4 | 5 => "optimizer_shapes",
            _ => "full",
        };
        let mut cfg = GenCfg::new(Profile::Full);
        cfg.max_rules = 5;
        match family {
            "skip_rule_modifiers" => {
                cfg.nonatomic_skip_rules = true;
            }
            "rules_named_like_builtins" => {
                cfg.builtin_named_rules = true;
            }
            "optimizer_shapes" => {
                // what the optimizer produces is lowered separately by the two back-ends: Skip with many stop
                // strings, RestoreOnErr around stack-changing branches, concatenated and factored literals
                cfg.shapes_pct = 60;
                cfg.skipper_pct = 25;
                cfg.restorer_pct = 30;
                cfg.max_depth = 5;
            }
            _ => {}
        }
        let mut rules = gen_grammar(&mut grng, &cfg);
        if family == "unicode_property_builtins" {
            // every advertised property name gets its turn as a built-in rule in both back-ends
            let names: Vec<&str> = pest::unicode::unicode_property_names().collect();
            let mut body: Option<pest_meta::ast::Expr> = None;
            for _ in 0..1 + grng.below(4) {
                let mut id = pest_meta::ast::Expr::Ident(names[grng.below(names.len())].to_string());
                if grng.chance(1, 3) {
                    // a class difference / intersection: `!A ~ B`, `&A ~ B`
                    let other = Box::new(pest_meta::ast::Expr::Ident(names[grng.below(names.len())].to_string()));
                    let pred = if grng.chance(2, 3) { pest_meta::ast::Expr::NegPred(other) } else { pest_meta::ast::Expr::PosPred(other) };
                    id = pest_meta::ast::Expr::Seq(Box::new(pred), Box::new(id));
                }
                body = Some(match body {
                    None => id,
                    Some(b) => {
                        if grng.chance(1, 2) {
                            pest_meta::ast::Expr::Choice(Box::new(b), Box::new(id))
                        } else {
                            pest_meta::ast::Expr::Seq(Box::new(b), Box::new(id))
                        }
                    }
                });
            }
            let uty = *grng.pick(&[pest_meta::ast::RuleType::Normal, pest_meta::ast::RuleType::Normal, pest_meta::ast::RuleType::Atomic, pest_meta::ast::RuleType::CompoundAtomic, pest_meta::ast::RuleType::NonAtomic]);
            let ubody = if grng.chance(1, 2) { pest_meta::ast::Expr::RepOnce(Box::new(body.unwrap())) } else { body.unwrap() };
            rules.push(pest_meta::ast::Rule { name: "uni".into(), ty: uty, expr: ubody });
            if !rules.iter().any(|r| r.name == "WHITESPACE") && grng.chance(1, 2) {
                rules.push(pest_meta::ast::Rule { name: "WHITESPACE".into(), ty: pest_meta::ast::RuleType::Silent, expr: pest_meta::ast::Expr::Str(" ".into()) });
            }
        }
        let mut forced_input: Option<String> = None;
        let mut family = family;
        if let Some((g, _r, i)) = witnesses.pop() {
            if let Ok((ast, _)) = read_grammar(&g) {
                rules = ast;
                forced_input = Some(i);
                family = "known_findings_witness";
            }
        }
        if family == "skip_rule_modifiers" && !rules.iter().any(|r| r.name == "WHITESPACE" || r.name == "COMMENT") {
            // make sure the family has what it is about
            let ty = *grng.pick(&[
                pest_meta::ast::RuleType::Normal,
                pest_meta::ast::RuleType::Silent,
                pest_meta::ast::RuleType::Atomic,
                pest_meta::ast::RuleType::CompoundAtomic,
                pest_meta::ast::RuleType::NonAtomic,
            ]);
            rules.push(pest_meta::ast::Rule { name: "WHITESPACE".into(), ty, expr: pest_meta::ast::Expr::Str(" ".into()) });
        }
        if rules.iter().any(|r| RUST_KEYWORDS.contains(&r.name.as_str())) {
            continue;
        }
        // half of the grammars in a fuzzed spelling (raw control characters and line breaks inside literals,
        // CRLF line ends, comments, optional separators): both back-ends read the same text
        let text = if family != "known_findings_witness" && tries % 2 == 0 { vmon::print::Printer::fuzz(&mut grng).rules(&rules) } else { vmon::print::rules_to_string(&rules) };
        let Ok((ast, _)) = read_grammar(&text) else { continue };
        let (inputs, _, _) = vmon::inputs::inputs_for(&ast, &mut grng, 10, 2, 60);
        // only inputs the reference interpreter finishes from every rule: the generated parser has
        // no step bound of its own for loops that iterate on the stack alone
        let inputs: Vec<String> = inputs
            .into_iter()
            .filter(|i| i.len() <= 40)
            .filter(|i| {
                ast.iter().all(|r| {
                    let mut rf = vmon::reference::Ref::new(&ast, i);
                    rf.max_steps = 30_000;
                    !matches!(rf.parse(&r.name), vmon::model::Outcome::Diverges(_) | vmon::model::Outcome::Budget)
                })
            })
            .collect();
        let mut inputs = inputs;
        if let Some(i) = forced_input {
            if !inputs.contains(&i) {
                inputs.push(i);
            }
        }
        let idx = accepted;
        let b = idx % batches;
        let names: Vec<String> = ast.iter().map(|r| r.name.clone()).collect();
        per_batch[b].push(json!({"idx": idx, "family": family, "text": text, "rules": names, "inputs": inputs}));
        let src = &mut sources[b];
        let _ = writeln!(src, "pub mod g{idx} {{");
        let _ = writeln!(src, "    #[derive(pest_derive::Parser)]");
        // an escaped (not raw) Rust literal: rustc would fold a raw CR LF inside a string literal to LF
        let _ = writeln!(src, "    #[grammar_inline = {text:?}]");
        let _ = writeln!(src, "    pub struct P;");
        let _ = writeln!(src, "    fn by_name(rule: &str) -> Option<Rule> {{");
        let _ = writeln!(src, "        Some(match rule {{");
        for nme in &names {
            let _ = writeln!(src, "            \"{nme}\" => Rule::r#{nme},");
        }
        let _ = writeln!(src, "            _ => return None,");
        let _ = writeln!(src, "        }})");
        let _ = writeln!(src, "    }}");
        let _ = writeln!(src, "    pub fn parse(rule: &str, input: &str) -> Option<vmon::c02::Parsed> {{");
        let _ = writeln!(src, "        let rule_value__ = by_name(rule)?;");
        let _ = writeln!(src, "        Some(vmon::c02::normalise(<P as pest::Parser<Rule>>::parse(rule_value__, input)))");
        let _ = writeln!(src, "    }}");
        let _ = writeln!(src, "    pub fn rule_index(rule: &str) -> Option<usize> {{");
        let _ = writeln!(src, "        by_name(rule).map(|rule_value__| rule_value__ as usize)");
        let _ = writeln!(src, "    }}");
        let _ = writeln!(src, "}}");
        mains[b].push(idx);
        accepted += 1;
    }
    let vmon_dir = args.opt("vmon-dir").unwrap_or("/verif/harness/vmon").to_string();
    let feat = if extras { ", features = [\"grammar-extras\"]" } else { "" };
    let mut members = vec![];
    for b in 0..batches {
        let d = out.join(format!("b{b}"));
        std::fs::create_dir_all(d.join("src")).unwrap();
        members.push(format!("\"b{b}\""));
        write_if_changed(
            d.join("Cargo.toml"),
            format!(
                "[package]\nname = \"b{b}\"\nversion = \"0.0.0\"\nedition = \"2021\"\n\n[dependencies]\nvmon = {{ path = \"{vmon_dir}\"{feat} }}\npest = {{ path = \"/repo/pest\" }}\npest_derive = {{ path = \"/repo/derive\"{feat} }}\npest_meta = {{ path = \"/repo/meta\"{feat} }}\npest_vm = {{ path = \"/repo/vm\"{feat} }}\n"
            ),
        )
        .unwrap();
        let mut main = String::from("#![allow(non_camel_case_types, non_snake_case, dead_code, unused_qualifications, clippy::all)]\n");
        main.push_str(&sources[b]);
        main.push_str("\nfn main() {\n    vmon::c02::batch_main(&[\n");
        for idx in &mains[b] {
            let _ = writeln!(main, "        vmon::c02::Entry {{ idx: {idx}, parse: g{idx}::parse, rule_index: g{idx}::rule_index }},");
        }
        main.push_str("    ]);\n}\n");
        write_if_changed(d.join("src/main.rs"), main).unwrap();
        write_if_changed(d.join("cases.json"), json!({"grammars": per_batch[b]}).to_string()).unwrap();
    }
    write_if_changed(
        out.join("Cargo.toml"),
        format!(
            "[workspace]\nresolver = \"2\"\nmembers = [{}]\n\n[profile.dev]\nopt-level = 0\ndebug = 0\ndebug-assertions = true\noverflow-checks = true\nincremental = false\n\n[profile.dev.package.\"*\"]\nopt-level = 2\n",
            members.join(", ")
        ),
    )
    .unwrap();
    let tdir = args.opt("target-dir").unwrap_or("/verif/target/gen-target");
    write_if_changed(out.join(".cargo/config.toml"), format!("[net]\noffline = true\n\n[build]\ntarget-dir = \"{tdir}\"\nrustflags = [\"--cfg\", \"pest_parser_pest_verif\"]\n")).unwrap();
    println!("{}", json!({"grammars": accepted, "tries": tries, "batches": batches, "config": config_name()}));
}

fn write_if_changed(path: impl AsRef<std::path::Path>, content: impl AsRef<[u8]>) -> std::io::Result<()> {
    let path = path.as_ref();
    if let Ok(old) = std::fs::read(path) {
        if old == content.as_ref() {
            return Ok(());
        }
    }
    std::fs::write(path, content)
}
