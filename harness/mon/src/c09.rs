//! C09: the grammar front-end is total. Any text yields rules or located, renderable errors;
//! never a panic or abort. "Bounded time" is decided in logical steps under the repository's own
//! call-limit mechanism.

use crate::common::*;
use pest::error::InputLocation;
use serde_json::json;
use std::panic::{catch_unwind, AssertUnwindSafe};
use vmon::gen::{gen_grammar, GenCfg, Profile};
use vmon::rng::{hash_bytes, Rng};
use vmon::shard::{Args, Report};

const CALL_LIMIT: usize = 300_000;
const MAX_LEN: usize = 4096;

const TOKENS: &[&str] = &[
    "PEEK[", "PEEK[..]", "PEEK[1..", "PEEK[-1..2]", "..", "]", "[", "PUSH(", "PUSH_LITERAL(", "PUSH_LITERAL(\"x\")", "(", ")", "{", "}", "{1,", ",2}", "{2}",
    "{0}", "{,0}", "{0,0}", "{3,1}", "{64}", "\\u{110000}", "\"\\u{110000}\"", "\"\\u{D800}\"", "'\\u{DFFF}'", "\"\\xFF\"", "\"\\x\"", "\"\\u{\"", "\"\\u{}\"",
    "\"\\u{1234567}\"", "\"\\q\"", "'a'..", "'a'..'b'", "'ab'", "''", "'", "\"", "\"\"", "^", "^\"a\"", "^ \"a\"", "#t =", "#t", "#", "//!", "///", "//", "/*", "*/",
    "/* /* */", "WHITESPACE", "COMMENT", "ANY", "SOI", "EOI", "POP", "PEEK", "DROP", "PEEK_ALL", "POP_ALL", "_", "@", "$", "!", "&", "~", "|", "*", "+", "?", "=",
    "=_{", "={", "a", "a =", "a = { a }", "b = { \"x\" }", "-", "-0", "-1", "0", "é", "🎈", "\u{0}", "\r\n", "\n", " ", "\t", "\\", ",", "ASCII_DIGIT", "LETTER", "self",
    "PUSH", "PUSHa", "PEEKa", "\u{feff}",
];
const BIGNUMS: &[&str] = &[
    "2147483647", "2147483648", "-2147483648", "-2147483649", "4294967295", "4294967296", "99999999999", "18446744073709551616", "1180591620717411303424", "-99999999999999999999",
];
const ALPHA: &[char] = &[
    '{', '}', '(', ')', '[', ']', '|', '~', '*', '+', '?', '!', '&', '@', '$', '_', '^', '"', '\'', '\\', '.', ',', '=', '#', '-', '/', ' ', '\n', 'a', 'b', 'P', 'U', 'S', 'H', 'E', 'K', '0', '1', '9', 'u', 'x', 'é',
];

fn corpus(root: &str) -> Vec<(String, String)> {
    let mut out = vec![];
    fn walk(dir: &std::path::Path, out: &mut Vec<(String, String)>) {
        let Ok(rd) = std::fs::read_dir(dir) else { return };
        let mut entries: Vec<_> = rd.flatten().collect();
        entries.sort_by_key(|e| e.path());
        for e in entries {
            let p = e.path();
            if p.is_dir() {
                let name = p.file_name().unwrap().to_string_lossy().to_string();
                if name == "target" || name.starts_with('.') {
                    continue;
                }
                walk(&p, out);
            } else if let Some(ext) = p.extension() {
                if ext == "pest" || ext == "grammar" {
                    if let Ok(t) = std::fs::read_to_string(&p) {
                        out.push((p.to_string_lossy().to_string(), t));
                    }
                }
            }
        }
    }
    walk(std::path::Path::new(root), &mut out);
    out
}

/// The statement bounds repetition counts; the unroller makes that many copies, multiplicatively
/// when nested. Texts whose counts multiply beyond this bound are outside the premise.
fn counts_in_scope(text: &str) -> bool {
    // drop PEEK[...] segments (slice indices are not repetition counts)
    let mut t = String::with_capacity(text.len());
    let mut rest = text;
    while let Some(i) = rest.find("PEEK") {
        t.push_str(&rest[..i]);
        let after = &rest[i + 4..];
        let trimmed = after.trim_start();
        if trimmed.starts_with('[') {
            match trimmed.find(']') {
                Some(j) => rest = &trimmed[j + 1..],
                None => {
                    rest = "";
                }
            }
        } else {
            t.push_str("PEEK");
            rest = after;
        }
    }
    t.push_str(rest);
    // strip comments roughly (this is only a scope filter)
    let mut u = String::with_capacity(t.len());
    let bytes: Vec<char> = t.chars().collect();
    let mut i = 0;
    let mut depth = 0usize;
    while i < bytes.len() {
        if bytes[i] == '/' && i + 1 < bytes.len() && bytes[i + 1] == '*' {
            depth += 1;
            i += 2;
        } else if depth > 0 && bytes[i] == '*' && i + 1 < bytes.len() && bytes[i + 1] == '/' {
            depth -= 1;
            i += 2;
        } else if depth == 0 && bytes[i] == '/' && i + 1 < bytes.len() && bytes[i + 1] == '/' {
            while i < bytes.len() && bytes[i] != '\n' {
                i += 1;
            }
        } else {
            if depth == 0 {
                u.push(bytes[i]);
            }
            i += 1;
        }
    }
    // repetition counts: digit runs whose previous non-blank character is `{` or `,`
    let mut product: f64 = 1.0;
    let mut cur: Option<f64> = None;
    let mut prev_sig = ' ';
    let mut counting = false;
    for c in u.chars().chain(std::iter::once(' ')) {
        if let Some(d) = c.to_digit(10) {
            if cur.is_none() {
                counting = prev_sig == '{' || prev_sig == ',';
            }
            cur = Some((cur.unwrap_or(0.0) * 10.0 + d as f64).min(1e12));
        } else {
            if let Some(v) = cur.take() {
                if counting {
                    if v > 64.0 {
                        return false;
                    }
                    product *= v.max(1.0);
                    if product > 50_000.0 {
                        return false;
                    }
                }
                prev_sig = '0';
            }
            if !c.is_whitespace() {
                prev_sig = c;
            }
        }
    }
    true
}

fn mutate(base: &str, rng: &mut Rng) -> (String, &'static str) {
    let mut cs: Vec<char> = base.chars().collect();
    let kind = match rng.below(9) {
        0 => {
            if !cs.is_empty() {
                let i = rng.below(cs.len());
                cs.truncate(i);
            }
            "truncate"
        }
        1 => {
            for _ in 0..1 + rng.below(3) {
                if !cs.is_empty() {
                    let i = rng.below(cs.len());
                    cs.remove(i);
                }
            }
            "delete_chars"
        }
        2 => {
            for _ in 0..1 + rng.below(3) {
                let i = rng.below(cs.len() + 1);
                cs.insert(i, *rng.pick(ALPHA));
            }
            "insert_chars"
        }
        3 => {
            for _ in 0..1 + rng.below(3) {
                if !cs.is_empty() {
                    let i = rng.below(cs.len());
                    cs[i] = *rng.pick(ALPHA);
                }
            }
            "replace_chars"
        }
        4 | 5 => {
            for _ in 0..1 + rng.below(3) {
                let i = rng.below(cs.len() + 1);
                let tok: Vec<char> = rng.pick(TOKENS).chars().collect();
                cs.splice(i..i, tok);
            }
            "insert_tokens"
        }
        6 => {
            // an out-of-range number, where numbers go
            let i = rng.below(cs.len() + 1);
            let n = *rng.pick(BIGNUMS);
            let tok: String = match rng.below(4) {
                0 => format!("PEEK[{n}..]"),
                1 => format!("PEEK[..{n}]"),
                2 => format!("PEEK[{n}..{n}]"),
                _ => format!("PEEK[ -{} .. ]", n.trim_start_matches('-')),
            };
            cs.splice(i..i, tok.chars());
            "big_slice_index"
        }
        7 => {
            if cs.len() > 2 {
                let i = rng.below(cs.len());
                let j = (i + 1 + rng.below(40)).min(cs.len());
                let seg: Vec<char> = cs[i..j].to_vec();
                let k = rng.below(cs.len() + 1);
                cs.splice(k..k, seg);
            }
            "duplicate_segment"
        }
        _ => {
            if cs.len() > 2 {
                let i = rng.below(cs.len());
                let j = (i + 1 + rng.below(60)).min(cs.len());
                cs.drain(i..j);
            }
            "delete_segment"
        }
    };
    (cs.into_iter().collect(), kind)
}

fn cut(text: &str, rng: &mut Rng) -> String {
    if text.len() <= MAX_LEN {
        return text.to_string();
    }
    // a window of whole lines, at most MAX_LEN bytes
    let lines: Vec<&str> = text.split_inclusive('\n').collect();
    let start = rng.below(lines.len());
    let mut out = String::new();
    for l in &lines[start..] {
        if out.len() + l.len() > MAX_LEN {
            break;
        }
        out.push_str(l);
    }
    out
}

fn check_location(text: &str, loc: &InputLocation) -> Result<(), String> {
    let ok = |p: usize| p <= text.len() && text.is_char_boundary(p);
    match *loc {
        InputLocation::Pos(p) => {
            if ok(p) {
                Ok(())
            } else {
                Err(format!("position {p} is not a char boundary inside the text (len {})", text.len()))
            }
        }
        InputLocation::Span((a, b)) => {
            if ok(a) && ok(b) && a <= b {
                Ok(())
            } else {
                Err(format!("span ({a},{b}) is not an ordered pair of char boundaries inside the text (len {})", text.len()))
            }
        }
    }
}

fn check_text(rep: &mut Report, text: &str, kind: &str, source: &str) {
    if !counts_in_scope(text) {
        rep.count("out_of_scope_repetition_counts");
        return;
    }
    rep.count("evaluations");
    rep.count(&format!("mutation:{kind}"));
    pest::set_call_limit(std::num::NonZeroUsize::new(CALL_LIMIT));
    pest::verif::enable(true);
    pest::verif::set_cap(0);
    let r = catch_unwind(AssertUnwindSafe(|| {
        let res = pest_meta::parse_and_optimize(text);
        let mut class = "rules";
        let mut problems: Vec<String> = vec![];
        match &res {
            Ok((_defaults, rules)) => {
                let _ = rules.len();
            }
            Err(errors) => {
                class = "errors";
                if errors.is_empty() {
                    problems.push("an empty error list was returned".into());
                }
                for e in errors {
                    if let Err(m) = check_location(text, &e.location) {
                        problems.push(m);
                    }
                    let shown = format!("{e}");
                    if shown.is_empty() {
                        problems.push("error renders as the empty string".into());
                    }
                    let renamed = e.clone().renamed_rules(pest_meta::parser::rename_meta_rule);
                    let _ = format!("{renamed}");
                    let _ = format!("{:?}", e.line_col);
                    if matches!(e.variant, pest::error::ErrorVariant::ParsingError { .. }) {
                        class = "syntax_error";
                    }
                }
            }
        }
        // the documentation collector runs on whatever the syntax stage accepted
        if let Ok(pairs) = pest_meta::parser::parse(pest_meta::parser::Rule::grammar_rules, text) {
            let d = pest_generator::docs::consume(pairs);
            let _ = d.grammar_doc.len() + d.line_docs.len();
        }
        (class, problems)
    }));
    let fin = pest::verif::last_final();
    pest::verif::enable(false);
    pest::set_call_limit(None);
    let limit_hit = fin.map_or(false, |f| f.calls >= CALL_LIMIT);
    let witness = |obs: String| {
        json!({"property":"C09","config":config_name(),"text":text,"source":source,"mutation":kind,
            "expected":"rules or a list of located, renderable errors; no panic","observed":obs})
    };
    match r {
        Err(p) => {
            let m = vmon::pestrun::panic_message(&p);
            rep.violation(witness(format!("panic: {m}")));
        }
        Ok((class, problems)) => {
            if limit_hit {
                rep.count("call_limit_reached");
            }
            rep.count(&format!("outcome:{class}"));
            if !problems.is_empty() {
                rep.violation(witness(problems.join("; ")));
            }
            if text.len() >= 8 {
                let sig = hash_bytes(&[class.as_bytes(), kind.as_bytes(), source.as_bytes()]);
                rep.nontrivial(hash_bytes(&[text.as_bytes()]), sig);
                rep.sample_slot(&format!("{class}:{kind}"), || json!({"text": if text.len() > 300 { format!("{}…", &text[..text.char_indices().nth(200).map(|x| x.0).unwrap_or(0)]) } else { text.to_string() }, "mutation": kind, "outcome": class}));
            }
        }
    }
}

pub fn run(args: &Args) {
    let mut rep = Report::new(args);
    if let Some(path) = &args.replay {
        let v: serde_json::Value = serde_json::from_str(&std::fs::read_to_string(path).expect("replay file")).expect("json");
        let w = if v["witness"].is_object() { v["witness"].clone() } else { v.clone() };
        check_text(&mut rep, w["text"].as_str().unwrap(), "replay", "replay");
        rep.finish(args);
        return;
    }
    let mut rng = Rng::new(args.seed, "c09", args.shard);
    let root = args.opt("corpus").unwrap_or("/repo").to_string();
    let files = corpus(&root);
    rep.add("corpus_files", files.len() as u64);
    if files.is_empty() {
        rep.inconclusive(json!({"why": "no grammar files found", "root": root}));
    }
    if args.shard == 0 {
        for k in vmon::shard::load_known(&args.known, "C09") {
            if let Some(t) = k.witness["text"].as_str() {
                rep.count("known_witnesses_replayed");
                check_text(&mut rep, t, "regression", "known_findings");
            }
        }
        for (name, t) in &files {
            if t.len() <= 64 * 1024 && !name.contains("fuzzsample") {
                check_text(&mut rep, t, "unmodified", "corpus");
            }
        }
    }
    let n = args.budget(400_000, 20_000_000);
    let mut cfg = GenCfg::new(Profile::Full);
    cfg.wide_literals = true;
    cfg.max_count = 12;
    cfg.wild_left_refs_pct = 20;
    for i in 0..n {
        if rep.elapsed() > args.max_s {
            rep.notes.insert("stopped_early_at".into(), json!(i));
            break;
        }
        let mut r = rng.fork();
        let (text, kind, source) = match i % 10 {
            0..=4 if !files.is_empty() => {
                let (_, t) = r.pick(&files);
                let base = cut(t, &mut r);
                let (mut m, mut kind) = mutate(&base, &mut r);
                if r.chance(1, 3) {
                    let (m2, k2) = mutate(&m, &mut r);
                    m = m2;
                    kind = k2;
                }
                (m, kind, "corpus")
            }
            5..=7 => {
                let rules = gen_grammar(&mut r, &cfg);
                let base = if r.chance(1, 2) { vmon::print::rules_to_string(&rules) } else { vmon::print::Printer::fuzz(&mut r).rules(&rules) };
                if r.chance(1, 5) {
                    (base, "generated_unmodified", "generator")
                } else {
                    let (m, kind) = mutate(&base, &mut r);
                    (m, kind, "generator")
                }
            }
            8 => {
                let n = r.below(60);
                let s: String = (0..n).map(|_| *r.pick(ALPHA)).collect();
                (s, "random_chars", "random")
            }
            _ => {
                let n = 1 + r.below(14);
                let mut s = String::new();
                for _ in 0..n {
                    let tok: &str = if r.chance(1, 12) { *r.pick(BIGNUMS) } else { *r.pick(TOKENS) };
                    s.push_str(tok);
                    if r.chance(1, 2) {
                        s.push(' ');
                    }
                }
                (s, "random_tokens", "random")
            }
        };
        let text = if text.len() > MAX_LEN { text[..text.char_indices().take_while(|(i, _)| *i <= MAX_LEN).last().map(|x| x.0).unwrap_or(0)].to_string() } else { text };
        rep.journal(|| json!({"text": text}));
        check_text(&mut rep, &text, kind, source);
    }
    rep.finish(args);
}
