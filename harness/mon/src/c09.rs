//! C09: the grammar front-end is total. Any text yields rules or located, renderable errors;
//! never a panic or abort. "Bounded time" is decided in logical steps under the repository's own
//! call-limit mechanism.

use crate::common::*;
use pest::error::InputLocation;
use serde_json::json;
use std::panic::{catch_unwind, AssertUnwindSafe};
use vmon::rng::{hash_bytes, Rng};
use vmon::shard::{Args, Report};

const CALL_LIMIT: usize = 300_000;

fn check_location(text: &str, loc: &InputLocation) -> Result<(), String> {
    let ok = |p: usize| p <= text.len() && text.is_char_boundary(p);
    match *loc {
        InputLocation::Pos(p) => {
            if ok(p) {
                Ok(())
            } else {
                Err(format!("position {p} is not a char boundary inside the text (len {})", text.len()))
            }
        }
        InputLocation::Span((a, b)) => {
            if ok(a) && ok(b) && a <= b {
                Ok(())
            } else {
                Err(format!("span ({a},{b}) is not an ordered pair of char boundaries inside the text (len {})", text.len()))
            }
        }
    }
}

fn check_text(rep: &mut Report, text: &str, kind: &str, source: &str) {
    if !vmon::textgen::counts_in_scope(text) {
        rep.count("out_of_scope_repetition_counts");
        return;
    }
    rep.count("evaluations");
    rep.count(&format!("mutation:{kind}"));
    pest::set_call_limit(std::num::NonZeroUsize::new(CALL_LIMIT));
    pest::verif::enable(true);
    pest::verif::set_cap(0);
    let r = catch_unwind(AssertUnwindSafe(|| {
        let res = pest_meta::parse_and_optimize(text);
        let mut class = "rules";
        let mut problems: Vec<String> = vec![];
        match &res {
            Ok((_defaults, rules)) => {
                let _ = rules.len();
            }
            Err(errors) => {
                class = "errors";
                if errors.is_empty() {
                    problems.push("an empty error list was returned".into());
                }
                for e in errors {
                    if let Err(m) = check_location(text, &e.location) {
                        problems.push(m);
                    }
                    let shown = format!("{e}");
                    if shown.is_empty() {
                        problems.push("error renders as the empty string".into());
                    }
                    let renamed = e.clone().renamed_rules(pest_meta::parser::rename_meta_rule);
                    let _ = format!("{renamed}");
                    let _ = format!("{:?}", e.line_col);
                    if matches!(e.variant, pest::error::ErrorVariant::ParsingError { .. }) {
                        class = "syntax_error";
                    }
                }
            }
        }
        // the documentation collector runs on whatever the syntax stage accepted
        if let Ok(pairs) = pest_meta::parser::parse(pest_meta::parser::Rule::grammar_rules, text) {
            let d = pest_generator::docs::consume(pairs);
            let _ = d.grammar_doc.len() + d.line_docs.len();
        }
        (class, problems)
    }));
    let fin = pest::verif::last_final();
    pest::verif::enable(false);
    pest::set_call_limit(None);
    let limit_hit = fin.map_or(false, |f| f.calls >= CALL_LIMIT);
    let witness = |obs: String| {
        json!({"property":"C09","config":config_name(),"text":text,"source":source,"mutation":kind,
            "expected":"rules or a list of located, renderable errors; no panic","observed":obs})
    };
    match r {
        Err(p) => {
            let m = vmon::pestrun::panic_message(&p);
            rep.violation(witness(format!("panic: {m}")));
        }
        Ok((class, problems)) => {
            if limit_hit {
                rep.count("call_limit_reached");
            }
            rep.count(&format!("outcome:{class}"));
            if !problems.is_empty() {
                rep.violation(witness(problems.join("; ")));
            }
            if text.len() >= 8 {
                let sig = hash_bytes(&[class.as_bytes(), kind.as_bytes(), source.as_bytes()]);
                rep.nontrivial(hash_bytes(&[text.as_bytes()]), sig);
                rep.sample_slot(&format!("{class}:{kind}"), || json!({"text": if text.len() > 300 { format!("{}…", &text[..text.char_indices().nth(200).map(|x| x.0).unwrap_or(0)]) } else { text.to_string() }, "mutation": kind, "outcome": class}));
            }
        }
    }
}

pub fn run(args: &Args) {
    let mut rep = Report::new(args);
    if let Some(path) = &args.replay {
        let v: serde_json::Value = serde_json::from_str(&std::fs::read_to_string(path).expect("replay file")).expect("json");
        let w = if v["witness"].is_object() { v["witness"].clone() } else { v.clone() };
        check_text(&mut rep, w["text"].as_str().unwrap(), "replay", "replay");
        rep.finish(args);
        return;
    }
    let mut rng = Rng::new(args.seed, "c09", args.shard);
    let root = args.opt("corpus").unwrap_or("/repo").to_string();
    let files = vmon::textgen::corpus(&root);
    rep.add("corpus_files", files.len() as u64);
    if files.is_empty() {
        rep.inconclusive(json!({"why": "no grammar files found", "root": root}));
    }
    if args.shard == 0 {
        for k in vmon::shard::load_known(&args.known, "C09") {
            if let Some(t) = k.witness["text"].as_str() {
                rep.count("known_witnesses_replayed");
                check_text(&mut rep, t, "regression", "known_findings");
            }
        }
        for (name, t) in &files {
            if t.len() <= 64 * 1024 && !name.contains("fuzzsample") {
                check_text(&mut rep, t, "unmodified", "corpus");
            }
        }
    }
    let n = args.budget(400_000, 20_000_000);
    let cfg = vmon::textgen::default_cfg();
    for i in 0..n {
        if rep.elapsed() > args.max_s {
            rep.notes.insert("stopped_early_at".into(), json!(i));
            break;
        }
        let mut r = rng.fork();
        let (text, kind, source) = vmon::textgen::gen_text(&mut r, i, &files, &cfg);
        rep.journal(|| json!({"text": text}));
        check_text(&mut rep, &text, kind, source);
    }
    rep.finish(args);
}
