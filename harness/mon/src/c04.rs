//! C04: the token stream of every successful parse is a well-formed tree, and every public view
//! of `Pairs` / `Pair` / `FlatPairs` / `Tokens` agrees with that one tree.
//!
//! Two sources of trees:
//!  * parse   - successful `pest_vm` parses of generated grammars (the C01 workload). Monitor (1)
//!              judges the raw `Tokens` stream (balanced, nested, matching rules, non-decreasing
//!              char-boundary positions inside the input) and rebuilds a plain `Node` tree from it.
//!  * builder - random well-formed trees fed to `PairsBuilder`; the model is what was fed.
//! Monitor (2) then compares every public observation with the model. Every group of views runs
//! under its own `catch_unwind`, so one finding does not mask the others.
//!
//! Choices where the documentation is silent (noted, not invented as requirements):
//!  * the token stream carries no tags, so for parsed trees the tag annotation of the model is
//!    read once through the forward walk (`next` + `into_inner` + `as_node_tag`) and every other
//!    route to the same pair (next_back, peek, flatten, find_tagged, single) must agree with it;
//!  * `to_json` of a `Pairs` that holds no pair: only "does not panic, is JSON, `pairs` is []" is
//!    demanded, the `pos` field is not judged;
//!  * `Debug` output: must not panic and must mention every rule of the tree, nothing more;
//!  * `Display`, `{:#}` and JSON layouts are the ones the repository's own tests pin.
//!
//! Known findings are explained, never pattern-matched: each key has a predicate that must hold
//! for the concrete case, and the key must be listed with status "known" in known_findings.jsonl;
//! otherwise the finding is a violation.

use crate::common::*;
use pest::iterators::{Pair, Pairs, PairsBuilder};
use pest::{RuleType, Token};
use serde_json::{json, Map, Value};
use std::collections::hash_map::DefaultHasher;
use std::collections::{BTreeMap, HashSet, VecDeque};
use std::hash::{Hash, Hasher};
use std::panic::{catch_unwind, AssertUnwindSafe};
use vmon::gen::{gen_grammar, GenCfg, Profile};
use vmon::model::{Outcome, Tok};
use vmon::rng::{hash_bytes, Rng};
use vmon::shard::{Args, Report};

pub const KEY_SINGLE: &str = "c04-pairs-single-window";
pub const KEY_FLATLEN: &str = "c04-flatpairs-len";
pub const KEY_JSON_EMPTY: &str = "c04-pairs-to-json-empty";

const VM_LIMIT: usize = 2_000_000;

// ------------------------------------------------------------------------------------------
// model

#[derive(Clone, Debug, PartialEq, Eq)]
pub struct Node {
    rule: String,
    start: usize,
    end: usize,
    tag: Option<String>,
    children: Vec<Node>,
}

/// Rule type of the builder-made trees.
#[derive(Clone, Copy, Debug, PartialEq, Eq, Hash, PartialOrd, Ord)]
enum R {
    A,
    B,
    C,
    D,
    E,
}
const RS: [R; 5] = [R::A, R::B, R::C, R::D, R::E];

/// Plain name of a rule and the text `{:?}` gives for it (used by `{:#}` and JSON).
trait RuleName: RuleType {
    fn name(&self) -> String;
    fn dbg_of(name: &str) -> String;
}
impl<'a> RuleName for &'a str {
    fn name(&self) -> String {
        self.to_string()
    }
    fn dbg_of(name: &str) -> String {
        format!("{name:?}")
    }
}
impl RuleName for R {
    fn name(&self) -> String {
        format!("{self:?}")
    }
    fn dbg_of(name: &str) -> String {
        name.to_string()
    }
}

fn node_json(n: &Node) -> Value {
    json!({"rule": n.rule, "start": n.start, "end": n.end, "tag": n.tag, "children": n.children.iter().map(node_json).collect::<Vec<_>>()})
}

fn node_from_json(v: &Value) -> Option<Node> {
    Some(Node {
        rule: v["rule"].as_str()?.to_string(),
        start: v["start"].as_u64()? as usize,
        end: v["end"].as_u64()? as usize,
        tag: v["tag"].as_str().map(|s| s.to_string()),
        children: v["children"].as_array().map(|a| a.iter().filter_map(node_from_json).collect()).unwrap_or_default(),
    })
}

fn node_show(n: &Node) -> String {
    match &n.tag {
        Some(t) => format!("{}[{},{})#{}", n.rule, n.start, n.end, t),
        None => format!("{}[{},{})", n.rule, n.start, n.end),
    }
}

fn tok_show(t: &Tok) -> String {
    format!("{}{}@{}", if t.start { "+" } else { "-" }, t.rule, t.pos)
}

fn count_nodes(ns: &[Node]) -> usize {
    ns.iter().map(|n| 1 + count_nodes(&n.children)).sum()
}

fn depth_of(ns: &[Node]) -> usize {
    ns.iter().map(|n| 1 + depth_of(&n.children)).max().unwrap_or(0)
}

fn has_tags(ns: &[Node]) -> bool {
    ns.iter().any(|n| n.tag.is_some() || has_tags(&n.children))
}

/// Pre-order view of the model with the token indices of every node.
struct Flat<'m> {
    nodes: Vec<&'m Node>,
    stok: Vec<usize>,
    etok: Vec<usize>,
    kids: Vec<Vec<usize>>,
    top: Vec<usize>,
    toks: Vec<Tok>,
}

impl<'m> Flat<'m> {
    fn new(model: &'m [Node]) -> Flat<'m> {
        let mut f = Flat { nodes: vec![], stok: vec![], etok: vec![], kids: vec![], top: vec![], toks: vec![] };
        for n in model {
            let i = f.push(n);
            f.top.push(i);
        }
        f
    }
    fn push(&mut self, n: &'m Node) -> usize {
        let i = self.nodes.len();
        self.nodes.push(n);
        self.stok.push(self.toks.len());
        self.etok.push(0);
        self.kids.push(vec![]);
        self.toks.push(Tok { start: true, rule: n.rule.clone(), pos: n.start });
        for c in &n.children {
            let ci = self.push(c);
            self.kids[i].push(ci);
        }
        self.etok[i] = self.toks.len();
        self.toks.push(Tok { start: false, rule: n.rule.clone(), pos: n.end });
        i
    }
    /// Pre-order indices of the strict descendants of `i`.
    fn below(&self, i: usize) -> std::ops::Range<usize> {
        i + 1..i + 1 + (self.etok[i] - self.stok[i] - 1) / 2
    }
}

// ------------------------------------------------------------------------------------------
// monitor (1): well-formedness of a token stream; rebuilds the tree

fn wellformed(toks: &[Tok], input: &str) -> Result<Vec<Node>, String> {
    let mut stack: Vec<Node> = vec![];
    let mut roots: Vec<Node> = vec![];
    let mut last = 0usize;
    for (i, t) in toks.iter().enumerate() {
        if t.pos > input.len() {
            return Err(format!("token {i} ({}) lies outside the input of {} bytes", tok_show(t), input.len()));
        }
        if !input.is_char_boundary(t.pos) {
            return Err(format!("token {i} ({}) is not on a char boundary", tok_show(t)));
        }
        if t.pos < last {
            return Err(format!("token {i} ({}) moves backwards from position {last}", tok_show(t)));
        }
        last = t.pos;
        if t.start {
            stack.push(Node { rule: t.rule.clone(), start: t.pos, end: t.pos, tag: None, children: vec![] });
        } else {
            let Some(mut n) = stack.pop() else {
                return Err(format!("token {i} ({}) closes nothing", tok_show(t)));
            };
            if n.rule != t.rule {
                return Err(format!("token {i} ({}) closes a pair opened for rule {}", tok_show(t), n.rule));
            }
            n.end = t.pos;
            match stack.last_mut() {
                Some(p) => p.children.push(n),
                None => roots.push(n),
            }
        }
    }
    if let Some(n) = stack.last() {
        return Err(format!("pair of rule {} opened at {} is never closed", n.rule, n.start));
    }
    // the consequences the statement draws, asserted independently on the rebuilt tree
    fn inside(ns: &[Node], lo: usize, hi: usize) -> Result<(), String> {
        let mut at = lo;
        for n in ns {
            if n.start < at || n.end < n.start || n.end > hi {
                return Err(format!("{} is not inside [{lo},{hi}) after its siblings (previous end {at})", node_show(n)));
            }
            inside(&n.children, n.start, n.end)?;
            at = n.end;
        }
        Ok(())
    }
    inside(&roots, 0, input.len())?;
    Ok(roots)
}

// ------------------------------------------------------------------------------------------
// monitor (2): views

struct Finding {
    view: &'static str,
    key: Option<&'static str>,
    what: String,
    expected: Value,
    observed: Value,
}

struct Cx<'r> {
    rep: &'r mut Report,
    findings: Vec<Finding>,
    ops: u64,
}

impl Cx<'_> {
    fn bad(&mut self, view: &'static str, what: impl Into<String>, expected: Value, observed: Value) {
        self.findings.push(Finding { view, key: None, what: what.into(), expected, observed });
    }
    fn known(&mut self, view: &'static str, key: &'static str, what: impl Into<String>, expected: Value, observed: Value) {
        self.findings.push(Finding { view, key: Some(key), what: what.into(), expected, observed });
    }
    fn view(&mut self, kind: &str) {
        self.rep.count(&format!("view:{kind}"));
    }
}

fn tryp<T>(f: impl FnOnce() -> T) -> Result<T, String> {
    catch_unwind(AssertUnwindSafe(f)).map_err(|p| vmon::pestrun::panic_message(&p))
}

/// Runs one group of views; a panic that escapes the group is itself a finding.
fn group(cx: &mut Cx, view: &'static str, f: impl FnOnce(&mut Cx)) {
    if let Err(m) = tryp(|| f(cx)) {
        cx.bad(view, "a view panicked", json!("no panic"), json!(format!("panic: {m}")));
    }
}

fn text<'a>(input: &'a str, n: &Node) -> &'a str {
    &input[n.start..n.end]
}

fn pair_show<R: RuleName>(p: &Pair<'_, R>) -> String {
    let s = p.as_span();
    match p.as_node_tag() {
        Some(t) => format!("{}[{},{})#{}", p.as_rule().name(), s.start(), s.end(), t),
        None => format!("{}[{},{})", p.as_rule().name(), s.start(), s.end()),
    }
}

fn opt_pair_show<R: RuleName>(p: &Option<Pair<'_, R>>) -> String {
    p.as_ref().map_or("None".to_string(), pair_show)
}

/// Rule, span, text and tag of a pair agree with a model node.
fn agrees<R: RuleName>(p: &Pair<'_, R>, n: &Node, input: &str) -> bool {
    let s = p.as_span();
    p.as_rule().name() == n.rule && s.start() == n.start && s.end() == n.end && p.as_str() == text(input, n) && s.as_str() == text(input, n) && p.as_node_tag() == n.tag.as_deref()
}

/// A yielded item against the expected pre-order index: same observable content and the same
/// pair (Eq) as the one the forward walk reached. Some((expected, observed)) on disagreement.
fn cmp_item<R: RuleName>(got: &Option<Pair<'_, R>>, want: Option<usize>, fl: &Flat, prim: &[Pair<'_, R>], input: &str) -> Option<(Value, Value)> {
    let ok = match (got, want) {
        (None, None) => true,
        (Some(p), Some(i)) => agrees(p, fl.nodes[i], input) && *p == prim[i],
        _ => false,
    };
    if ok {
        None
    } else {
        Some((json!(want.map_or("None".to_string(), |i| node_show(fl.nodes[i]))), json!(opt_pair_show(got))))
    }
}

fn mtok<R: RuleName>(t: &Token<'_, R>) -> Tok {
    match t {
        Token::Start { rule, pos } => Tok { start: true, rule: rule.name(), pos: pos.pos() },
        Token::End { rule, pos } => Tok { start: false, rule: rule.name(), pos: pos.pos() },
    }
}

fn toks_show(ts: &[Tok]) -> Value {
    json!(ts.iter().map(tok_show).collect::<Vec<_>>().join(" "))
}

fn span_text<'a>(input: &'a str, fl: &Flat, dq: &VecDeque<usize>) -> &'a str {
    match (dq.front(), dq.back()) {
        (Some(&a), Some(&b)) => &input[fl.nodes[a].start..fl.nodes[b].end],
        _ => "",
    }
}

fn hash_of<T: Hash>(t: &T) -> u64 {
    let mut h = DefaultHasher::new();
    t.hash(&mut h);
    h.finish()
}

fn pair_json<R: RuleName>(n: &Node, input: &str) -> Value {
    let inner = if n.children.is_empty() { json!(text(input, n)) } else { pairs_json::<R>(&n.children, input) };
    json!({"pos": [n.start, n.end], "rule": R::dbg_of(&n.rule), "inner": inner})
}

/// JSON of a non-empty `Pairs`: pos = (start of the first pair, end of the last pair).
fn pairs_json<R: RuleName>(ns: &[Node], input: &str) -> Value {
    json!({"pos": [ns[0].start, ns[ns.len() - 1].end], "pairs": ns.iter().map(|n| pair_json::<R>(n, input)).collect::<Vec<_>>()})
}

fn pair_alt<R: RuleName>(n: &Node) -> String {
    if n.children.is_empty() {
        format!("{}({}, {})", R::dbg_of(&n.rule), n.start, n.end)
    } else {
        format!("{}({}, {}, [{}])", R::dbg_of(&n.rule), n.start, n.end, n.children.iter().map(pair_alt::<R>).collect::<Vec<_>>().join(", "))
    }
}

fn naive_line_col(input: &str, pos: usize) -> (usize, usize) {
    let before = &input[..pos];
    let line = 1 + before.bytes().filter(|b| *b == b'\n').count();
    let col = 1 + match before.rfind('\n') {
        Some(i) => before[i + 1..].chars().count(),
        None => before.chars().count(),
    };
    (line, col)
}

/// Forward walk: `next` + `into_inner`, pre-order.
fn walk<'i, R: RuleName>(pairs: Pairs<'i, R>, out: &mut Vec<Pair<'i, R>>, fuel: &mut usize) {
    for p in pairs {
        if *fuel == 0 {
            return;
        }
        *fuel -= 1;
        out.push(p.clone());
        walk(p.into_inner(), out, fuel);
    }
}

fn fill_tags<R: RuleName>(ns: &mut [Node], prim: &[Pair<'_, R>], at: &mut usize) {
    for n in ns {
        n.tag = prim[*at].as_node_tag().map(|s| s.to_string());
        *at += 1;
        fill_tags(&mut n.children, prim, at);
    }
}

/// Random interleaving of next / next_back / len / size_hint / peek / as_str / concat / is_empty
/// on a `Pairs` whose items should be the pre-order indices `exp`.
fn inter_pairs<'i, R: RuleName>(cx: &mut Cx, view: &'static str, it: Pairs<'i, R>, exp: &[usize], fl: &Flat, prim: &[Pair<'i, R>], input: &str, rng: &mut Rng, label: &str) {
    cx.view(view);
    let mut it = it;
    let mut dq: VecDeque<usize> = exp.iter().copied().collect();
    let mut hist: Vec<&'static str> = vec![];
    let soft = 3 * exp.len() + 8;
    let mut tail = 0;
    let mut fail: Option<(Value, Value)> = None;
    while fail.is_none() && tail < 5 {
        let op = if hist.len() >= soft { rng.below(2) } else { rng.weighted(&[28, 28, 12, 6, 10, 6, 5, 5, 5, 5, 5]) };
        cx.ops += 1;
        match op {
            8 => {
                // go on with a clone: whatever the iterator caches must survive being copied mid-way
                hist.push("clone");
                it = it.clone();
            }
            9 => {
                let k = rng.below(dq.len() + 2).min(3 + rng.below(3));
                hist.push(["nth(0)", "nth(1)", "nth(2)", "nth(3)", "nth(4)", "nth(5)"][k.min(5)]);
                let got = it.nth(k);
                for _ in 0..k {
                    dq.pop_front();
                }
                fail = cmp_item(&got, dq.pop_front(), fl, prim, input);
            }
            10 => {
                let k = rng.below(dq.len() + 2).min(3 + rng.below(3));
                hist.push(["nth_back(0)", "nth_back(1)", "nth_back(2)", "nth_back(3)", "nth_back(4)", "nth_back(5)"][k.min(5)]);
                let got = it.nth_back(k);
                for _ in 0..k {
                    dq.pop_back();
                }
                fail = cmp_item(&got, dq.pop_back(), fl, prim, input);
            }
            0 => {
                hist.push("next");
                let got = it.next();
                fail = cmp_item(&got, dq.pop_front(), fl, prim, input);
            }
            1 => {
                hist.push("next_back");
                let got = it.next_back();
                fail = cmp_item(&got, dq.pop_back(), fl, prim, input);
            }
            2 => {
                hist.push("len");
                if it.len() != dq.len() {
                    fail = Some((json!(dq.len()), json!(it.len())));
                }
            }
            3 => {
                hist.push("size_hint");
                if it.size_hint() != (dq.len(), Some(dq.len())) {
                    fail = Some((json!([dq.len(), dq.len()]), json!(format!("{:?}", it.size_hint()))));
                }
            }
            4 => {
                hist.push("peek");
                let got = it.peek();
                fail = cmp_item(&got, dq.front().copied(), fl, prim, input);
            }
            5 => {
                hist.push("as_str");
                let want = span_text(input, fl, &dq);
                if it.as_str() != want {
                    fail = Some((json!(want), json!(it.as_str())));
                }
            }
            6 => {
                hist.push("concat");
                let want: String = dq.iter().map(|&i| text(input, fl.nodes[i])).collect();
                if it.concat() != want {
                    fail = Some((json!(want), json!(it.concat())));
                }
            }
            _ => {
                hist.push("is_empty");
                if it.is_empty() != dq.is_empty() {
                    fail = Some((json!(dq.is_empty()), json!(it.is_empty())));
                }
            }
        }
        if dq.is_empty() {
            tail += 1;
        }
    }
    if let Some((e, o)) = fail {
        cx.bad(view, format!("{label}: after the operations [{}] the last one disagrees with the model deque", hist.join(", ")), e, o);
    }
}

/// Random interleaving of next / next_back / len / size_hint on a `FlatPairs` whose items should be
/// the pre-order indices `lo..hi`; `tw` is the raw token window it was created over (only used to
/// *explain* a wrong len as "half the raw token window").
fn inter_flat<'i, R: RuleName>(cx: &mut Cx, it: pest::iterators::FlatPairs<'i, R>, idx: std::ops::Range<usize>, tw: std::ops::Range<usize>, fl: &Flat, prim: &[Pair<'i, R>], input: &str, rng: &mut Rng, label: &str) {
    cx.view("flat_pairs_interleaving");
    let mut it = it;
    let n = idx.len();
    let mut dq: VecDeque<usize> = idx.collect();
    let (mut ws, mut we) = (tw.start as isize, tw.end as isize);
    let is_start = |i: isize| fl.toks[i as usize].start;
    let mut hist: Vec<String> = vec![];
    let soft = 3 * n + 8;
    let mut tail = 0;
    let mut fail: Option<(Value, Value)> = None;
    // (history length, expected, observed, half of the raw token window)
    let mut len_bad: Vec<(usize, usize, usize, usize)> = vec![];
    let mut window_tracked = true;
    while fail.is_none() && tail < 4 {
        let op = if hist.len() >= soft { rng.below(2) } else { rng.weighted(&[30, 30, 25, 15, 8, 6, 6]) };
        cx.ops += 1;
        match op {
            4 => {
                hist.push("clone".into());
                it = it.clone();
            }
            5 | 6 => {
                let k = rng.below(dq.len() + 2).min(3 + rng.below(3));
                // the raw-window explanation of the (repaired) len defect does not follow nth: give it up
                window_tracked = false;
                if op == 5 {
                    hist.push(format!("nth({k})"));
                    let got = it.nth(k);
                    for _ in 0..k {
                        dq.pop_front();
                    }
                    fail = cmp_item(&got, dq.pop_front(), fl, prim, input);
                } else {
                    hist.push(format!("nth_back({k})"));
                    let got = it.nth_back(k);
                    for _ in 0..k {
                        dq.pop_back();
                    }
                    fail = cmp_item(&got, dq.pop_back(), fl, prim, input);
                }
            }
            0 => {
                hist.push("next".into());
                let got = it.next();
                fail = cmp_item(&got, dq.pop_front(), fl, prim, input);
                if ws < we {
                    ws += 1;
                    while ws < we && !is_start(ws) {
                        ws += 1;
                    }
                }
            }
            1 => {
                hist.push("next_back".into());
                let got = it.next_back();
                fail = cmp_item(&got, dq.pop_back(), fl, prim, input);
                if we > ws {
                    we -= 1;
                    while we >= ws && !is_start(we) {
                        we -= 1;
                    }
                }
            }
            k => {
                let raw = if window_tracked { ((we - ws).max(0) as usize) >> 1 } else { usize::MAX };
                let (name, got, exact) = if k == 2 {
                    ("len", it.len(), true)
                } else {
                    let h = it.size_hint();
                    ("size_hint", h.0, h.1 == Some(h.0))
                };
                hist.push(format!("{name}={got}"));
                if !exact {
                    fail = Some((json!([dq.len(), dq.len()]), json!(format!("{:?}", it.size_hint()))));
                } else if got != dq.len() {
                    len_bad.push((hist.len(), dq.len(), got, raw));
                }
            }
        }
        if dq.is_empty() {
            tail += 1;
        }
    }
    if let Some((e, o)) = fail {
        cx.bad("flat_pairs_interleaving", format!("{label}: after the operations [{}] the last one disagrees with the model deque", hist.join(", ")), e, o);
    } else if let Some(&(at, e, o, _)) = len_bad.first() {
        let what = format!("{label}: every yielded pair agrees, but after [{}] FlatPairs::len()/size_hint() is not the number of remaining pairs", hist[..at].join(", "));
        // explanation of the known defect: len() is half the raw token window, which also counts the
        // End tokens of pairs that were already yielded (front inside nesting) or whose Start is
        // still to come from the back
        if len_bad.iter().all(|&(_, _, o, raw)| o == raw) {
            cx.known("flat_pairs_interleaving", KEY_FLATLEN, what, json!(e), json!(o));
        } else {
            cx.bad("flat_pairs_interleaving", what, json!(e), json!(o));
        }
    }
}

fn inter_tokens<'i, R: RuleName>(cx: &mut Cx, it: pest::iterators::Tokens<'i, R>, want: &[Tok], rng: &mut Rng, label: &str) {
    cx.view("tokens_interleaving");
    let mut it = it;
    let mut dq: VecDeque<&Tok> = want.iter().collect();
    let mut hist: Vec<&'static str> = vec![];
    let soft = 3 * want.len() + 8;
    let mut tail = 0;
    let mut fail: Option<(Value, Value)> = None;
    while fail.is_none() && tail < 4 {
        let op = if hist.len() >= soft { rng.below(2) } else { rng.weighted(&[35, 35, 20, 10, 8, 7, 7]) };
        cx.ops += 1;
        let item = |got: Option<Token<'i, R>>, want: Option<&Tok>| {
            let g = got.as_ref().map(mtok);
            if g.as_ref() != want {
                Some((json!(want.map_or("None".into(), tok_show)), json!(g.as_ref().map_or("None".into(), tok_show))))
            } else {
                None
            }
        };
        match op {
            0 => {
                hist.push("next");
                fail = item(it.next(), dq.pop_front());
            }
            1 => {
                hist.push("next_back");
                fail = item(it.next_back(), dq.pop_back());
            }
            2 => {
                hist.push("len");
                if it.len() != dq.len() {
                    fail = Some((json!(dq.len()), json!(it.len())));
                }
            }
            4 => {
                hist.push("clone");
                it = it.clone();
            }
            5 => {
                // skipping forward, also past the end of the window
                let k = rng.below(dq.len() + 3);
                hist.push(if k < dq.len() { "nth(k<len)" } else { "nth(k>=len)" });
                let got = it.nth(k);
                for _ in 0..k {
                    dq.pop_front();
                }
                fail = item(got, dq.pop_front());
            }
            6 => {
                let k = rng.below(dq.len() + 3);
                hist.push(if k < dq.len() { "nth_back(k<len)" } else { "nth_back(k>=len)" });
                let got = it.nth_back(k);
                for _ in 0..k {
                    dq.pop_back();
                }
                fail = item(got, dq.pop_back());
            }
            _ => {
                hist.push("size_hint");
                if it.size_hint() != (dq.len(), Some(dq.len())) {
                    fail = Some((json!([dq.len(), dq.len()]), json!(format!("{:?}", it.size_hint()))));
                }
            }
        }
        if dq.is_empty() {
            tail += 1;
        }
    }
    if let Some((e, o)) = fail {
        cx.bad("tokens_interleaving", format!("{label}: after the operations [{}] the last one disagrees with the model token deque", hist.join(", ")), e, o);
    }
}

/// serde_json refuses to read documents nested deeper than 128 levels, and one tree level costs
/// three (pair object, inner object, pairs array). The JSON text of deeper trees is still produced
/// (it must not panic) but not parsed back; such cases are counted, not judged.
const JSON_MAX_DEPTH: usize = 38;

fn json_too_deep(cx: &mut Cx, ns: &[Node]) -> bool {
    let deep = depth_of(ns) > JSON_MAX_DEPTH;
    if deep {
        cx.rep.count("json_not_parsed_back_too_deep");
    }
    deep
}

/// `to_json` of a `Pairs` that should hold exactly `ns`.
fn check_pairs_json<R: RuleName>(cx: &mut Cx, p: &Pairs<'_, R>, ns: &[Node], input: &str, label: &str) {
    cx.view("pairs_to_json");
    match tryp(|| p.to_json()) {
        Err(m) => {
            let what = format!("{label}: Pairs::to_json panicked");
            if ns.is_empty() {
                // explanation of the known defect: the serializer reads the positions of the first and
                // last token of the window, which do not exist / are not pairs when no pair is left
                cx.known("pairs_to_json", KEY_JSON_EMPTY, format!("{what} on a Pairs that holds no pair"), json!("a JSON document with \"pairs\": []"), json!(format!("panic: {m}")));
            } else {
                cx.bad("pairs_to_json", what, pairs_json::<R>(ns, input), json!(format!("panic: {m}")));
            }
        }
        Ok(_) if json_too_deep(cx, ns) => {}
        Ok(s) => match serde_json::from_str::<Value>(&s) {
            Err(e) => cx.bad("pairs_to_json", format!("{label}: Pairs::to_json is not JSON ({e})"), json!("JSON"), json!(s)),
            Ok(v) => {
                if ns.is_empty() {
                    // `pos` of an empty Pairs is not judged (nothing documented)
                    if v["pairs"] != json!([]) {
                        cx.bad("pairs_to_json", format!("{label}: Pairs::to_json of an empty Pairs lists pairs"), json!({"pairs": []}), v);
                    }
                } else if v != pairs_json::<R>(ns, input) {
                    cx.bad("pairs_to_json", format!("{label}: Pairs::to_json differs from the tree"), pairs_json::<R>(ns, input), v);
                }
            }
        },
    }
}

/// Every view of `Pairs::single(prim[i])` against the model of the one node.
fn check_single<'i, R: RuleName>(cx: &mut Cx, i: usize, fl: &Flat, prim: &[Pair<'i, R>], input: &str) {
    cx.view("single");
    let n = fl.nodes[i];
    let p = prim[i].clone();
    let sub: Vec<usize> = std::iter::once(i).chain(fl.below(i)).collect();
    let toks = &fl.toks[fl.stok[i]..=fl.etok[i]];
    let shown = |ix: &[usize]| json!(ix.iter().map(|&k| node_show(fl.nodes[k])).collect::<Vec<_>>().join(" "));
    let one = std::slice::from_ref(n);

    let mut exp = Map::new();
    exp.insert("round_trip".into(), json!(true));
    exp.insert("len".into(), json!(1));
    exp.insert("size_hint".into(), json!("(1, Some(1))"));
    exp.insert("is_empty".into(), json!(false));
    exp.insert("peek".into(), json!(node_show(n)));
    exp.insert("as_str".into(), json!(text(input, n)));
    exp.insert("concat".into(), json!(text(input, n)));
    exp.insert("next".into(), json!(node_show(n)));
    exp.insert("next_then".into(), json!("next=None next_back=None len=0"));
    exp.insert("next_back".into(), json!(node_show(n)));
    exp.insert("next_back_then".into(), json!("next=None next_back=None len=0"));
    exp.insert("tokens".into(), toks_show(toks));
    exp.insert("tokens_len".into(), json!(toks.len()));
    exp.insert("flatten".into(), shown(&sub));
    exp.insert("flatten_len".into(), json!(sub.len()));
    exp.insert("display".into(), json!(format!("[{}]", text(input, n))));
    exp.insert("display_alt".into(), json!(format!("[{}]", pair_alt::<R>(n))));
    let with_json = !json_too_deep(cx, one);
    if with_json {
        exp.insert("to_json".into(), pairs_json::<R>(one, input));
    }
    exp.insert("get_input".into(), json!(true));

    let s = match tryp(|| Pairs::single(p.clone())) {
        Ok(s) => s,
        Err(m) => {
            cx.bad("single", format!("Pairs::single({}) panicked", node_show(n)), json!("a Pairs"), json!(format!("panic: {m}")));
            return;
        }
    };
    let pan = |m: String| json!(format!("PANIC: {m}"));
    let is_pan = |v: &Value| v.as_str().map_or(false, |s| s.starts_with("PANIC"));
    let mut obs = Map::new();
    let mut put = |k: &str, r: Result<Value, String>| {
        obs.insert(k.to_string(), r.unwrap_or_else(pan));
    };
    put("round_trip", tryp(|| json!(s.clone().next().as_ref() == Some(&p))));
    put("len", tryp(|| json!(s.len())));
    put("size_hint", tryp(|| json!(format!("{:?}", s.size_hint()))));
    put("is_empty", tryp(|| json!(s.is_empty())));
    put("peek", tryp(|| json!(opt_pair_show(&s.peek()))));
    put("as_str", tryp(|| json!(s.as_str())));
    put("concat", tryp(|| json!(s.concat())));
    put("next", tryp(|| json!(opt_pair_show(&s.clone().next()))));
    let then = |mut q: Pairs<'i, R>| format!("next={} next_back={} len={}", opt_pair_show(&q.next()), opt_pair_show(&q.next_back()), q.len());
    put(
        "next_then",
        tryp(|| {
            let mut q = s.clone();
            q.next();
            json!(then(q))
        }),
    );
    put("next_back", tryp(|| json!(opt_pair_show(&s.clone().next_back()))));
    put(
        "next_back_then",
        tryp(|| {
            let mut q = s.clone();
            q.next_back();
            json!(then(q))
        }),
    );
    put("tokens", tryp(|| toks_show(&s.clone().tokens().map(|t| mtok(&t)).collect::<Vec<_>>())));
    put("tokens_len", tryp(|| json!(s.clone().tokens().len())));
    put("flatten", tryp(|| json!(s.clone().flatten().map(|q| pair_show(&q)).collect::<Vec<_>>().join(" "))));
    put("flatten_len", tryp(|| json!(s.clone().flatten().len())));
    put("display", tryp(|| json!(format!("{s}"))));
    put("display_alt", tryp(|| json!(format!("{s:#}"))));
    if with_json {
        put("to_json", tryp(|| serde_json::from_str::<Value>(&s.to_json()).unwrap_or(json!("not JSON"))));
    } else if let Err(m) = tryp(|| s.to_json()) {
        put("to_json", Err(m));
    }
    put("get_input", tryp(|| json!(s.get_input() == input)));
    if let Err(m) = tryp(|| format!("{s:?}")) {
        obs.insert("debug".into(), pan(m));
    }
    if obs == exp {
        return;
    }
    // Explanation of the known defect: `single` hands the index of the pair's End token to
    // `pairs::new` as the *exclusive* end, so the window is one token short. Everything that only
    // moves forward is unaffected; everything that reads the last token of the window sees the
    // token before the End token instead. `short` is exactly what such a window shows.
    let last_end = n.children.last().map_or(n.start, |c| c.end);
    let mut short = exp.clone();
    short.insert("as_str".into(), json!(&input[n.start..last_end]));
    match fl.kids[i].last() {
        None => {
            short.insert("next_back".into(), json!("PANIC"));
            short.insert("next_back_then".into(), json!("PANIC"));
        }
        Some(&c) => {
            short.insert("next_back".into(), json!(node_show(fl.nodes[c])));
            short.insert("next_back_then".into(), json!(format!("next={} next_back=None len=18446744073709551615", node_show(n))));
        }
    }
    short.insert("tokens".into(), toks_show(&toks[..toks.len() - 1]));
    short.insert("tokens_len".into(), json!(toks.len() - 1));
    short.insert("flatten_len".into(), json!(sub.len() - 1));
    if with_json {
        short.insert("to_json".into(), json!({"pos": [n.start, last_end], "pairs": [pair_json::<R>(n, input)]}));
    }
    let explained = exp.keys().all(|k| {
        let (o, sv) = (&obs[k], &short[k]);
        o == sv || (sv == "PANIC" && is_pan(o)) || (k == "next_back_then" && fl.kids[i].last().is_some() && (is_pan(o) || o == sv))
    }) && obs.len() == exp.len();
    let diff: Vec<&String> = exp.keys().filter(|k| obs[*k] != exp[*k]).collect();
    let pick = |m: &Map<String, Value>| Value::Object(diff.iter().map(|k| ((*k).clone(), m[*k].clone())).collect());
    let what = format!("views of Pairs::single({}) disagree with the one pair: {}", node_show(n), diff.iter().map(|s| s.as_str()).collect::<Vec<_>>().join(", "));
    let mut o = pick(&obs);
    for (k, v) in &obs {
        if !exp.contains_key(k) {
            o[k.as_str()] = v.clone();
        }
    }
    if explained {
        cx.known("single", KEY_SINGLE, what, pick(&exp), o);
    } else {
        cx.bad("single", what, pick(&exp), o);
    }
}

/// All observations of one `Pair` (pre-order index `i`) and of its `into_inner()`.
fn check_pair<'i, R: RuleName>(cx: &mut Cx, i: usize, fl: &Flat, prim: &[Pair<'i, R>], input: &'i str, rng: &mut Rng, heavy: bool) {
    cx.view("pair");
    let n = fl.nodes[i];
    let p = &prim[i];
    let lbl = node_show(n);
    let span = p.as_span();
    let chk = |cx: &mut Cx, name: &str, ok: bool, e: Value, o: Value| {
        if !ok {
            cx.bad("pair", format!("Pair::{name} of {lbl}"), e, o);
        }
    };
    chk(cx, "as_rule", p.as_rule().name() == n.rule, json!(n.rule), json!(p.as_rule().name()));
    chk(cx, "as_str", p.as_str() == text(input, n), json!(text(input, n)), json!(p.as_str()));
    chk(cx, "as_span", (span.start(), span.end(), span.as_str()) == (n.start, n.end, text(input, n)), json!([n.start, n.end, text(input, n)]), json!([span.start(), span.end(), span.as_str()]));
    chk(cx, "as_span().get_input", span.get_input() == input, json!(input), json!(span.get_input()));
    chk(cx, "as_node_tag", p.as_node_tag() == n.tag.as_deref(), json!(n.tag), json!(p.as_node_tag()));
    chk(cx, "get_input", p.get_input() == input && std::ptr::eq(p.get_input(), input), json!(input), json!(p.get_input()));
    let lc = naive_line_col(input, n.start);
    chk(cx, "line_col", p.line_col() == lc, json!(lc), json!(p.line_col()));
    chk(cx, "Display", format!("{p}") == text(input, n), json!(text(input, n)), json!(format!("{p}")));
    let got: Vec<Tok> = p.clone().tokens().map(|t| mtok(&t)).collect();
    let want = &fl.toks[fl.stok[i]..=fl.etok[i]];
    chk(cx, "tokens", got == want && p.clone().tokens().len() == want.len(), toks_show(want), toks_show(&got));
    let q = p.clone();
    chk(cx, "Eq/Hash of a clone", *p == q && hash_of(p) == hash_of(&q), json!("equal, same hash"), json!(format!("eq={} hash_eq={}", *p == q, hash_of(p) == hash_of(&q))));
    if i + 1 < prim.len() {
        chk(cx, "Eq with a different pair", *p != prim[i + 1], json!("not equal"), json!("equal"));
    }
    // into_inner
    cx.view("into_inner");
    let kids = &fl.kids[i];
    let inner = p.clone().into_inner();
    let dq: VecDeque<usize> = kids.iter().copied().collect();
    let fwd: Vec<Pair<'i, R>> = inner.clone().collect();
    let ok_f = fwd.len() == kids.len() && fwd.iter().zip(kids).all(|(g, &k)| agrees(g, fl.nodes[k], input) && *g == prim[k]);
    chk(cx, "into_inner (forward)", ok_f, json!(kids.iter().map(|&k| node_show(fl.nodes[k])).collect::<Vec<_>>()), json!(fwd.iter().map(pair_show).collect::<Vec<_>>()));
    let bwd: Vec<Pair<'i, R>> = inner.clone().rev().collect();
    let ok_b = bwd.len() == kids.len() && bwd.iter().zip(kids.iter().rev()).all(|(g, &k)| agrees(g, fl.nodes[k], input) && *g == prim[k]);
    chk(cx, "into_inner (backward)", ok_b, json!(kids.iter().rev().map(|&k| node_show(fl.nodes[k])).collect::<Vec<_>>()), json!(bwd.iter().map(pair_show).collect::<Vec<_>>()));
    chk(cx, "into_inner().len", inner.len() == kids.len() && inner.is_empty() == kids.is_empty(), json!(kids.len()), json!(inner.len()));
    chk(cx, "into_inner().as_str", inner.as_str() == span_text(input, fl, &dq), json!(span_text(input, fl, &dq)), json!(inner.as_str()));
    let cat: String = kids.iter().map(|&k| text(input, fl.nodes[k])).collect();
    chk(cx, "into_inner().concat", inner.concat() == cat, json!(cat), json!(inner.concat()));
    chk(cx, "into_inner().get_input", inner.get_input() == input, json!(input), json!(inner.get_input()));
    let c2 = inner.clone();
    chk(cx, "into_inner() Eq/Hash of a clone", inner == c2 && hash_of(&inner) == hash_of(&c2), json!("equal, same hash"), json!("different"));
    let itoks: Vec<Tok> = inner.clone().tokens().map(|t| mtok(&t)).collect();
    let iwant = &fl.toks[fl.stok[i] + 1..fl.etok[i]];
    chk(cx, "into_inner().tokens", itoks == iwant, toks_show(iwant), toks_show(&itoks));
    let iflat: Vec<Pair<'i, R>> = inner.clone().flatten().collect();
    let below = fl.below(i);
    let ok_fl = iflat.len() == below.len() && iflat.iter().zip(below.clone()).all(|(g, k)| agrees(g, fl.nodes[k], input) && *g == prim[k]);
    chk(cx, "into_inner().flatten", ok_fl, json!(below.clone().map(|k| node_show(fl.nodes[k])).collect::<Vec<_>>()), json!(iflat.iter().map(pair_show).collect::<Vec<_>>()));
    if heavy {
        let exp: Vec<usize> = kids.clone();
        inter_pairs(cx, "inner_pairs_interleaving", inner.clone(), &exp, fl, prim, input, rng, &format!("{lbl}.into_inner()"));
        if !kids.is_empty() {
            inter_flat(cx, inner.clone().flatten(), below, fl.stok[i] + 1..fl.etok[i], fl, prim, input, rng, &format!("{lbl}.into_inner().flatten()"));
        }
        // Display / JSON of the pair and of its inner Pairs
        cx.view("pair_display_json");
        let alt = format!("{p:#}");
        chk(cx, "Display {:#}", alt == pair_alt::<R>(n), json!(pair_alt::<R>(n)), json!(alt));
        match tryp(|| p.to_json()) {
            Err(m) => chk(cx, "to_json", false, pair_json::<R>(n, input), json!(format!("panic: {m}"))),
            Ok(_) if json_too_deep(cx, std::slice::from_ref(n)) => {}
            Ok(s) => {
                let v = serde_json::from_str::<Value>(&s).unwrap_or(json!(format!("not JSON: {s}")));
                chk(cx, "to_json", v == pair_json::<R>(n, input), pair_json::<R>(n, input), v);
            }
        }
        check_pairs_json(cx, &inner, &n.children, input, &format!("{lbl}.into_inner()"));
        match tryp(|| format!("{p:?}")) {
            Err(m) => chk(cx, "Debug", false, json!("no panic"), json!(format!("panic: {m}"))),
            Ok(d) => {
                let missing: Vec<String> = std::iter::once(i).chain(fl.below(i)).map(|k| R::dbg_of(&fl.nodes[k].rule)).filter(|r| !d.contains(r.as_str())).collect();
                chk(cx, "Debug mentions every rule", missing.is_empty(), json!("all rules mentioned"), json!({"missing": missing, "debug": d}));
            }
        }
    }
}

/// Monitor (2) over one tree. `model` carries tags for builder trees; for parsed trees
/// (`tags_from_walk`) they are read through the forward walk first.
fn check_views<'i, R: RuleName>(cx: &mut Cx, pairs: &Pairs<'i, R>, input: &'i str, model: &mut Vec<Node>, tags_from_walk: bool, ops_seed: u64) {
    let mut rng = Rng::new(ops_seed, "c04-ops", 0);
    let total = count_nodes(model);
    // forward walk: the pairs every other route is compared with
    let prim: Vec<Pair<'i, R>> = match tryp(|| {
        let mut out = vec![];
        let mut fuel = total + 8;
        walk(pairs.clone(), &mut out, &mut fuel);
        out
    }) {
        Ok(v) => v,
        Err(m) => {
            cx.bad("forward_walk", "next/into_inner walk panicked", json!("no panic"), json!(format!("panic: {m}")));
            return;
        }
    };
    cx.view("forward_walk");
    {
        let fl = Flat::new(model);
        let same = prim.len() == fl.nodes.len()
            && tryp(|| {
                prim.iter().zip(&fl.nodes).all(|(p, n)| {
                    let s = p.as_span();
                    p.as_rule().name() == n.rule && s.start() == n.start && s.end() == n.end && (tags_from_walk || p.as_node_tag() == n.tag.as_deref())
                })
            })
            .unwrap_or(false);
        if !same {
            let e = json!(fl.nodes.iter().map(|n| node_show(n)).collect::<Vec<_>>().join(" "));
            let o = tryp(|| json!(prim.iter().map(pair_show).collect::<Vec<_>>().join(" "))).unwrap_or_else(|m| json!(format!("panic: {m}")));
            cx.bad("forward_walk", "the pre-order walk with next + into_inner is not the tree of the token stream", e, o);
            return;
        }
    }
    if tags_from_walk {
        fill_tags(model, &prim, &mut 0);
    }
    let model: &[Node] = model;
    let fl = Flat::new(model);
    let all: Vec<usize> = (0..fl.nodes.len()).collect();
    let ntoks = fl.toks.len();

    // --- whole-Pairs observations
    group(cx, "pairs_whole", |cx| {
        cx.view("pairs_whole");
        let dq: VecDeque<usize> = fl.top.iter().copied().collect();
        let mut chk = |name: &str, ok: bool, e: Value, o: Value| {
            if !ok {
                cx.bad("pairs_whole", format!("Pairs::{name}"), e, o);
            }
        };
        chk("len", pairs.len() == model.len(), json!(model.len()), json!(pairs.len()));
        chk("size_hint", pairs.size_hint() == (model.len(), Some(model.len())), json!(model.len()), json!(format!("{:?}", pairs.size_hint())));
        chk("is_empty", pairs.is_empty() == model.is_empty(), json!(model.is_empty()), json!(pairs.is_empty()));
        chk("as_str", pairs.as_str() == span_text(input, &fl, &dq), json!(span_text(input, &fl, &dq)), json!(pairs.as_str()));
        let cat: String = model.iter().map(|n| text(input, n)).collect();
        chk("concat", pairs.concat() == cat, json!(cat), json!(pairs.concat()));
        chk("get_input", pairs.get_input() == input && std::ptr::eq(pairs.get_input(), input), json!(input), json!(pairs.get_input()));
        let pk = pairs.peek();
        if let Some((e, o)) = cmp_item(&pk, fl.top.first().copied(), &fl, &prim, input) {
            chk("peek", false, e, o);
        }
        let c = pairs.clone();
        chk("Eq/Hash of a clone", *pairs == c && hash_of(pairs) == hash_of(&c), json!("equal, same hash"), json!("different"));
        let back: Vec<Pair<'i, R>> = pairs.clone().rev().collect();
        let ok = back.len() == fl.top.len() && back.iter().zip(fl.top.iter().rev()).all(|(g, &k)| agrees(g, fl.nodes[k], input) && *g == prim[k]);
        chk("rev()", ok, json!(fl.top.iter().rev().map(|&k| node_show(fl.nodes[k])).collect::<Vec<_>>()), json!(back.iter().map(pair_show).collect::<Vec<_>>()));
    });

    // --- Pairs interleavings
    group(cx, "pairs_interleaving", |cx| {
        for k in 0..2 {
            inter_pairs(cx, "pairs_interleaving", pairs.clone(), &fl.top, &fl, &prim, input, &mut rng, &format!("Pairs (sequence {k})"));
        }
    });

    // --- FlatPairs
    group(cx, "flat_pairs", |cx| {
        cx.view("flat_pairs");
        let f: Vec<Pair<'i, R>> = pairs.clone().flatten().collect();
        let ok = f.len() == all.len() && f.iter().zip(&all).all(|(g, &k)| agrees(g, fl.nodes[k], input) && *g == prim[k]);
        if !ok {
            cx.bad("flat_pairs", "flatten() is not the pre-order sequence of the tree", json!(all.iter().map(|&k| node_show(fl.nodes[k])).collect::<Vec<_>>()), json!(f.iter().map(pair_show).collect::<Vec<_>>()));
        }
        let b: Vec<Pair<'i, R>> = pairs.clone().flatten().rev().collect();
        let ok = b.len() == all.len() && b.iter().zip(all.iter().rev()).all(|(g, &k)| agrees(g, fl.nodes[k], input) && *g == prim[k]);
        if !ok {
            cx.bad("flat_pairs", "flatten().rev() is not the reversed pre-order sequence of the tree", json!(all.iter().rev().map(|&k| node_show(fl.nodes[k])).collect::<Vec<_>>()), json!(b.iter().map(pair_show).collect::<Vec<_>>()));
        }
        let fresh = pairs.clone().flatten();
        if fresh.len() != all.len() || fresh.size_hint() != (all.len(), Some(all.len())) {
            cx.bad("flat_pairs", "len()/size_hint() of a fresh flatten()", json!(all.len()), json!(format!("{} {:?}", fresh.len(), fresh.size_hint())));
        }
        let ft: Vec<Tok> = pairs.clone().flatten().tokens().map(|t| mtok(&t)).collect();
        if ft != fl.toks {
            cx.bad("flat_pairs", "flatten().tokens() is not the token stream", toks_show(&fl.toks), toks_show(&ft));
        }
        if let Err(m) = tryp(|| format!("{:?}", pairs.clone().flatten())) {
            cx.bad("flat_pairs", "Debug of FlatPairs panicked", json!("no panic"), json!(m));
        }
    });
    group(cx, "flat_pairs_interleaving", |cx| {
        for k in 0..2 {
            inter_flat(cx, pairs.clone().flatten(), 0..all.len(), 0..ntoks, &fl, &prim, input, &mut rng, &format!("flatten() (sequence {k})"));
        }
    });

    // --- Tokens
    group(cx, "tokens", |cx| {
        cx.view("tokens");
        let t: Vec<Tok> = pairs.clone().tokens().map(|t| mtok(&t)).collect();
        if t != fl.toks {
            cx.bad("tokens", "tokens() is not the token stream of the tree", toks_show(&fl.toks), toks_show(&t));
        }
        let mut want = fl.toks.clone();
        want.reverse();
        let b: Vec<Tok> = pairs.clone().tokens().rev().map(|t| mtok(&t)).collect();
        if b != want {
            cx.bad("tokens", "tokens().rev() is not the reversed token stream", toks_show(&want), toks_show(&b));
        }
        if let Err(m) = tryp(|| format!("{:?}", pairs.clone().tokens())) {
            cx.bad("tokens", "Debug of Tokens panicked", json!("no panic"), json!(m));
        }
        // tokens of a partly consumed Pairs: the window of the remaining pairs
        if model.len() >= 2 {
            let mut q = pairs.clone();
            q.next();
            q.next_back();
            let t: Vec<Tok> = q.tokens().map(|t| mtok(&t)).collect();
            let (a, z) = (fl.etok[fl.top[0]] + 1, fl.stok[fl.top[fl.top.len() - 1]]);
            if t != fl.toks[a..z] {
                cx.bad("tokens", "tokens() after next() and next_back() is not the stream of the remaining pairs", toks_show(&fl.toks[a..z]), toks_show(&t));
            }
        }
    });
    group(cx, "tokens_interleaving", |cx| {
        inter_tokens(cx, pairs.clone().tokens(), &fl.toks, &mut rng, "tokens()");
    });

    // --- tags
    group(cx, "tagged", |cx| {
        cx.view("tagged");
        let mut pool: Vec<&'i str> = vec![];
        for p in &prim {
            if let Some(t) = p.as_node_tag().map(static_tag) {
                if !pool.contains(&t) {
                    pool.push(t);
                }
            }
        }
        for n in &fl.nodes {
            if let Some(t) = &n.tag {
                if !pool.iter().any(|p| *p == t.as_str()) {
                    pool.push(static_tag(t));
                }
            }
        }
        for t in ["t0", "no-such-tag"] {
            if !pool.contains(&t) {
                pool.push(t);
            }
        }
        for t in pool {
            let want: Vec<usize> = all.iter().copied().filter(|&k| fl.nodes[k].tag.as_deref() == Some(t)).collect();
            let got: Vec<Pair<'i, R>> = pairs.clone().find_tagged(t).collect();
            let ok = got.len() == want.len() && got.iter().zip(&want).all(|(g, &k)| agrees(g, fl.nodes[k], input) && *g == prim[k]);
            if !ok {
                cx.bad("tagged", format!("find_tagged({t:?})"), json!(want.iter().map(|&k| node_show(fl.nodes[k])).collect::<Vec<_>>()), json!(got.iter().map(pair_show).collect::<Vec<_>>()));
            }
            let first = pairs.find_first_tagged(t);
            if let Some((e, o)) = cmp_item(&first, want.first().copied(), &fl, &prim, input) {
                cx.bad("tagged", format!("find_first_tagged({t:?})"), e, o);
            }
            // below one nested node
            if let Some(&k) = fl.top.first() {
                let below: Vec<usize> = fl.below(k).filter(|&j| fl.nodes[j].tag.as_deref() == Some(t)).collect();
                let got: Vec<Pair<'i, R>> = prim[k].clone().into_inner().find_tagged(t).collect();
                let ok = got.len() == below.len() && got.iter().zip(&below).all(|(g, &j)| *g == prim[j]);
                if !ok {
                    cx.bad("tagged", format!("into_inner().find_tagged({t:?}) of {}", node_show(fl.nodes[k])), json!(below.iter().map(|&j| node_show(fl.nodes[j])).collect::<Vec<_>>()), json!(got.iter().map(pair_show).collect::<Vec<_>>()));
                }
            }
        }
    });

    // --- Display / Debug / JSON of the whole Pairs
    group(cx, "pairs_display", |cx| {
        cx.view("pairs_display");
        let want = format!("[{}]", model.iter().map(|n| text(input, n)).collect::<Vec<_>>().join(", "));
        let got = format!("{pairs}");
        if got != want {
            cx.bad("pairs_display", "Display of Pairs", json!(want), json!(got));
        }
        let want = format!("[{}]", model.iter().map(pair_alt::<R>).collect::<Vec<_>>().join(", "));
        let got = format!("{pairs:#}");
        if got != want {
            cx.bad("pairs_display", "{:#} of Pairs", json!(want), json!(got));
        }
        let d = format!("{pairs:?}");
        let missing: Vec<String> = fl.nodes.iter().map(|n| R::dbg_of(&n.rule)).filter(|r| !d.contains(r.as_str())).collect();
        if !missing.is_empty() {
            cx.bad("pairs_display", "Debug of Pairs does not mention every rule", json!("all rules mentioned"), json!({"missing": missing, "debug": d}));
        }
    });
    group(cx, "pairs_to_json", |cx| {
        check_pairs_json(cx, pairs, model, input, "Pairs");
        // a Pairs emptied by iteration is an empty Pairs as well
        let mut q = pairs.clone();
        while q.next().is_some() {}
        check_pairs_json(cx, &q, &[], input, "Pairs after next() until None");
        if model.len() >= 2 {
            let mut q = pairs.clone();
            q.next_back();
            check_pairs_json(cx, &q, &model[..model.len() - 1], input, "Pairs after one next_back()");
            let mut q = pairs.clone();
            q.next();
            check_pairs_json(cx, &q, &model[1..], input, "Pairs after one next()");
        }
    });

    // --- every Pair; heavy checks (interleavings, JSON, Debug) on a bounded selection
    let heavy: HashSet<usize> = if all.len() <= 10 { all.iter().copied().collect() } else { fl.top.iter().copied().chain((0..8).map(|_| rng.below(all.len()))).collect() };
    for &i in &all {
        let h = heavy.contains(&i);
        let mut r2 = rng.fork();
        group(cx, "pair", |cx| check_pair(cx, i, &fl, &prim, input, &mut r2, h));
    }

    // --- Pairs::single
    let singles: std::collections::BTreeSet<usize> = if all.len() <= 8 { all.iter().copied().collect() } else { fl.top.iter().copied().take(3).chain((0..5).map(|_| rng.below(all.len()))).collect() };
    for i in singles {
        group(cx, "single", |cx| check_single(cx, i, &fl, &prim, input));
    }
}

/// Tag text with the lifetime `find_tagged` / `PairsBuilder::tag` want (`as_node_tag` only lends
/// it for the borrow of the pair): a table of leaked copies; tags are a handful of short identifiers.
fn static_tag(t: &str) -> &'static str {
    use std::cell::RefCell;
    thread_local! { static TAGS: RefCell<BTreeMap<String, &'static str>> = RefCell::new(BTreeMap::new()); }
    TAGS.with(|m| {
        let mut m = m.borrow_mut();
        if let Some(s) = m.get(t) {
            return *s;
        }
        let s: &'static str = Box::leak(t.to_string().into_boxed_str());
        m.insert(t.to_string(), s);
        s
    })
}

// ------------------------------------------------------------------------------------------
// cases

#[derive(Clone, Debug)]
enum Case {
    Builder { input: String, tree: Vec<Node>, ops: u64 },
    Parse { grammar: String, rule: String, input: String, ops: u64 },
}

impl Case {
    fn json(&self) -> Value {
        match self {
            Case::Builder { input, tree, ops } => json!({"source": "builder", "input": input, "tree": tree.iter().map(node_json).collect::<Vec<_>>(), "ops": ops}),
            Case::Parse { grammar, rule, input, ops } => json!({"source": "parse", "grammar": grammar, "rule": rule, "input": input, "ops": ops}),
        }
    }
    fn from_json(v: &Value) -> Option<Case> {
        let ops = v["ops"].as_u64().unwrap_or(1);
        match v["source"].as_str()? {
            "builder" => Some(Case::Builder { input: v["input"].as_str()?.to_string(), tree: v["tree"].as_array()?.iter().filter_map(node_from_json).collect(), ops }),
            "parse" => Some(Case::Parse { grammar: v["grammar"].as_str()?.to_string(), rule: v["rule"].as_str()?.to_string(), input: v["input"].as_str()?.to_string(), ops }),
            _ => None,
        }
    }
}

struct Shard<'a> {
    rep: Report,
    known: HashSet<String>,
    args: &'a Args,
    per_kind: BTreeMap<String, u64>,
    max_depth: usize,
    max_nodes: usize,
}

impl Shard<'_> {
    /// Evidence + classification of what monitor (2) found on one tree.
    fn account(&mut self, case: &Case, source: &str, input: &str, model: &[Node], findings: Vec<Finding>) {
        let nodes = count_nodes(model);
        let depth = depth_of(model);
        let tagged = has_tags(model);
        self.max_depth = self.max_depth.max(depth);
        self.max_nodes = self.max_nodes.max(nodes);
        self.rep.count(&format!("trees:{source}"));
        self.rep.count(&format!("depth:{}", depth.min(9)));
        if model.is_empty() {
            self.rep.count("empty_pairs_cases");
        }
        if !input.is_ascii() {
            self.rep.count("multibyte_inputs");
        }
        if input.contains('\n') {
            self.rep.count("multiline_inputs");
        }
        if tagged {
            self.rep.count("tagged_trees");
            self.rep.count(&format!("tagged_trees:{source}"));
        }
        if model.len() > 1 {
            self.rep.count("trees_with_several_top_level_pairs");
        }
        if nodes >= 3 && depth >= 2 {
            let fl = Flat::new(model);
            let stream = fl.toks.iter().map(tok_show).collect::<Vec<_>>().join(" ");
            let nb = match nodes {
                0..=4 => 0u8,
                5..=8 => 1,
                9..=16 => 2,
                17..=32 => 3,
                _ => 4,
            };
            self.rep.nontrivial(hash_bytes(&[input.as_bytes(), stream.as_bytes()]), hash_bytes(&[&[depth.min(9) as u8, nb, tagged as u8], source.as_bytes()]));
            self.rep.sample_slot(&format!("{source}:depth{}", depth.min(4)), || case.json());
        }
        // one report per (view, key) and tree
        let mut seen: HashSet<(String, Option<&'static str>)> = HashSet::new();
        for f in findings {
            if !seen.insert((f.view.to_string(), f.key)) {
                continue;
            }
            let mut w = case.json();
            let m = w.as_object_mut().unwrap();
            m.insert("property".into(), json!("C04"));
            m.insert("config".into(), json!(config_name()));
            m.insert("view".into(), json!(f.view));
            m.insert("what".into(), json!(f.what));
            m.insert("model".into(), json!(model.iter().map(node_json).collect::<Vec<_>>()));
            m.insert("expected".into(), f.expected);
            m.insert("observed".into(), f.observed);
            match f.key {
                Some(k) if self.known.contains(k) => self.rep.known_finding(k, w),
                k => {
                    // keep the list of literal witnesses varied: a few per kind, all counted
                    let kind = k.unwrap_or(f.view).to_string();
                    m_insert(&mut w, "kind", json!(kind));
                    let c = self.per_kind.entry(kind.clone()).or_insert(0);
                    *c += 1;
                    self.rep.count(&format!("violation_kind:{kind}"));
                    if *c <= 4 {
                        self.rep.violation(w);
                    } else {
                        self.rep.count("violations");
                    }
                }
            }
        }
    }

    fn run_builder(&mut self, case: &Case) {
        let Case::Builder { input, tree, ops } = case else { return };
        self.rep.count("evaluations");
        let built = tryp(|| feed(PairsBuilder::new(input.as_str()), tree).build());
        let mut model = tree.clone();
        let mut cx = Cx { rep: &mut self.rep, findings: vec![], ops: 0 };
        match built {
            Err(m) => cx.bad("builder", "PairsBuilder panicked on a well-formed tree", json!("a Pairs"), json!(format!("panic: {m}"))),
            Ok(pairs) => {
                // monitor (1) on the builder's stream as well: it must be the tree that was fed
                cx.view("builder_stream_wellformed");
                match tryp(|| pairs.clone().tokens().map(|t| mtok(&t)).collect::<Vec<Tok>>()) {
                    Err(m) => cx.bad("tokens", "tokens() panicked", json!("no panic"), json!(m)),
                    Ok(toks) => match wellformed(&toks, input) {
                        Err(e) => cx.bad("wellformed", "the stream of a PairsBuilder tree is not well-formed", json!("well-formed"), json!(e)),
                        Ok(mut t) => {
                            copy_tags(&mut t, tree);
                            if t != *tree {
                                cx.bad("wellformed", "the stream of a PairsBuilder tree is a different tree", json!(tree.iter().map(node_json).collect::<Vec<_>>()), json!(t.iter().map(node_json).collect::<Vec<_>>()));
                            }
                        }
                    },
                }
                check_views(&mut cx, &pairs, input.as_str(), &mut model, false, *ops);
            }
        }
        let Cx { findings, ops: nops, .. } = cx;
        self.rep.add("interleaving_ops", nops);
        self.account(case, "builder", input, &model, findings);
    }

    /// Monitor (1) on a successful parse. Ok(Some(tree)) = well-formed.
    fn stream_check(&mut self, grammar: &str, rule: &str, input: &str, pairs: &Pairs<'_, &str>) -> Option<Vec<Node>> {
        self.rep.count("evaluations");
        self.rep.count("streams_judged");
        let verdict = match tryp(|| pairs.clone().tokens().map(|t| mtok(&t)).collect::<Vec<Tok>>()) {
            Err(m) => Err(format!("tokens() panicked: {m}")),
            Ok(toks) => wellformed(&toks, input),
        };
        match verdict {
            Ok(t) => Some(t),
            Err(e) => {
                self.rep.violation(json!({"property": "C04", "config": config_name(), "source": "parse", "grammar": grammar, "rule": rule, "input": input, "ops": 1,
                    "view": "wellformed", "what": "the token stream of a successful parse is not a well-formed tree", "expected": "balanced, nested, matching rules, non-decreasing char-boundary positions inside the input", "observed": e}));
                None
            }
        }
    }

    /// `input` is the very string the pairs were parsed from (get_input is compared by address).
    fn run_parse_views<'i>(&mut self, case: &Case, pairs: &Pairs<'i, &'i str>, input: &'i str, mut model: Vec<Node>) {
        let Case::Parse { ops, .. } = case else { return };
        self.rep.count("evaluations");
        let mut cx = Cx { rep: &mut self.rep, findings: vec![], ops: 0 };
        check_views(&mut cx, pairs, input, &mut model, true, *ops);
        let Cx { findings, ops: nops, .. } = cx;
        self.rep.add("interleaving_ops", nops);
        self.account(case, "parse", input, &model, findings);
    }

    /// Replays one literal case (from --replay or from a known-finding witness).
    fn run_case(&mut self, case: &Case) {
        match case {
            Case::Builder { .. } => self.run_builder(case),
            Case::Parse { grammar, rule, input, .. } => {
                let Ok((ast, opt)) = read_grammar(grammar) else {
                    self.rep.notes.insert("replay_grammar_rejected".into(), json!(grammar));
                    return;
                };
                let mut rf = vmon::reference::Ref::new(&ast, input);
                rf.max_steps = 50_000;
                if matches!(rf.parse(rule), Outcome::Diverges(_) | Outcome::Budget) {
                    self.rep.inconclusive(json!({"why": "reference diverges or runs out of budget on the replayed case", "case": case.json()}));
                    return;
                }
                let vm = pest_vm::Vm::new(opt);
                match guarded_parse(&vm, rule, input) {
                    Parsed::Ok(pairs) => {
                        if let Some(model) = self.stream_check(grammar, rule, input, &pairs) {
                            self.run_parse_views(case, &pairs, input, model);
                        }
                    }
                    Parsed::Limit => self.rep.inconclusive(json!({"why": "vm call limit", "case": case.json()})),
                    _ => self.rep.count("replay_case_did_not_parse"),
                }
            }
        }
    }
}

fn m_insert(w: &mut Value, k: &str, v: Value) {
    if let Value::Object(m) = w {
        m.insert(k.into(), v);
    }
}

fn copy_tags(dst: &mut [Node], src: &[Node]) {
    for (d, s) in dst.iter_mut().zip(src) {
        d.tag = s.tag.clone();
        copy_tags(&mut d.children, &s.children);
    }
}

enum Parsed<'a> {
    Ok(Pairs<'a, &'a str>),
    Err,
    Limit,
    Panic,
}

fn guarded_parse<'a>(vm: &'a pest_vm::Vm, rule: &'a str, input: &'a str) -> Parsed<'a> {
    pest::set_call_limit(std::num::NonZeroUsize::new(VM_LIMIT));
    let r = catch_unwind(AssertUnwindSafe(|| vm.parse(rule, input)));
    pest::set_call_limit(None);
    match r {
        Err(_) => Parsed::Panic,
        Ok(Ok(p)) => Parsed::Ok(p),
        Ok(Err(e)) => {
            if matches!(&e.variant, pest::error::ErrorVariant::CustomError { message } if message == "call limit reached") {
                Parsed::Limit
            } else {
                Parsed::Err
            }
        }
    }
}

// ------------------------------------------------------------------------------------------
// builder workload

const CHARS: &[&str] = &["a", "b", "c", "x", " ", "\n", "é", "€", "𝄞", "\r\n"];
const TAGS: &[&str] = &["t0", "t1", "t2"];

fn rule_of(name: &str) -> R {
    RS.iter().copied().find(|r| r.name() == name).unwrap_or(R::A)
}

fn feed<'i>(mut b: PairsBuilder<'i, R>, nodes: &[Node]) -> PairsBuilder<'i, R> {
    for n in nodes {
        let r = rule_of(&n.rule);
        // both spellings of a leaf are used
        b = if n.children.is_empty() && (n.start + n.end) % 3 != 0 { b.rule(r, n.start, n.end) } else { b.rule_with(r, n.start, n.end, |inner| feed(inner, &n.children)) };
        if let Some(t) = &n.tag {
            b = b.tag(static_tag(t));
        }
    }
    b
}

struct TreeGen<'r> {
    rng: &'r mut Rng,
    budget: usize,
    tag_pct: u32,
    deep: bool,
}

impl TreeGen<'_> {
    /// Siblings inside the boundary list `b` (all char boundaries of one span, ascending).
    fn forest(&mut self, b: &[usize], depth_left: usize, top: bool) -> Vec<Node> {
        let k = if top {
            self.rng.weighted(&[4, 46, 28, 14, 8])
        } else if self.deep {
            self.rng.weighted(&[6, 60, 24, 10])
        } else {
            self.rng.weighted(&[20, 40, 25, 10, 5])
        };
        let k = k.min(self.budget);
        self.budget -= k;
        let mut cuts: Vec<usize> = (0..2 * k).map(|_| self.rng.below(b.len())).collect();
        cuts.sort_unstable();
        let mut out = vec![];
        for j in 0..k {
            let (mut s, mut e) = (cuts[2 * j], cuts[2 * j + 1]);
            // often let the first / last sibling reach the edge of the parent, so that nested
            // pairs share boundaries and deep trees are not all empty spans
            if j == 0 && self.rng.chance(45, 100) {
                s = 0;
            }
            if j + 1 == k && self.rng.chance(45, 100) {
                e = b.len() - 1;
            }
            let mut n = Node { rule: self.rng.pick(&RS).name(), start: b[s], end: b[e], tag: None, children: vec![] };
            if self.rng.chance(self.tag_pct, 100) {
                n.tag = Some(self.rng.pick(TAGS).to_string());
            }
            let go = if self.deep { 85 } else { 45 };
            if depth_left > 0 && self.budget > 0 && self.rng.chance(go, 100) {
                n.children = self.forest(&b[s..=e], depth_left - 1, false);
            }
            out.push(n);
        }
        out
    }
}

fn gen_builder_case(rng: &mut Rng) -> Case {
    let nchars = match rng.below(20) {
        0 => 0,
        1..=8 => 1 + rng.below(4),
        _ => 5 + rng.below(10),
    };
    let mut input = String::new();
    for _ in 0..nchars {
        input.push_str(*rng.pick(CHARS));
    }
    let mut bounds: Vec<usize> = input.char_indices().map(|(i, _)| i).collect();
    bounds.push(input.len());
    let tag_pct = if rng.chance(40, 100) { 35 } else { 0 };
    let deep = rng.chance(35, 100);
    let max_depth = 1 + rng.below(8);
    let mut g = TreeGen { rng, budget: 48, tag_pct, deep };
    let tree = g.forest(&bounds, max_depth - 1, true);
    let ops = rng.next();
    Case::Builder { input, tree, ops }
}

// ------------------------------------------------------------------------------------------

pub fn run(args: &Args) {
    let known: HashSet<String> = vmon::shard::load_known(&args.known, "C04").into_iter().filter(|k| k.status == "known").map(|k| k.key).collect();
    let mut sh = Shard { rep: Report::new(args), known, args, per_kind: BTreeMap::new(), max_depth: 0, max_nodes: 0 };
    if let Some(path) = &args.replay {
        let v: Value = serde_json::from_str(&std::fs::read_to_string(path).expect("replay file")).expect("json");
        let w = if v["witness"].is_object() { v["witness"].clone() } else { v };
        match Case::from_json(&w) {
            Some(c) => sh.run_case(&c),
            None => {
                sh.rep.notes.insert("replay_not_understood".into(), w);
            }
        }
        sh.finish();
        return;
    }
    if args.shard == 0 {
        // the canonical witness of every listed finding is replayed on every run
        for k in vmon::shard::load_known(&args.known, "C04") {
            if let Some(c) = Case::from_json(&k.witness) {
                sh.rep.count("known_witnesses_replayed");
                sh.run_case(&c);
            }
        }
    }
    let mut rng = Rng::new(args.seed, "c04", args.shard);
    let n_trees = args.budget(50_000, 2_000_000);
    let n_parse = n_trees * 6 / 10;
    let n_builder = n_trees - n_parse;
    let (mut done_parse, mut done_builder) = (0u64, 0u64);
    let cfg = GenCfg::new(Profile::Full);
    let mut grammars = 0u64;
    while done_parse < n_parse || done_builder < n_builder {
        if sh.rep.elapsed() > args.max_s {
            sh.rep.notes.insert("stopped_early_after_trees".into(), json!(done_parse + done_builder));
            break;
        }
        // builder trees keep pace with the parsed ones (40 : 60)
        while done_builder < n_builder && (done_parse >= n_parse || done_builder * 6 <= done_parse * 4) {
            let mut crng = rng.fork();
            let case = gen_builder_case(&mut crng);
            sh.rep.journal(|| case.json());
            sh.run_builder(&case);
            done_builder += 1;
        }
        if done_parse >= n_parse {
            continue;
        }
        grammars += 1;
        if grammars > n_parse * 4 + 1000 {
            sh.rep.inconclusive(json!({"why": "the grammar generator produced too few successful parses", "grammars": grammars, "parse_trees": done_parse}));
            break;
        }
        let mut grng = rng.fork();
        let rules = gen_grammar(&mut grng, &cfg);
        let text = vmon::print::rules_to_string(&rules);
        sh.rep.count("grammars_generated");
        let Ok((ast, optimized)) = read_grammar(&text) else {
            sh.rep.count("grammars_rejected_by_pest");
            continue;
        };
        sh.rep.count("grammars_used");
        let vm = pest_vm::Vm::new(optimized);
        let (inputs, _, _) = vmon::inputs::inputs_for(&ast, &mut grng, 12, 2, 120);
        // a bounded random selection of (rule, input) per grammar, so that no grammar dominates
        let mut cases: Vec<(usize, usize)> = (0..ast.len()).flat_map(|r| (0..inputs.len()).map(move |i| (r, i))).collect();
        for i in (1..cases.len()).rev() {
            cases.swap(i, grng.below(i + 1));
        }
        cases.truncate(240);
        // per grammar: at most 1 empty tree, 2 small ones, 16 non-trivial ones, all distinct
        let (mut q_empty, mut q_small, mut q_big) = (1, 2, 16);
        let mut seen: HashSet<u64> = HashSet::new();
        for (ri, ii) in cases {
            if done_parse >= n_parse {
                break;
            }
            let (rule, input) = (ast[ri].name.as_str(), inputs[ii].as_str());
            let mut rf = vmon::reference::Ref::new(&ast, input);
            rf.max_steps = 50_000;
            let ref_outcome = rf.parse(rule);
            if matches!(ref_outcome, Outcome::Diverges(_) | Outcome::Budget) {
                sh.rep.count("skipped_reference_diverges_or_budget");
                continue;
            }
            sh.rep.journal(|| json!({"source": "parse", "grammar": text, "rule": rule, "input": input, "ops": 1}));
            sh.rep.count("parses_run");
            let pairs = match guarded_parse(&vm, rule, input) {
                Parsed::Ok(p) => p,
                Parsed::Err => {
                    sh.rep.count("parse_outcome:no_match");
                    continue;
                }
                Parsed::Limit => {
                    sh.rep.count("parse_outcome:call_limit");
                    continue;
                }
                Parsed::Panic => {
                    // POP/PEEK on an empty stack panics by contract; whether a panic was due is C01's
                    // question (differential), here it is only counted
                    sh.rep.count("parse_outcome:panic");
                    if !matches!(ref_outcome, Outcome::Panic(_)) {
                        sh.rep.count("parse_outcome:panic_not_predicted_by_reference");
                    }
                    continue;
                }
            };
            sh.rep.count("parse_outcome:ok");
            let Some(model) = sh.stream_check(&text, rule, input, &pairs) else { continue };
            let (nodes, depth) = (count_nodes(&model), depth_of(&model));
            let quota = if nodes == 0 {
                &mut q_empty
            } else if nodes >= 3 && depth >= 2 {
                &mut q_big
            } else {
                &mut q_small
            };
            if *quota == 0 {
                continue;
            }
            let fl = Flat::new(&model);
            let h = hash_bytes(&[input.as_bytes(), fl.toks.iter().map(tok_show).collect::<Vec<_>>().join(" ").as_bytes()]);
            drop(fl);
            if !seen.insert(h) {
                continue;
            }
            *quota -= 1;
            let case = Case::Parse { grammar: text.clone(), rule: rule.to_string(), input: input.to_string(), ops: grng.next() };
            sh.rep.journal(|| case.json());
            sh.run_parse_views(&case, &pairs, input, model);
            done_parse += 1;
        }
    }
    sh.finish();
}

impl Shard<'_> {
    fn finish(mut self) {
        self.rep.notes.insert("max_depth".into(), json!(self.max_depth));
        self.rep.notes.insert("max_nodes".into(), json!(self.max_nodes));
        self.rep.notes.insert("config".into(), json!(config_name()));
        self.rep.finish(self.args);
    }
}
