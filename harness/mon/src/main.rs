//! mon: one sub-command per property; each invocation is one single-threaded shard.
mod c01;
mod common;

use vmon::shard::Args;

fn main() {
    let argv: Vec<String> = std::env::args().collect();
    let args = Args::parse(&argv);
    vmon::pestrun::quiet_panics();
    let a = args.clone();
    common::with_big_stack(move || match a.prop.as_str() {
        "c01" => c01::run(&a),
        other => {
            eprintln!("unknown sub-command {other}");
            std::process::exit(3);
        }
    });
}
