//! mon: one sub-command per property; each invocation is one single-threaded shard.
mod c01;
mod c02emit;
mod c04;
mod c05;
mod c06;
mod c07;
mod c08;
mod c09;
mod c10;
mod c11;
mod c12;
mod c13;
mod c15;
mod common;

use vmon::shard::Args;

fn main() {
    let argv: Vec<String> = std::env::args().collect();
    let args = Args::parse(&argv);
    vmon::pestrun::quiet_panics();
    let a = args.clone();
    common::with_big_stack(move || match a.prop.as_str() {
        "c01" => c01::run(&a),
        "c02emit" => c02emit::run(&a),
        "c04" => c04::run(&a),
        "c05" => c05::run(&a),
        "c06" => c06::run(&a),
        "c07" => c07::run(&a),
        "c08" => c08::run(&a),
        "c09" => c09::run(&a),
        "c10" => c10::run(&a),
        "c11" => c11::run(&a),
        "c12" => c12::run(&a),
        "c13" => c13::run(&a),
        "c15" => c15::run(&a),
        other => {
            eprintln!("unknown sub-command {other}");
            std::process::exit(3);
        }
    });
}
