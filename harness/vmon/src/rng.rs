//! Deterministic PRNG (splitmix64 seeding + xoshiro256**). The only source of randomness.

#[derive(Clone, Debug)]
pub struct Rng {
    s: [u64; 4],
}

pub fn splitmix(z: &mut u64) -> u64 {
    *z = z.wrapping_add(0x9e3779b97f4a7c15);
    let mut x = *z;
    x = (x ^ (x >> 30)).wrapping_mul(0xbf58476d1ce4e5b9);
    x = (x ^ (x >> 27)).wrapping_mul(0x94d049bb133111eb);
    x ^ (x >> 31)
}

pub fn hash_str(s: &str) -> u64 {
    // FNV-1a 64
    let mut h: u64 = 0xcbf29ce484222325;
    for b in s.as_bytes() {
        h ^= *b as u64;
        h = h.wrapping_mul(0x100000001b3);
    }
    h
}

pub fn hash_bytes(parts: &[&[u8]]) -> u64 {
    let mut h: u64 = 0xcbf29ce484222325;
    for p in parts {
        for b in *p {
            h ^= *b as u64;
            h = h.wrapping_mul(0x100000001b3);
        }
        h ^= 0xff;
        h = h.wrapping_mul(0x100000001b3);
    }
    h
}

impl Rng {
    /// Stream for (seed, property tag, shard).
    pub fn new(seed: u64, tag: &str, shard: u64) -> Rng {
        let mut z = seed ^ hash_str(tag).rotate_left(17) ^ shard.wrapping_mul(0xd6e8feb86659fd93);
        let s = [splitmix(&mut z), splitmix(&mut z), splitmix(&mut z), splitmix(&mut z)];
        Rng { s }
    }
    pub fn fork(&mut self) -> Rng {
        let mut z = self.next();
        let s = [splitmix(&mut z), splitmix(&mut z), splitmix(&mut z), splitmix(&mut z)];
        Rng { s }
    }
    pub fn next(&mut self) -> u64 {
        let r = self.s[1].wrapping_mul(5).rotate_left(7).wrapping_mul(9);
        let t = self.s[1] << 17;
        self.s[2] ^= self.s[0];
        self.s[3] ^= self.s[1];
        self.s[1] ^= self.s[2];
        self.s[0] ^= self.s[3];
        self.s[2] ^= t;
        self.s[3] = self.s[3].rotate_left(45);
        r
    }
    /// Uniform in 0..n (n > 0).
    pub fn below(&mut self, n: usize) -> usize {
        debug_assert!(n > 0);
        (self.next() % (n as u64)) as usize
    }
    pub fn range(&mut self, lo: i64, hi_incl: i64) -> i64 {
        lo + (self.next() % ((hi_incl - lo + 1) as u64)) as i64
    }
    /// True with probability num/den.
    pub fn chance(&mut self, num: u32, den: u32) -> bool {
        (self.next() % den as u64) < num as u64
    }
    pub fn pick<'a, T>(&mut self, xs: &'a [T]) -> &'a T {
        &xs[self.below(xs.len())]
    }
    /// Weighted pick: returns index.
    pub fn weighted(&mut self, w: &[u32]) -> usize {
        let total: u64 = w.iter().map(|x| *x as u64).sum();
        let mut r = self.next() % total.max(1);
        for (i, x) in w.iter().enumerate() {
            if r < *x as u64 {
                return i;
            }
            r -= *x as u64;
        }
        w.len() - 1
    }
}
