//! Shared vocabulary of the monitors: token streams and parse outcomes.

#[derive(Clone, Debug, PartialEq, Eq, Hash)]
pub struct Tok {
    pub start: bool,
    pub rule: String,
    pub pos: usize,
}

#[derive(Clone, Debug, PartialEq, Eq)]
pub enum Outcome {
    /// matched: tokens, end position, final stack (bottom to top)
    Match { toks: Vec<Tok>, end: usize, stack: Vec<String> },
    NoMatch,
    /// a documented panic (POP/PEEK on an empty stack)
    Panic(String),
    /// the reference detected a non-terminating evaluation
    Diverges(String),
    /// step budget / call limit exhausted: inconclusive
    Budget,
}

impl Outcome {
    pub fn kind(&self) -> &'static str {
        match self {
            Outcome::Match { .. } => "match",
            Outcome::NoMatch => "nomatch",
            Outcome::Panic(_) => "panic",
            Outcome::Diverges(_) => "diverges",
            Outcome::Budget => "budget",
        }
    }
}

pub fn toks_to_string(toks: &[Tok]) -> String {
    let mut s = String::new();
    for t in toks {
        if t.start {
            s.push_str(&format!("{}@{}(", t.rule, t.pos));
        } else {
            s.push_str(&format!(")@{} ", t.pos));
        }
    }
    s
}
