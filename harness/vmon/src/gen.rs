//! Grammar generator: abstract `ast::Rule` sets, biased towards the shapes the optimizer
//! rewrites and the validator reasons about.

use crate::rng::Rng;
use pest_meta::ast::{Expr, Rule, RuleType};

#[derive(Clone, Copy, Debug, PartialEq, Eq)]
pub enum Profile {
    /// everything
    Full,
    /// no stack built-ins
    NoStack,
    /// the premise of C06-B / the C07 family: every repetition body, non-final alternative and
    /// recursive path begins with a consuming terminal
    Guarded,
}

#[derive(Clone, Debug)]
pub struct GenCfg {
    pub profile: Profile,
    pub max_rules: usize,
    pub max_depth: usize,
    /// allow WHITESPACE / COMMENT definitions
    pub skip_rules: bool,
    /// allow `!`-modified WHITESPACE/COMMENT (the back-ends disagree on it, C02 owns that)
    pub nonatomic_skip_rules: bool,
    /// allow grammar-extras syntax (only honoured when compiled with the feature)
    pub extras: bool,
    /// percent chance that a leftmost rule reference may point anywhere (left recursion)
    pub wild_left_refs_pct: u32,
    /// repetition counts go up to this
    pub max_count: u32,
    /// percent chance for the optimizer-shaped productions
    pub shapes_pct: u32,
    /// allow user rules named like non-keyword built-ins (C02 only)
    pub builtin_named_rules: bool,
    /// allow the full range of literal characters (C07) rather than the small parse alphabet
    pub wide_literals: bool,
    /// allow stack built-ins even in the guarded profile (C07: only the reader is exercised)
    pub stack_anyway: bool,
    /// percent chance (per shape draw) of a keyword-list alternation of 28..48 literals
    pub big_choices_pct: u32,
    /// percent chance that a literal is one of a few long ones (> 24 bytes, multi-byte characters at various offsets)
    pub long_literals_pct: u32,
    /// percent chance (per shape draw) of keyword-exclusion alternatives: `!k ~ x | !w ~ y | !k ~ z`
    pub negpred_pct: u32,
    /// percent chance (per shape draw) of a scan-until shape `(!(n1 | .. | nk) ~ ANY)*` with 3..7 stop strings,
    /// some of which contain, extend or repeat others
    pub skipper_pct: u32,
    /// percent chance (per shape draw, stack profiles only) of the branch-over-stack-changing-bodies shape
    pub restorer_pct: u32,
    /// percent chance (per shape draw) of an ordered choice whose alternatives are built from prefixes of ONE base
    /// string (keyword / longer keyword / identifier start), some under `!`, some followed by something that fails
    pub prefix_family_pct: u32,
}

impl GenCfg {
    pub fn new(profile: Profile) -> GenCfg {
        GenCfg {
            profile,
            max_rules: 5,
            max_depth: 4,
            skip_rules: true,
            nonatomic_skip_rules: false,
            extras: cfg!(feature = "grammar-extras"),
            wild_left_refs_pct: 0,
            max_count: 3,
            shapes_pct: 25,
            builtin_named_rules: false,
            wide_literals: false,
            stack_anyway: false,
            big_choices_pct: 0,
            negpred_pct: 0,
            long_literals_pct: 0,
            skipper_pct: 0,
            restorer_pct: 0,
            prefix_family_pct: 0,
        }
    }
}

impl GenCfg {
    /// A per-grammar variation of the configuration: mostly the base, sometimes deeper trees,
    /// larger repetition counts, more rules (rarer and deeper shapes).
    pub fn vary(&self, rng: &mut Rng) -> GenCfg {
        let mut c = self.clone();
        match rng.below(10) {
            0 => {
                c.max_depth = self.max_depth + 2;
                c.max_count = self.max_count.max(8);
            }
            1 => {
                c.max_rules = self.max_rules + 3;
                c.max_count = self.max_count.max(6);
            }
            2 => {
                c.max_depth = self.max_depth + 1;
                c.shapes_pct = (self.shapes_pct + 25).min(70);
            }
            _ => {}
        }
        c
    }
}

#[derive(Clone, Copy, PartialEq, Eq, Debug)]
enum Need {
    /// anything
    Free,
    /// must be able to fail (may match empty)
    CanFail,
    /// begins by matching a consuming terminal
    Consume,
}

pub const LITS: &[&str] = &["a", "b", "c", "ab", "ba", "aa", "abc", "é", " ", "\n", "x", "bX", "A", "aB", "€", "-", "a", "b", "ab", "É", "kΩ", "🎈", "\r", "Ａb", "\u{feff}", "\r\n", "a\r\nb"];
pub const BUILTIN_CHARS: &[&str] = &[
    "ANY",
    "ANY",
    "ANY",
    "ASCII_DIGIT",
    "ASCII_ALPHA",
    "ASCII_ALPHA_LOWER",
    "ASCII_ALPHA_UPPER",
    "ASCII_ALPHANUMERIC",
    "ASCII_HEX_DIGIT",
    "ASCII_NONZERO_DIGIT",
    "ASCII_BIN_DIGIT",
    "ASCII_OCT_DIGIT",
    "ASCII",
    "NEWLINE",
    "LETTER",
    "UPPERCASE_LETTER",
    "LOWERCASE_LETTER",
    "NUMBER",
    "PUNCTUATION",
    "WHITE_SPACE",
    "ALPHABETIC",
    "LATIN",
    "HAN",
];

struct G<'a> {
    rng: &'a mut Rng,
    cfg: &'a GenCfg,
    names: Vec<String>,
    consuming: Vec<bool>,
    cur: usize,
    tys: Vec<RuleType>,
    tag_n: usize,
    /// index of a rule whose body is a choice of strings (skipper inlining), if any
    needle_rule: Option<usize>,
    stack_rule: Option<(String, RuleType)>,
    /// (grammar-extras) this grammar pushes only through PUSH_LITERAL, never through PUSH(..)
    literal_push_only: bool,
}

pub fn gen_grammar(rng: &mut Rng, cfg: &GenCfg) -> Vec<Rule> {
    let n = 1 + rng.below(cfg.max_rules);
    let mut names: Vec<String> = (0..n).map(|i| format!("r{i}")).collect();
    if cfg.builtin_named_rules {
        for nm in names.iter_mut().skip(1) {
            if rng.chance(1, 4) {
                let cand = *rng.pick(&["ASCII_DIGIT", "NEWLINE", "LETTER", "ASCII_ALPHA", "ASCII", "NUMBER", "HAN"]);
                *nm = cand.to_string();
            }
        }
        names.dedup();
        let mut seen = std::collections::HashSet::new();
        names.retain(|x| seen.insert(x.clone()));
    }
    let n = names.len();
    let mut consuming: Vec<bool> = (0..n).map(|_| rng.chance(3, 5)).collect();
    let mut skip_defs: Vec<(String, RuleType)> = vec![];
    if cfg.skip_rules {
        if rng.chance(2, 5) {
            skip_defs.push(("WHITESPACE".into(), skip_ty(rng, cfg)));
        }
        if rng.chance(1, 5) {
            skip_defs.push(("COMMENT".into(), skip_ty(rng, cfg)));
        }
    }
    for (nm, _) in &skip_defs {
        names.push(nm.clone());
        consuming.push(true);
    }
    // a rule that is nothing but a failing-after-mutating stack operation (restorer must see through the reference)
    let stack_rule: Option<(String, RuleType, Expr)> = if cfg.profile == Profile::Full && rng.chance(1, 4) {
        let body = Expr::Ident(rng.pick(&["POP", "POP_ALL", "POP"]).to_string());
        let ty = if rng.chance(1, 4) { RuleType::Silent } else { RuleType::Normal };
        Some(("rs".to_string(), ty, body))
    } else {
        None
    };
    let needle_rule = if n >= 2 && rng.chance(1, 3) { Some(n - 1) } else { None };
    let literal_push_only = cfg!(feature = "grammar-extras") && cfg.extras && cfg.profile == Profile::Full && rng.chance(1, 8);
    let mut rules = vec![];
    let total = names.len();
    let mut tys: Vec<RuleType> = vec![];
    for i in 0..total {
        let is_skip = i >= n;
        tys.push(if is_skip {
            skip_defs[i - n].1
        } else {
            match rng.weighted(&[40, 15, 20, 12, 13]) {
                0 => RuleType::Normal,
                1 => RuleType::Silent,
                2 => RuleType::Atomic,
                3 => RuleType::CompoundAtomic,
                _ => RuleType::NonAtomic,
            }
        });
    }
    for i in 0..total {
        let is_skip = i >= n;
        let ty = tys[i];
        let mut g = G {
            rng,
            cfg,
            names: names.clone(),
            consuming: consuming.clone(),
            cur: i,
            tys: tys.clone(),
            tag_n: 0,
            needle_rule,
            stack_rule: stack_rule.as_ref().map(|r| (r.0.clone(), r.1)),
            literal_push_only,
        };
        let expr = if Some(i) == needle_rule && !is_skip {
            // a rule the skipper can inline: a choice of plain strings
            let k = 1 + g.rng.below(3);
            let mut e = Expr::Str(g.lit_nonempty());
            for _ in 1..k {
                e = Expr::Choice(Box::new(e), Box::new(Expr::Str(g.lit_nonempty())));
            }
            consuming[i] = true;
            e
        } else {
            let need = if consuming[i] { Need::Consume } else { Need::Free };
            let d = 1 + g.rng.below(cfg.max_depth);
            if is_skip {
                // small: skip rules run between every two elements
                { let dd = 1 + g.rng.below(2); g.gen(dd, true, Need::Consume) }
            } else {
                g.gen(d, true, need)
            }
        };
        rules.push(Rule { name: names[i].clone(), ty, expr });
    }
    if cfg.skipper_pct > 0 {
        // the skipper rewrites scan-until shapes in atomic rules only: make half of the rules that got one atomic
        for r in rules.iter_mut().take(n) {
            if r.ty != RuleType::Atomic && has_scan_shape(&r.expr) && rng.chance(1, 2) {
                r.ty = RuleType::Atomic;
            }
        }
    }
    if let Some((name, ty, expr)) = stack_rule {
        rules.push(Rule { name, ty, expr });
    }
    rules
}

/// `(!(..) ~ ANY)*` somewhere in the expression.
pub fn has_scan_shape(e: &Expr) -> bool {
    let mut found = false;
    let _ = e.clone().map_top_down(|x| {
        if let Expr::Rep(inner) = &x {
            if let Expr::Seq(a, b) = &**inner {
                if matches!(&**a, Expr::NegPred(_)) && matches!(&**b, Expr::Ident(n) if n == "ANY") {
                    found = true;
                }
            }
        }
        x
    });
    found
}

fn skip_ty(rng: &mut Rng, cfg: &GenCfg) -> RuleType {
    loop {
        let t = match rng.weighted(&[50, 20, 12, 10, 8]) {
            0 => RuleType::Silent,
            1 => RuleType::Normal,
            2 => RuleType::Atomic,
            3 => RuleType::CompoundAtomic,
            _ => RuleType::NonAtomic,
        };
        if t == RuleType::NonAtomic && !cfg.nonatomic_skip_rules {
            continue;
        }
        return t;
    }
}

impl<'a> G<'a> {
    /// `PUSH(inner)`, or in a literal-push-only grammar `PUSH_LITERAL(..) ~ inner`.
    fn mk_push(&mut self, inner: Expr) -> Expr {
        #[cfg(feature = "grammar-extras")]
        {
            if self.literal_push_only {
                let lit = self.rng.pick(&["a", "b", "ab", "", "é"]).to_string();
                return Expr::Seq(Box::new(Expr::PushLiteral(lit)), Box::new(inner));
            }
        }
        Expr::Push(Box::new(inner))
    }

    fn stack_ok(&self) -> bool {
        self.cfg.profile == Profile::Full || self.cfg.stack_anyway
    }
    fn guarded(&self) -> bool {
        self.cfg.profile == Profile::Guarded
    }

    fn lit_nonempty(&mut self) -> String {
        if self.cfg.long_literals_pct > 0 && self.rng.chance(self.cfg.long_literals_pct, 100) {
            const LONG: &[&str] = &[
                "<!-- generated section → do not edit -->",
                "abcdefghijklmnopqrstuvw→xyz",
                "0123456789012345678901éé0123",
                "aaaaaaaaaaaaaaaaaaaaaaa🎈bbbb",
                "the quick brown fox jumps over the lazy dog",
                "ééééééééééééééééééééééééé",
            ];
            let l = self.rng.pick(LONG).to_string();
            if self.rng.chance(1, 2) {
                // a prefix of a long literal: several literals of one grammar then share long prefixes
                let n_chars = l.chars().count();
                let keep = 4 + self.rng.below(n_chars - 3);
                return l.chars().take(keep).collect();
            }
            return l;
        }
        if self.cfg.wide_literals && self.rng.chance(1, 2) {
            return self.wide_string(1);
        }
        self.rng.pick(LITS).to_string()
    }

    fn wide_char(&mut self) -> char {
        match self.rng.below(12) {
            0 => '"',
            1 => '\'',
            2 => '\\',
            3 => '\n',
            4 => '\r',
            5 => '\t',
            6 => '\0',
            7 => char::from_u32(0x80 + self.rng.below(0x80) as u32).unwrap(),
            8 => *self.rng.pick(&['é', '€', '嗨', '🎈', '\u{10FFFF}', '\u{7f}', '\u{1}', '\u{D7FF}', '\u{E000}']),
            9 => '/',
            10 => '*',
            _ => (b'a' + self.rng.below(26) as u8) as char,
        }
    }

    fn wide_string(&mut self, min: usize) -> String {
        let n = min + self.rng.below(4);
        (0..n).map(|_| self.wide_char()).collect()
    }

    fn terminal_consuming(&mut self) -> Expr {
        match self.rng.weighted(&[50, 10, 15, 25]) {
            0 => Expr::Str(self.lit_nonempty()),
            1 => Expr::Insens(self.lit_nonempty()),
            2 => {
                if self.cfg.wide_literals {
                    let a = self.wide_char();
                    let b = self.wide_char();
                    Expr::Range(a.to_string(), b.to_string())
                } else {
                    let (a, b) = *self.rng.pick(&[("a", "c"), ("a", "z"), ("b", "b"), ("0", "9"), ("c", "a"), ("à", "ÿ"), ("\u{0}", "\u{10FFFF}"), (" ", "~")]);
                    Expr::Range(a.into(), b.into())
                }
            }
            _ => Expr::Ident(self.rng.pick(BUILTIN_CHARS).to_string()),
        }
    }

    fn tag(&mut self, e: Expr) -> Expr {
        #[cfg(feature = "grammar-extras")]
        {
            if self.cfg.extras && self.rng.chance(1, 12) && self.taggable(&e) {
                self.tag_n += 1;
                let t = format!("t{}", self.tag_n % 3);
                return Expr::NodeTag(Box::new(e), t);
            }
        }
        e
    }

    /// The validator rejects tags that can never show up: on built-in rules and on silent rules
    /// (looking through postfix/prefix operators and PUSH).
    #[allow(dead_code)]
    fn taggable(&self, e: &Expr) -> bool {
        match e {
            Expr::Ident(n) => match self.names.iter().position(|x| x == n) {
                Some(j) => self.tys[j] != RuleType::Silent,
                None => match &self.stack_rule {
                    Some((sn, ty)) if sn == n => *ty != RuleType::Silent,
                    _ => false,
                },
            },
            Expr::Rep(i)
            | Expr::RepOnce(i)
            | Expr::RepExact(i, _)
            | Expr::RepMin(i, _)
            | Expr::RepMax(i, _)
            | Expr::RepMinMax(i, _, _)
            | Expr::Opt(i)
            | Expr::Push(i)
            | Expr::PosPred(i)
            | Expr::NegPred(i) => self.taggable(i),
            _ => true,
        }
    }

    /// `lm`: no terminal has been consumed yet on this path since the rule began.
    fn gen(&mut self, d: usize, lm: bool, need: Need) -> Expr {
        let e = self.gen_inner(d, lm, need);
        self.tag(e)
    }

    fn user_ref(&mut self, lm: bool, need: Need) -> Option<Expr> {
        // candidates: user rules (not the skip rules unless explicitly, rarely)
        let n = self.names.len();
        let mut cands = vec![];
        for j in 0..n {
            let is_skip = self.names[j] == "WHITESPACE" || self.names[j] == "COMMENT";
            if is_skip && !self.rng.chance(1, 10) {
                continue;
            }
            if need == Need::Consume && (self.guarded() || !self.consuming[j]) {
                continue;
            }
            if need == Need::CanFail && !self.consuming[j] {
                continue;
            }
            if lm && j <= self.cur && !self.rng.chance(self.cfg.wild_left_refs_pct, 100) {
                continue;
            }
            if is_skip && lm {
                continue;
            }
            cands.push(j);
        }
        if cands.is_empty() {
            None
        } else {
            Some(Expr::Ident(self.names[*self.rng.pick(&cands)].clone()))
        }
    }

    fn gen_inner(&mut self, d: usize, lm: bool, need: Need) -> Expr {
        if d == 0 {
            return self.leaf(lm, need);
        }
        if self.rng.chance(self.cfg.shapes_pct, 100) {
            if let Some(e) = self.shape(d, lm, need) {
                return e;
            }
        }
        // weights: leaf, seq, choice, opt, rep, rep_once, counted, pospred, negpred, push, ident
        let w: [u32; 11] = match need {
            Need::Free => [10, 25, 15, 10, 10, 5, 8, 4, 6, 5, 10],
            Need::CanFail => [10, 25, 15, 0, 0, 5, 5, 5, 8, 5, 10],
            Need::Consume => [15, 30, 15, 0, 0, 8, 6, 0, 0, 5, 10],
        };
        match self.rng.weighted(&w) {
            0 => self.leaf(lm, need),
            1 => {
                // sequence
                let (na, nb) = match need {
                    Need::Free => (self.any_need(), self.any_need()),
                    Need::CanFail => {
                        if self.rng.chance(1, 2) {
                            (Need::CanFail, self.any_need())
                        } else {
                            (self.any_need(), Need::CanFail)
                        }
                    }
                    // "begins by": the first element carries it
                    Need::Consume => (Need::Consume, self.any_need()),
                };
                let a = self.gen(d - 1, lm, na);
                let b = self.gen(d - 1, lm && na != Need::Consume, nb);
                if self.rng.chance(1, 2) {
                    Expr::Seq(Box::new(a), Box::new(b))
                } else {
                    // left-nested variant for the rotator / associativity
                    match b {
                        Expr::Seq(b1, b2) => Expr::Seq(Box::new(Expr::Seq(Box::new(a), b1)), b2),
                        b => Expr::Seq(Box::new(a), Box::new(b)),
                    }
                }
            }
            2 => {
                let first_need = if self.guarded() || self.rng.chance(3, 4) { Need::Consume } else { Need::CanFail };
                let a = self.gen(d - 1, lm, first_need);
                let nb = match need {
                    Need::Consume => Need::Consume,
                    Need::CanFail => Need::CanFail,
                    Need::Free => self.any_need(),
                };
                let b = self.gen(d - 1, lm, nb);
                if self.rng.chance(1, 2) {
                    Expr::Choice(Box::new(a), Box::new(b))
                } else {
                    match b {
                        Expr::Choice(b1, b2) => Expr::Choice(Box::new(Expr::Choice(Box::new(a), b1)), b2),
                        b => Expr::Choice(Box::new(a), Box::new(b)),
                    }
                }
            }
            3 => {
                let n = self.any_need();
                Expr::Opt(Box::new(self.gen(d - 1, lm, n)))
            }
            4 => Expr::Rep(Box::new(self.gen(d - 1, lm, Need::Consume))),
            5 => Expr::RepOnce(Box::new(self.gen(d - 1, lm, Need::Consume))),
            6 => {
                let maxc = self.cfg.max_count.max(1);
                let k = self.rng.below(4);
                match (k, need) {
                    (0, _) => {
                        let nn = if need == Need::Free { self.any_need() } else { need };
                        let inner = self.gen(d - 1, lm, nn);
                        Expr::RepExact(Box::new(inner), 1 + self.rng.below(maxc as usize) as u32)
                    }
                    (1, Need::Free) => {
                        let inner = self.gen(d - 1, lm, Need::Consume);
                        Expr::RepMin(Box::new(inner), self.rng.below(maxc as usize + 1) as u32)
                    }
                    (1, _) => {
                        let inner = self.gen(d - 1, lm, Need::Consume);
                        Expr::RepMin(Box::new(inner), 1 + self.rng.below(maxc as usize) as u32)
                    }
                    (2, Need::Free) => {
                        let n = self.any_need();
                        let inner = self.gen(d - 1, lm, n);
                        Expr::RepMax(Box::new(inner), 1 + self.rng.below(maxc as usize) as u32)
                    }
                    (_, _) => {
                        let inner_need = if need == Need::Free { self.any_need() } else { need };
                        let inner = self.gen(d - 1, lm, inner_need);
                        let hi = 1 + self.rng.below(maxc as usize) as u32;
                        let lo = if need == Need::Free { self.rng.below(hi as usize + 1) as u32 } else { 1 + self.rng.below(hi as usize) as u32 };
                        Expr::RepMinMax(Box::new(inner), lo, hi)
                    }
                }
            }
            7 => {
                let n = if need == Need::Free { self.any_need() } else { Need::CanFail };
                Expr::PosPred(Box::new(self.gen(d - 1, lm, n)))
            }
            8 => {
                let n = self.any_need();
                Expr::NegPred(Box::new(self.gen(d - 1, lm, n)))
            }
            9 => {
                if self.stack_ok() {
                    {
                        let inner = self.gen(d - 1, lm, need);
                        self.mk_push(inner)
                    }
                } else {
                    self.leaf(lm, need)
                }
            }
            _ => match self.user_ref(lm, need) {
                Some(e) => e,
                None => self.leaf(lm, need),
            },
        }
    }

    fn any_need(&mut self) -> Need {
        match self.rng.weighted(&[30, 20, 50]) {
            0 => Need::Free,
            1 => Need::CanFail,
            _ => Need::Consume,
        }
    }

    fn leaf(&mut self, lm: bool, need: Need) -> Expr {
        match need {
            Need::Consume => {
                if !self.guarded() && self.rng.chance(1, 5) {
                    if let Some(e) = self.user_ref(lm, need) {
                        return e;
                    }
                }
                self.terminal_consuming()
            }
            Need::CanFail | Need::Free => {
                let w: [u32; 8] = if need == Need::Free { [40, 8, 6, 6, 15, 15, 6, 4] } else { [50, 0, 8, 8, 15, 19, 0, 0] };
                match self.rng.weighted(&w) {
                    0 => self.terminal_consuming(),
                    1 => Expr::Str(String::new()),
                    2 => Expr::Ident("SOI".into()),
                    3 => Expr::Ident("EOI".into()),
                    4 => match self.user_ref(lm, need) {
                        Some(e) => e,
                        None => self.terminal_consuming(),
                    },
                    5 => {
                        if self.stack_ok() {
                            self.stack_leaf()
                        } else {
                            self.terminal_consuming()
                        }
                    }
                    6 => Expr::Insens(String::new()),
                    _ => {
                        #[cfg(feature = "grammar-extras")]
                        {
                            if self.cfg.extras && self.stack_ok() {
                                return Expr::PushLiteral(self.rng.pick(&["a", "", "ab", "é"]).to_string());
                            }
                        }
                        self.terminal_consuming()
                    }
                }
            }
        }
    }

    fn stack_leaf(&mut self) -> Expr {
        match self.rng.weighted(&[25, 25, 12, 10, 10, 18]) {
            0 => Expr::Ident("POP".into()),
            1 => Expr::Ident("PEEK".into()),
            2 => Expr::Ident("DROP".into()),
            3 => Expr::Ident("PEEK_ALL".into()),
            4 => Expr::Ident("POP_ALL".into()),
            _ => {
                if self.cfg.wide_literals && self.rng.chance(1, 5) {
                    // the ends of the index type (only where grammars are read, not run)
                    const EDGE: [i32; 8] = [i32::MIN, i32::MIN + 1, i32::MAX, i32::MAX - 1, 0, -1, 65_536, -1_000_000];
                    let a = *self.rng.pick(&EDGE);
                    let b = if self.rng.chance(1, 3) { None } else { Some(*self.rng.pick(&EDGE)) };
                    return Expr::PeekSlice(a, b);
                }
                let a = self.rng.range(-3, 3) as i32;
                let b = if self.rng.chance(1, 3) { None } else { Some(self.rng.range(-3, 4) as i32) };
                Expr::PeekSlice(a, b)
            }
        }
    }

    /// Shapes the optimizer passes look for (and the restorer's job).
    fn shape(&mut self, d: usize, lm: bool, need: Need) -> Option<Expr> {
        if self.cfg.big_choices_pct > 0 && self.rng.chance(self.cfg.big_choices_pct, 100) {
            // a tokenizer-style keyword list: many literal alternatives tried at one position
            let n = 28 + self.rng.below(21);
            let cs = ['a', 'b', 'c', 'x', 'é', '-', '1'];
            let mut e: Option<Expr> = None;
            let off = self.rng.below(49);
            for i in 0..n {
                let j = (i + off) % 49;
                let lit = format!("{}{}", cs[j / 7], cs[j % 7]);
                let s = Expr::Str(lit);
                e = Some(match e {
                    None => s,
                    Some(p) => Expr::Choice(Box::new(p), Box::new(s)),
                });
            }
            let list = e.unwrap();
            // followed by a few more alternatives that try further tokens at the same position
            let tail = self.gen(d.saturating_sub(2), lm, if need == Need::Free { Need::CanFail } else { need });
            return Some(Expr::Choice(Box::new(list), Box::new(tail)));
        }
        if self.cfg.negpred_pct > 0 && self.rng.chance(self.cfg.negpred_pct, 100) {
            // alternatives that each begin by excluding a (non-silent) rule: several rules match under
            // negation at one position, some of them more than once
            let n = 2 + self.rng.below(4);
            let mut alts: Vec<Expr> = vec![];
            let pool: Vec<String> = self.names.iter().filter(|x| *x != "WHITESPACE" && *x != "COMMENT").cloned().collect();
            for _ in 0..n {
                let mut e = self.gen(d.saturating_sub(2), false, Need::Consume);
                for _ in 0..1 + self.rng.below(2) {
                    let r = self.rng.pick(&pool).clone();
                    let idx = self.names.iter().position(|x| *x == r).unwrap_or(0);
                    if lm && idx <= self.cur {
                        // keep leftmost references acyclic: exclude a literal instead
                        e = Expr::Seq(Box::new(Expr::NegPred(Box::new(Expr::Str(self.lit_nonempty())))), Box::new(e));
                    } else {
                        e = Expr::Seq(Box::new(Expr::NegPred(Box::new(Expr::Ident(r)))), Box::new(e));
                    }
                }
                alts.push(e);
            }
            let mut it = alts.into_iter();
            let mut ch = it.next().unwrap();
            for a in it {
                ch = Expr::Choice(Box::new(ch), Box::new(a));
            }
            let _ = need;
            return Some(ch);
        }
        if self.cfg.prefix_family_pct > 0 && self.rng.chance(self.cfg.prefix_family_pct, 100) {
            const BASES: &[&str] = &["abcdefghijklmnop", "aaaaaaaaaaaaaaaa", "abababababababab", "keyword_or_identifier", "éaéaéaéaéaéa", "a🎈b🎈c🎈d🎈e🎈"];
            let base: Vec<char> = self.rng.pick(BASES).chars().collect();
            let n = 2 + self.rng.below(4);
            let mut alts: Vec<Expr> = vec![];
            for _ in 0..n {
                let len = 1 + self.rng.below(base.len());
                let pre: String = base[..len].iter().collect();
                let lit = if self.rng.chance(1, 5) { Expr::Insens(pre) } else { Expr::Str(pre) };
                let short: String = base[..1 + self.rng.below(3)].iter().collect();
                alts.push(match self.rng.below(5) {
                    // the prefix, then something that is not what follows in the base string
                    0 | 1 => Expr::Seq(Box::new(lit), Box::new(Expr::Str((*self.rng.pick(&["X", "-", "é", "zz"])).to_string()))),
                    // not this (longer) prefix, then a short piece
                    2 => Expr::Seq(Box::new(Expr::NegPred(Box::new(lit))), Box::new(Expr::Str(short))),
                    // only if this prefix is there, a short piece
                    3 => Expr::Seq(Box::new(Expr::PosPred(Box::new(lit))), Box::new(Expr::Str(short))),
                    _ => lit,
                });
            }
            let mut it = alts.into_iter();
            let mut ch = it.next().unwrap();
            for a in it {
                ch = Expr::Choice(Box::new(ch), Box::new(a));
            }
            let _ = need;
            return Some(ch);
        }
        if self.cfg.skipper_pct > 0 && need == Need::Free && self.rng.chance(self.cfg.skipper_pct, 100) {
            let n = 3 + self.rng.below(5);
            let mut needles: Vec<String> = vec![];
            for _ in 0..n {
                let s = if !needles.is_empty() && self.rng.chance(1, 2) {
                    // derived from an earlier stop string: it then contains that one
                    let base = self.rng.pick(&needles).clone();
                    match self.rng.below(4) {
                        0 => format!("{}{}", self.lit_nonempty(), base),
                        1 => format!("{}{}", base, self.lit_nonempty()),
                        2 => format!("{}{}{}", self.lit_nonempty(), base, self.lit_nonempty()),
                        _ => base,
                    }
                } else {
                    self.lit_nonempty()
                };
                needles.push(s);
            }
            let mut it = needles.into_iter().map(Expr::Str);
            let mut ch = it.next().unwrap();
            for nx in it {
                ch = Expr::Choice(Box::new(ch), Box::new(nx));
            }
            if self.rng.chance(1, 5) && self.needle_rule.is_some() && self.needle_rule != Some(self.cur) && !(lm && self.needle_rule.unwrap() <= self.cur) {
                ch = Expr::Choice(Box::new(Expr::Ident(self.names[self.needle_rule.unwrap()].clone())), Box::new(ch));
            }
            return Some(Expr::Rep(Box::new(Expr::Seq(Box::new(Expr::NegPred(Box::new(ch))), Box::new(Expr::Ident("ANY".into()))))));
        }
        let k = if self.cfg.restorer_pct > 0 && self.stack_ok() && self.rng.chance(self.cfg.restorer_pct, 100) { 5 } else { self.rng.below(9) };
        match k {
            8 => {
                // the "peek, then scan" idiom: `&first ~ (!stop ~ ANY)+` (progress made by ANY only,
                // after a lookahead that matched a token further on)
                let first = self.terminal_consuming();
                let stop = Expr::Str(self.lit_nonempty());
                let scan = Expr::Seq(Box::new(Expr::NegPred(Box::new(stop))), Box::new(Expr::Ident("ANY".into())));
                let body = if self.rng.chance(1, 2) { Expr::RepOnce(Box::new(scan)) } else { Expr::Rep(Box::new(scan)) };
                let e = Expr::Seq(Box::new(Expr::PosPred(Box::new(first))), Box::new(body));
                match need {
                    Need::Consume => None,
                    _ => Some(if self.rng.chance(1, 3) { Expr::Seq(Box::new(e), Box::new(Expr::Ident("EOI".into()))) } else { e }),
                }
            }
            0 => {
                // skipper: (!(needles) ~ ANY)*  -- only rewritten in atomic rules
                if need != Need::Free {
                    return None;
                }
                let nn = if self.rng.chance(1, 6) { 5 + self.rng.below(3) } else { 1 + self.rng.below(4) };
                let mut needles: Vec<Expr> = vec![];
                for _ in 0..nn {
                    if self.rng.chance(1, 6) && self.needle_rule.is_some() && self.needle_rule != Some(self.cur) && !(lm && self.needle_rule.unwrap() <= self.cur) {
                        needles.push(Expr::Ident(self.names[self.needle_rule.unwrap()].clone()));
                    } else if self.rng.chance(1, 7) {
                        // a built-in as needle (the skipper may inline rules, not built-ins)
                        needles.push(Expr::Ident(self.rng.pick(&["NEWLINE", "ASCII_DIGIT", "NEWLINE"]).to_string()));
                    } else if !self.guarded() && self.rng.chance(1, 8) {
                        needles.push(Expr::Str(String::new()));
                    } else {
                        needles.push(Expr::Str(self.lit_nonempty()));
                    }
                }
                // non-final empty-string needles are rejected by the validator; keep them last mostly
                let mut it = needles.into_iter();
                let mut ch = it.next().unwrap();
                for nx in it {
                    ch = Expr::Choice(Box::new(ch), Box::new(nx));
                }
                Some(Expr::Rep(Box::new(Expr::Seq(
                    Box::new(Expr::NegPred(Box::new(ch))),
                    Box::new(Expr::Ident("ANY".into())),
                ))))
            }
            1 => {
                // concatenator: adjacent literals (left- or right-nested)
                let n = 2 + self.rng.below(3);
                let insens = self.rng.chance(1, 4);
                let mut items = vec![];
                for i in 0..n {
                    let s = if i > 0 && self.rng.chance(1, 8) { String::new() } else { self.lit_nonempty() };
                    items.push(if insens { Expr::Insens(s) } else { Expr::Str(s) });
                }
                if self.rng.chance(1, 2) {
                    let mut it = items.into_iter();
                    let mut e = it.next().unwrap();
                    for nx in it {
                        e = Expr::Seq(Box::new(e), Box::new(nx));
                    }
                    Some(e)
                } else {
                    let mut it = items.into_iter().rev();
                    let mut e = it.next().unwrap();
                    for nx in it {
                        e = Expr::Seq(Box::new(nx), Box::new(e));
                    }
                    Some(e)
                }
            }
            2 | 3 => {
                // factorizer: (x ~ y) | (x ~ z),  (x ~ y) | x,  x | (x ~ y)
                let x = self.gen(d.saturating_sub(2), lm, Need::Consume);
                let y = {
                    let n = self.any_need();
                    self.gen(d.saturating_sub(2), false, n)
                };
                let z = {
                    let n = if need == Need::Free { self.any_need() } else { Need::CanFail };
                    self.gen(d.saturating_sub(2), false, n)
                };
                let xy = Expr::Seq(Box::new(x.clone()), Box::new(y));
                Some(match self.rng.below(3) {
                    0 => Expr::Choice(Box::new(xy), Box::new(Expr::Seq(Box::new(x), Box::new(z)))),
                    1 => Expr::Choice(Box::new(xy), Box::new(x)),
                    _ => Expr::Choice(Box::new(x), Box::new(xy)),
                })
            }
            4 => {
                // lister: (x ~ y)* ~ x
                if need == Need::Consume {
                    return None;
                }
                let x = self.gen(d.saturating_sub(2), lm, Need::Consume);
                let n = self.any_need();
                let y = self.gen(d.saturating_sub(2), false, n);
                Some(Expr::Seq(
                    Box::new(Expr::Rep(Box::new(Expr::Seq(Box::new(x.clone()), Box::new(y))))),
                    Box::new(x),
                ))
            }
            5 | 6 => {
                // restorer: branching over stack-mutating children
                if !self.stack_ok() {
                    return None;
                }
                let pushes = 1 + self.rng.below(3);
                let mut e: Option<Expr> = None;
                for _ in 0..pushes {
                    let inner = self.gen(0, lm && e.is_none(), Need::Consume);
                    let p = self.mk_push(inner);
                    e = Some(match e {
                        None => p,
                        Some(prev) => Expr::Seq(Box::new(prev), Box::new(p)),
                    });
                }
                let mutating = |g: &mut G| -> Expr {
                    if let Some((name, ty)) = g.stack_rule.clone() {
                        if g.rng.chance(1, 2) {
                            let r = Expr::Ident(name);
                            #[cfg(feature = "grammar-extras")]
                            {
                                if g.cfg.extras && ty != RuleType::Silent && g.rng.chance(1, 2) {
                                    return Expr::NodeTag(Box::new(r), "ts".into());
                                }
                            }
                            let _ = ty;
                            return r;
                        }
                    }
                    let m = match g.rng.below(10) {
                        8 => {
                            // a PUSH whose body pops first and may then fail: nothing but the wrapper the
                            // optimizer puts around it brings the popped entry back
                            let pop = Expr::Ident((*g.rng.pick(&["POP", "POP", "POP_ALL", "DROP"])).into());
                            let inner = if g.rng.chance(1, 2) { pop } else { Expr::Seq(Box::new(pop), Box::new(g.terminal_consuming())) };
                            g.mk_push(inner)
                        }
                        9 => {
                            let r = match g.stack_rule.clone() {
                                Some((name, _)) => Expr::Ident(name),
                                None => Expr::Ident("POP".into()),
                            };
                            g.mk_push(r)
                        }
                        6 => {
                            // a branching operator over a bare POP *inside* a PUSH
                            let t = g.terminal_consuming();
                            let inner = if g.rng.chance(1, 2) {
                                Expr::Choice(Box::new(Expr::Ident("POP".into())), Box::new(t))
                            } else {
                                Expr::Seq(Box::new(Expr::Opt(Box::new(Expr::Ident("POP".into())))), Box::new(t))
                            };
                            g.mk_push(inner)
                        }
                        7 => {
                            // two branching uses of the same popping rule in one body
                            let r = match g.stack_rule.clone() {
                                Some((name, _)) => Expr::Ident(name),
                                None => Expr::Ident("POP".into()),
                            };
                            let t1 = g.terminal_consuming();
                            let t2 = g.terminal_consuming();
                            Expr::Seq(
                                Box::new(Expr::Choice(Box::new(r.clone()), Box::new(t1))),
                                Box::new(Expr::Choice(Box::new(r), Box::new(t2))),
                            )
                        }
                        0 => Expr::Ident("POP".into()),
                        1 => Expr::Ident("DROP".into()),
                        2 => Expr::Ident("POP_ALL".into()),
                        3 => {
                            let t = g.terminal_consuming();
                            g.mk_push(t)
                        }
                        4 => Expr::Seq(Box::new(Expr::Ident("DROP".into())), Box::new(Expr::Ident("DROP".into()))),
                        _ => Expr::Seq(Box::new(Expr::Ident("POP".into())), Box::new(Expr::Ident("POP".into()))),
                    };
                    // then something that may fail afterwards, so the mutation must be undone
                    if g.rng.chance(1, 3) {
                        // directly under the branching operator, no sequence in between
                        return m;
                    }
                    let tail = g.terminal_consuming();
                    if g.rng.chance(2, 3) {
                        Expr::Seq(Box::new(m), Box::new(tail))
                    } else {
                        Expr::Seq(Box::new(tail), Box::new(m))
                    }
                };
                let branch = match self.rng.below(7) {
                    4 | 5 => {
                        // multi-entry peeks that may match a prefix of the entries and then fail
                        let peek = match self.rng.below(4) {
                            0 => Expr::Ident("PEEK_ALL".into()),
                            1 => Expr::PeekSlice(0, None),
                            2 => Expr::PeekSlice(-2, None),
                            _ => Expr::PeekSlice(0, Some(-1)),
                        };
                        let first = if self.rng.chance(1, 2) { peek } else { Expr::Seq(Box::new(peek), Box::new(self.terminal_consuming())) };
                        let alt = self.terminal_consuming();
                        match self.rng.below(3) {
                            0 => Expr::Choice(Box::new(first), Box::new(alt)),
                            1 => Expr::Seq(Box::new(Expr::Opt(Box::new(first))), Box::new(alt)),
                            _ => Expr::Seq(Box::new(Expr::Rep(Box::new(Expr::Seq(Box::new(self.terminal_consuming()), Box::new(first))))), Box::new(alt)),
                        }
                    }
                    6 => {
                        let a = mutating(self);
                        let b = Expr::Ident("PEEK_ALL".into());
                        Expr::Choice(Box::new(b), Box::new(a))
                    }
                    0 => {
                        let a = mutating(self);
                        let b = mutating(self);
                        Expr::Choice(Box::new(a), Box::new(b))
                    }
                    1 => Expr::Opt(Box::new(mutating(self))),
                    2 => Expr::Rep(Box::new(mutating(self))),
                    _ => {
                        let a = mutating(self);
                        let b = self.stack_leaf();
                        Expr::Choice(Box::new(a), Box::new(b))
                    }
                };
                let mut e = Expr::Seq(Box::new(e.unwrap()), Box::new(branch));
                if self.rng.chance(1, 2) {
                    let t = self.stack_leaf();
                    e = Expr::Seq(Box::new(e), Box::new(t));
                }
                if self.rng.chance(1, 6) {
                    // the stack-clearing idiom: a repetition that consumes the stack, not the input
                    let t = self.stack_leaf();
                    e = Expr::Seq(Box::new(Expr::Seq(Box::new(e), Box::new(Expr::Rep(Box::new(Expr::Ident("DROP".into())))))), Box::new(Expr::Opt(Box::new(t))));
                }
                Some(e)
            }
            _ => {
                // PUSH ... POP pairing (indentation-style matching)
                if !self.stack_ok() {
                    return None;
                }
                let inner = self.gen(d.saturating_sub(2), lm, Need::Consume);
                let mid = {
                    let n = self.any_need();
                    self.gen(d.saturating_sub(2), false, n)
                };
                let tail = match self.rng.below(3) {
                    0 => Expr::Ident("POP".into()),
                    1 => Expr::Ident("PEEK".into()),
                    _ => Expr::Seq(Box::new(Expr::Ident("PEEK".into())), Box::new(Expr::Ident("DROP".into()))),
                };
                let pushed = self.mk_push(inner);
                Some(Expr::Seq(Box::new(pushed), Box::new(Expr::Seq(Box::new(mid), Box::new(tail)))))
            }
        }
    }
}

/// The literal characters a grammar mentions (for building input alphabets).
pub fn alphabet_of(rules: &[Rule]) -> Vec<char> {
    let mut set = std::collections::BTreeSet::new();
    fn walk(e: &Expr, set: &mut std::collections::BTreeSet<char>) {
        match e {
            Expr::Str(s) | Expr::Insens(s) => {
                for c in s.chars() {
                    set.insert(c);
                    if matches!(e, Expr::Insens(_)) && !c.is_ascii() {
                        // the documentation says ASCII-only folding: offer the Unicode case variants as inputs
                        for v in c.to_uppercase().chain(c.to_lowercase()) {
                            set.insert(v);
                        }
                        if c == 'k' || c == 'K' {
                            set.insert('\u{212A}');
                        }
                    }
                    if c.is_ascii_alphabetic() {
                        set.insert(if c.is_ascii_lowercase() { c.to_ascii_uppercase() } else { c.to_ascii_lowercase() });
                    }
                }
            }
            Expr::Range(a, b) => {
                for s in [a, b] {
                    if let Some(c) = s.chars().next() {
                        if (c as u32) >= 0x20 && (c as u32) < 0x3000 {
                            set.insert(c);
                        }
                    }
                }
            }
            Expr::Ident(n) => match n.as_str() {
                "ASCII_DIGIT" | "ASCII_NONZERO_DIGIT" | "NUMBER" | "ASCII_ALPHANUMERIC" | "ASCII_HEX_DIGIT" | "ASCII_OCT_DIGIT" => {
                    set.insert('1');
                }
                "ASCII_BIN_DIGIT" => {
                    set.insert('0');
                }
                "NEWLINE" => {
                    set.insert('\n');
                    set.insert('\r');
                }
                "ASCII_ALPHA_UPPER" | "UPPERCASE_LETTER" => {
                    set.insert('A');
                }
                "PUNCTUATION" => {
                    set.insert('-');
                }
                "WHITE_SPACE" => {
                    set.insert(' ');
                }
                "HAN" => {
                    set.insert('嗨');
                }
                _ => {}
            },
            Expr::PosPred(i)
            | Expr::NegPred(i)
            | Expr::Opt(i)
            | Expr::Rep(i)
            | Expr::RepOnce(i)
            | Expr::RepExact(i, _)
            | Expr::RepMin(i, _)
            | Expr::RepMax(i, _)
            | Expr::RepMinMax(i, _, _)
            | Expr::Push(i) => walk(i, set),
            #[cfg(feature = "grammar-extras")]
            Expr::NodeTag(i, _) => walk(i, set),
            #[cfg(feature = "grammar-extras")]
            Expr::PushLiteral(s) => {
                for c in s.chars() {
                    set.insert(c);
                }
            }
            Expr::Seq(a, b) | Expr::Choice(a, b) => {
                walk(a, set);
                walk(b, set);
            }
            Expr::Skip(v) => {
                for s in v {
                    for c in s.chars() {
                        set.insert(c);
                    }
                }
            }
            Expr::PeekSlice(..) => {}
        }
    }
    for r in rules {
        walk(&r.expr, &mut set);
    }
    set.into_iter().collect()
}
