//! vmon: the shared library of the pest runtime monitors.
pub mod c02;
pub mod errcheck;
pub mod gen;
pub mod inputs;
pub mod model;
pub mod pestrun;
pub mod print;
pub mod reference;
pub mod rng;
pub mod shard;
pub mod textgen;
