//! Shard-process plumbing: arguments, counters, distinct-case accounting, samples, findings,
//! the per-shard journal and the JSON report the driver merges.

use serde_json::{json, Map, Value};
use std::collections::{BTreeMap, HashSet};
use std::io::Write;
use std::path::PathBuf;
use std::time::Instant;

#[derive(Clone, Debug)]
pub struct Args {
    pub prop: String,
    pub shard: u64,
    pub nshards: u64,
    pub seed: u64,
    pub thorough: bool,
    pub out: Option<PathBuf>,
    pub journal: Option<PathBuf>,
    pub replay: Option<PathBuf>,
    pub known: Option<PathBuf>,
    pub max_s: f64,
    pub scale: f64,
    pub opts: BTreeMap<String, String>,
}

impl Args {
    pub fn parse(argv: &[String]) -> Args {
        let mut a = Args {
            prop: argv.get(1).cloned().unwrap_or_default(),
            shard: 0,
            nshards: 1,
            seed: 1,
            thorough: false,
            out: None,
            journal: None,
            replay: None,
            known: None,
            max_s: 1e9,
            scale: 1.0,
            opts: BTreeMap::new(),
        };
        let mut i = 2;
        while i < argv.len() {
            let k = argv[i].as_str();
            let v = argv.get(i + 1).cloned().unwrap_or_default();
            match k {
                "--shard" => a.shard = v.parse().unwrap(),
                "--nshards" => a.nshards = v.parse().unwrap(),
                "--seed" => a.seed = v.parse().unwrap(),
                "--tier" => a.thorough = v == "thorough",
                "--out" => a.out = Some(PathBuf::from(v)),
                "--journal" => a.journal = Some(PathBuf::from(v)),
                "--replay" => a.replay = Some(PathBuf::from(v)),
                "--known" => a.known = Some(PathBuf::from(v)),
                "--max-s" => a.max_s = v.parse().unwrap(),
                "--scale" => a.scale = v.parse().unwrap(),
                other => {
                    a.opts.insert(other.trim_start_matches("--").to_string(), v);
                }
            }
            i += 2;
        }
        a
    }

    /// Number of cases for this shard given per-tier totals.
    pub fn budget(&self, quick_total: u64, thorough_total: u64) -> u64 {
        let t = if self.thorough { thorough_total } else { quick_total };
        (((t as f64) * self.scale) as u64 / self.nshards.max(1)).max(1)
    }

    pub fn opt(&self, k: &str) -> Option<&str> {
        self.opts.get(k).map(|s| s.as_str())
    }
}

/// Entries of /verif/known_findings.jsonl.
#[derive(Clone, Debug)]
pub struct KnownEntry {
    pub property: String,
    pub key: String,
    pub status: String,
    pub witness: Value,
    pub what: String,
}

pub fn load_known(path: &Option<PathBuf>, prop: &str) -> Vec<KnownEntry> {
    let mut out = vec![];
    if let Some(p) = path {
        if let Ok(txt) = std::fs::read_to_string(p) {
            for line in txt.lines() {
                let line = line.trim();
                if line.is_empty() || line.starts_with('#') {
                    continue;
                }
                if let Ok(v) = serde_json::from_str::<Value>(line) {
                    let props: Vec<String> = match &v["property"] {
                        Value::String(s) => vec![s.clone()],
                        Value::Array(a) => a.iter().filter_map(|x| x.as_str().map(|s| s.to_string())).collect(),
                        _ => vec![],
                    };
                    if props.iter().any(|p| p == prop) {
                        out.push(KnownEntry {
                            property: prop.to_string(),
                            key: v["key"].as_str().unwrap_or("").to_string(),
                            status: v["status"].as_str().unwrap_or("").to_string(),
                            witness: v["witness"].clone(),
                            what: v["what"].as_str().unwrap_or("").to_string(),
                        });
                    }
                }
            }
        }
    }
    out
}

pub struct Report {
    pub prop: String,
    pub start: Instant,
    pub counters: BTreeMap<String, u64>,
    pub distinct: HashSet<u64>,
    pub distinct_cap: usize,
    pub distinct_capped: bool,
    pub signatures: HashSet<u64>,
    pub samples: Vec<Value>,
    pub violations: Vec<Value>,
    pub known: Vec<Value>,
    pub inconclusive: Vec<Value>,
    pub notes: Map<String, Value>,
    journal: Option<std::fs::File>,
}

impl Report {
    pub fn new(args: &Args) -> Report {
        let journal = args.journal.as_ref().and_then(|p| std::fs::File::create(p).ok());
        Report {
            prop: args.prop.clone(),
            start: Instant::now(),
            counters: BTreeMap::new(),
            distinct: HashSet::new(),
            distinct_cap: 100_000,
            distinct_capped: false,
            signatures: HashSet::new(),
            samples: vec![],
            violations: vec![],
            known: vec![],
            inconclusive: vec![],
            notes: Map::new(),
            journal,
        }
    }

    pub fn elapsed(&self) -> f64 {
        self.start.elapsed().as_secs_f64()
    }

    pub fn count(&mut self, k: &str) {
        *self.counters.entry(k.to_string()).or_insert(0) += 1;
    }

    pub fn add(&mut self, k: &str, n: u64) {
        *self.counters.entry(k.to_string()).or_insert(0) += n;
    }

    /// Counts operator-coverage bits under `prefix`.
    pub fn count_bits(&mut self, prefix: &str, bits: u32, names: &[&str]) {
        for (i, n) in names.iter().enumerate() {
            if bits & (1 << i) != 0 {
                self.count(&format!("{prefix}{n}"));
            }
        }
    }

    /// Registers one non-trivial case by the hash of its full content.
    pub fn nontrivial(&mut self, case_hash: u64, signature: u64) {
        if self.distinct.len() < self.distinct_cap {
            self.distinct.insert(case_hash);
        } else {
            self.distinct_capped = true;
        }
        self.signatures.insert(signature);
    }

    pub fn sample(&mut self, v: impl FnOnce() -> Value) {
        if self.samples.len() < 4 {
            self.samples.push(v());
        }
    }

    /// Like `sample`, but spreads: keeps a case when `slot` (a small number) is not yet taken.
    pub fn sample_slot(&mut self, slot: &str, v: impl FnOnce() -> Value) {
        if self.samples.len() < 12 && !self.samples.iter().any(|s| s["slot"] == slot) {
            let mut val = v();
            if let Value::Object(m) = &mut val {
                m.insert("slot".into(), json!(slot));
            }
            self.samples.push(val);
        }
    }

    pub fn violation(&mut self, v: Value) {
        if self.violations.len() < 50 {
            self.violations.push(v);
        }
        self.count("violations");
    }

    pub fn known_finding(&mut self, key: &str, v: Value) {
        self.count(&format!("known:{key}"));
        if self.known.iter().filter(|k| k["key"] == key).count() < 2 {
            let mut v = v;
            if let Value::Object(m) = &mut v {
                m.insert("key".into(), json!(key));
            }
            self.known.push(v);
        }
    }

    pub fn inconclusive(&mut self, v: Value) {
        self.count("inconclusive");
        if self.inconclusive.len() < 10 {
            self.inconclusive.push(v);
        }
    }

    /// Records the case about to run, so a process killed mid-case still leaves a witness.
    pub fn journal(&mut self, v: impl FnOnce() -> Value) {
        if let Some(f) = self.journal.as_mut() {
            use std::io::Seek;
            let _ = f.set_len(0);
            let _ = f.seek(std::io::SeekFrom::Start(0));
            let _ = f.write_all(v().to_string().as_bytes());
            let _ = f.flush();
        }
    }

    pub fn journal_clear(&mut self) {
        if let Some(f) = self.journal.as_mut() {
            let _ = f.set_len(0);
        }
    }

    pub fn finish(mut self, args: &Args) {
        self.journal_clear();
        let mut distinct: Vec<u64> = self.distinct.iter().copied().collect();
        distinct.sort_unstable();
        let mut sigs: Vec<u64> = self.signatures.iter().copied().collect();
        sigs.sort_unstable();
        let v = json!({
            "prop": self.prop,
            "shard": args.shard,
            "seed": args.seed,
            "wall_s": self.elapsed(),
            "counters": self.counters,
            "distinct": distinct.iter().map(|h| format!("{h:016x}")).collect::<Vec<_>>(),
            "distinct_capped": self.distinct_capped,
            "signatures": sigs.iter().map(|h| format!("{h:016x}")).collect::<Vec<_>>(),
            "samples": self.samples,
            "violations": self.violations,
            "known": self.known,
            "inconclusive": self.inconclusive,
            "notes": self.notes,
        });
        match &args.out {
            Some(p) => std::fs::write(p, v.to_string()).expect("write shard report"),
            None => println!("{}", serde_json::to_string_pretty(&v).unwrap()),
        }
    }
}
