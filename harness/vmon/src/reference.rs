//! REF: a direct, purely functional reading of pest's documented PEG semantics
//! (derive/src/lib.rs crate docs). State is copied at every branch; nothing is ever restored.
//! It interprets the *unoptimized* `ast::Expr` (plus `Expr::Skip`, by its definition, so that
//! single optimizer passes can be compared).

use crate::model::{Outcome, Tok};
use pest_meta::ast::{Expr, Rule, RuleType};
use std::collections::HashMap;

#[derive(Clone, Copy, PartialEq, Eq, Debug, Hash)]
pub enum Atom {
    Atomic,
    Compound,
    Non,
}

#[derive(Clone, Debug)]
struct Ok_ {
    pos: usize,
    stack: Vec<String>,
    toks: Vec<Tok>,
}

#[derive(Debug)]
enum Stop {
    NoMatch,
    Panic(String),
    Diverges(String),
    Budget,
}

type R = Result<Ok_, Stop>;

/// How `e+` is read. `Native`: `e (skip e)*` (the documented reading, and what the
/// grammar-extras configuration implements). `Unrolled`: `e ~ e*` (what default features do).
#[derive(Clone, Copy, PartialEq, Eq, Debug)]
pub enum PlusReading {
    Native,
    Unrolled,
}

pub struct Ref<'g> {
    rules: HashMap<&'g str, &'g Rule>,
    input: &'g str,
    has_ws: bool,
    has_cm: bool,
    steps: u64,
    pub max_steps: u64,
    depth: usize,
    pub max_depth: usize,
    open: Vec<(String, usize, Atom, Vec<String>)>,
    pub plus: PlusReading,
    /// operator kinds visited (for the non-triviality measure)
    pub ops_seen: u32,
    pub skip_consumed: bool,
    pub backtracked: bool,
    started: std::time::Instant,
    pub max_seconds: f64,
}

pub mod opbit {
    pub const STR: u32 = 1 << 0;
    pub const INSENS: u32 = 1 << 1;
    pub const RANGE: u32 = 1 << 2;
    pub const IDENT_USER: u32 = 1 << 3;
    pub const BUILTIN: u32 = 1 << 4;
    pub const SEQ: u32 = 1 << 5;
    pub const CHOICE: u32 = 1 << 6;
    pub const OPT: u32 = 1 << 7;
    pub const REP: u32 = 1 << 8;
    pub const REPONCE: u32 = 1 << 9;
    pub const COUNTED: u32 = 1 << 10;
    pub const POSPRED: u32 = 1 << 11;
    pub const NEGPRED: u32 = 1 << 12;
    pub const PUSH: u32 = 1 << 13;
    pub const POP: u32 = 1 << 14;
    pub const PEEK: u32 = 1 << 15;
    pub const DROP: u32 = 1 << 16;
    pub const PEEK_ALL: u32 = 1 << 17;
    pub const POP_ALL: u32 = 1 << 18;
    pub const PEEK_SLICE: u32 = 1 << 19;
    pub const SKIP_RULE: u32 = 1 << 20;
    pub const SKIP_EXPR: u32 = 1 << 21;
    pub const UNICODE: u32 = 1 << 22;
    pub const PUSH_LITERAL: u32 = 1 << 23;
    pub const TAG: u32 = 1 << 24;
    pub const EOI: u32 = 1 << 25;
    pub const SOI: u32 = 1 << 26;
    pub const ATOMIC_RULE: u32 = 1 << 27;
    pub const COMPOUND_RULE: u32 = 1 << 28;
    pub const NONATOMIC_RULE: u32 = 1 << 29;
    pub const SILENT_RULE: u32 = 1 << 30;
    pub const NAMES: &[&str] = &[
        "str", "insens", "range", "user_rule", "builtin", "seq", "choice", "opt", "rep", "rep_once", "counted",
        "pos_pred", "neg_pred", "push", "pop", "peek", "drop", "peek_all", "pop_all", "peek_slice", "implicit_skip",
        "skip_until", "unicode", "push_literal", "tag", "eoi", "soi", "atomic_rule", "compound_rule", "nonatomic_rule",
        "silent_rule",
    ];
}

impl<'g> Ref<'g> {
    pub fn new(rules: &'g [Rule], input: &'g str) -> Ref<'g> {
        let map: HashMap<&str, &Rule> = rules.iter().map(|r| (r.name.as_str(), r)).collect();
        Ref {
            has_ws: map.contains_key("WHITESPACE"),
            has_cm: map.contains_key("COMMENT"),
            rules: map,
            input,
            steps: 0,
            max_steps: 200_000,
            depth: 0,
            max_depth: 3000,
            open: vec![],
            plus: PlusReading::Native,
            ops_seen: 0,
            skip_consumed: false,
            backtracked: false,
            started: std::time::Instant::now(),
            max_seconds: 3.0,
        }
    }

    pub fn steps(&self) -> u64 {
        self.steps
    }

    /// Parses from `rule` at position 0 with an empty stack.
    pub fn parse(&mut self, rule: &str) -> Outcome {
        self.started = std::time::Instant::now();
        match self.call(rule, 0, &[], Atom::Non, false) {
            Ok(o) => Outcome::Match { toks: o.toks, end: o.pos, stack: o.stack },
            Err(Stop::NoMatch) => Outcome::NoMatch,
            Err(Stop::Panic(m)) => Outcome::Panic(m),
            Err(Stop::Diverges(m)) => Outcome::Diverges(m),
            Err(Stop::Budget) => Outcome::Budget,
        }
    }

    fn tick(&mut self) -> Result<(), Stop> {
        self.steps += 1;
        if self.steps > self.max_steps {
            return Err(Stop::Budget);
        }
        // generous per-parse wall-clock backstop (a step can cost O(stack size)); firing = inconclusive
        if self.steps % 512 == 0 && self.started.elapsed().as_secs_f64() > self.max_seconds {
            return Err(Stop::Budget);
        }
        Ok(())
    }

    fn rest(&self, pos: usize) -> &'g str {
        &self.input[pos..]
    }

    fn empty(pos: usize, stack: &[String]) -> R {
        Ok(Ok_ { pos, stack: stack.to_vec(), toks: vec![] })
    }

    fn match_str(&self, s: &str, pos: usize, stack: &[String]) -> R {
        if self.rest(pos).starts_with(s) {
            Self::empty(pos + s.len(), stack)
        } else {
            Err(Stop::NoMatch)
        }
    }

    fn match_char(&self, f: impl Fn(char) -> bool, pos: usize, stack: &[String]) -> R {
        match self.rest(pos).chars().next() {
            Some(c) if f(c) => Self::empty(pos + c.len_utf8(), stack),
            _ => Err(Stop::NoMatch),
        }
    }

    /// A rule reference.
    fn call(&mut self, name: &str, pos: usize, stack: &[String], atom: Atom, in_pred: bool) -> R {
        self.tick()?;
        if let Some(rule) = self.rules.get(name).copied() {
            return self.call_user(rule, pos, stack, atom, in_pred);
        }
        self.builtin(name, pos, stack, atom, in_pred)
    }

    fn call_user(&mut self, rule: &'g Rule, pos: usize, stack: &[String], atom: Atom, in_pred: bool) -> R {
        let is_skip_rule = rule.name == "WHITESPACE" || rule.name == "COMMENT";
        // (emit a pair?, atomicity of the body)
        let (emit, body_atom) = match (rule.ty, is_skip_rule) {
            (RuleType::Normal, false) => (atom != Atom::Atomic, atom),
            (RuleType::Silent, false) => (false, atom),
            (RuleType::Atomic, _) | (RuleType::Normal, true) => (atom != Atom::Atomic, Atom::Atomic),
            (RuleType::Silent, true) => (false, Atom::Atomic),
            (RuleType::CompoundAtomic, _) => (true, Atom::Compound),
            (RuleType::NonAtomic, false) => (true, Atom::Non),
            // `!` on WHITESPACE/COMMENT: the body still runs atomically (both back-ends);
            // whether a pair appears is where the back-ends differ (C02's business)
            (RuleType::NonAtomic, true) => (true, Atom::Atomic),
        };
        self.ops_seen |= match rule.ty {
            RuleType::Normal => opbit::IDENT_USER,
            RuleType::Silent => opbit::SILENT_RULE,
            RuleType::Atomic => opbit::ATOMIC_RULE,
            RuleType::CompoundAtomic => opbit::COMPOUND_RULE,
            RuleType::NonAtomic => opbit::NONATOMIC_RULE,
        };
        let emit = emit && !in_pred;
        // left recursion: same rule, same position, same stack, same atomicity already open
        if self.open.iter().any(|(n, p, a, s)| *p == pos && *a == atom && n == &rule.name && s.as_slice() == stack) {
            return Err(Stop::Diverges(format!("rule {} re-entered at {} without progress", rule.name, pos)));
        }
        self.depth += 1;
        if self.depth > self.max_depth {
            self.depth -= 1;
            return Err(Stop::Budget);
        }
        self.open.push((rule.name.clone(), pos, atom, stack.to_vec()));
        let r = self.eval(&rule.expr, pos, stack, body_atom, in_pred);
        self.open.pop();
        self.depth -= 1;
        let mut o = r?;
        if emit {
            let mut toks = Vec::with_capacity(o.toks.len() + 2);
            toks.push(Tok { start: true, rule: rule.name.clone(), pos });
            toks.append(&mut o.toks);
            toks.push(Tok { start: false, rule: rule.name.clone(), pos: o.pos });
            o.toks = toks;
        }
        Ok(o)
    }

    fn builtin(&mut self, name: &str, pos: usize, stack: &[String], atom: Atom, in_pred: bool) -> R {
        use opbit::*;
        match name {
            "ANY" => {
                self.ops_seen |= BUILTIN;
                self.match_char(|_| true, pos, stack)
            }
            "SOI" => {
                self.ops_seen |= SOI;
                if pos == 0 {
                    Self::empty(pos, stack)
                } else {
                    Err(Stop::NoMatch)
                }
            }
            "EOI" => {
                self.ops_seen |= EOI;
                if pos == self.input.len() {
                    let mut o = Ok_ { pos, stack: stack.to_vec(), toks: vec![] };
                    if !in_pred && atom != Atom::Atomic {
                        o.toks.push(Tok { start: true, rule: "EOI".into(), pos });
                        o.toks.push(Tok { start: false, rule: "EOI".into(), pos });
                    }
                    Ok(o)
                } else {
                    Err(Stop::NoMatch)
                }
            }
            "PEEK" => {
                self.ops_seen |= PEEK;
                match stack.last() {
                    None => Err(Stop::Panic("peek on empty stack".into())),
                    Some(top) => self.match_str(top, pos, stack),
                }
            }
            "POP" => {
                self.ops_seen |= POP;
                match stack.last() {
                    None => Err(Stop::Panic("pop on empty stack".into())),
                    Some(top) => {
                        let mut o = self.match_str(top, pos, stack)?;
                        o.stack.pop();
                        Ok(o)
                    }
                }
            }
            "DROP" => {
                self.ops_seen |= DROP;
                if stack.is_empty() {
                    Err(Stop::NoMatch)
                } else {
                    Ok(Ok_ { pos, stack: stack[..stack.len() - 1].to_vec(), toks: vec![] })
                }
            }
            "PEEK_ALL" => {
                self.ops_seen |= PEEK_ALL;
                let mut p = pos;
                for s in stack.iter().rev() {
                    p = self.match_str(s, p, stack)?.pos;
                }
                Self::empty(p, stack)
            }
            "POP_ALL" => {
                self.ops_seen |= POP_ALL;
                let mut p = pos;
                for s in stack.iter().rev() {
                    p = self.match_str(s, p, stack)?.pos;
                }
                Self::empty(p, &[])
            }
            "ASCII_DIGIT" => self.cls(|c| c.is_ascii_digit(), pos, stack),
            "ASCII_NONZERO_DIGIT" => self.cls(|c| ('1'..='9').contains(&c), pos, stack),
            "ASCII_BIN_DIGIT" => self.cls(|c| c == '0' || c == '1', pos, stack),
            "ASCII_OCT_DIGIT" => self.cls(|c| ('0'..='7').contains(&c), pos, stack),
            "ASCII_HEX_DIGIT" => self.cls(|c| c.is_ascii_hexdigit(), pos, stack),
            "ASCII_ALPHA_LOWER" => self.cls(|c| c.is_ascii_lowercase(), pos, stack),
            "ASCII_ALPHA_UPPER" => self.cls(|c| c.is_ascii_uppercase(), pos, stack),
            "ASCII_ALPHA" => self.cls(|c| c.is_ascii_alphabetic(), pos, stack),
            "ASCII_ALPHANUMERIC" => self.cls(|c| c.is_ascii_alphanumeric(), pos, stack),
            "ASCII" => self.cls(|c| c.is_ascii(), pos, stack),
            "NEWLINE" => {
                self.ops_seen |= BUILTIN;
                let rest = self.rest(pos);
                if rest.starts_with('\n') {
                    Self::empty(pos + 1, stack)
                } else if rest.starts_with("\r\n") {
                    Self::empty(pos + 2, stack)
                } else if rest.starts_with('\r') {
                    Self::empty(pos + 1, stack)
                } else {
                    Err(Stop::NoMatch)
                }
            }
            other => {
                self.ops_seen |= UNICODE;
                match pest::unicode::by_name(other) {
                    Some(f) => self.match_char(|c| f(c), pos, stack),
                    None => Err(Stop::Panic(format!("undefined rule {other}"))),
                }
            }
        }
    }

    fn cls(&mut self, f: impl Fn(char) -> bool, pos: usize, stack: &[String]) -> R {
        self.ops_seen |= opbit::BUILTIN;
        self.match_char(f, pos, stack)
    }

    /// Implicit WHITESPACE / COMMENT between elements. Never fails.
    fn skip(&mut self, pos: usize, stack: &[String], atom: Atom, in_pred: bool) -> R {
        if atom != Atom::Non || (!self.has_ws && !self.has_cm) {
            return Self::empty(pos, stack);
        }
        self.ops_seen |= opbit::SKIP_RULE;
        let mut cur = Ok_ { pos, stack: stack.to_vec(), toks: vec![] };
        let r = if self.has_ws && !self.has_cm {
            self.star_rule("WHITESPACE", &mut cur, in_pred)
        } else if !self.has_ws && self.has_cm {
            self.star_rule("COMMENT", &mut cur, in_pred)
        } else {
            // WHITESPACE* ~ (COMMENT ~ WHITESPACE*)*
            self.star_rule("WHITESPACE", &mut cur, in_pred)?;
            let mut stalled = 0u32;
            loop {
                let stack0 = cur.stack.clone();
                match self.call("COMMENT", cur.pos, &stack0, Atom::Non, in_pred) {
                    Ok(mut o) => {
                        if o.pos == cur.pos && o.stack == cur.stack {
                            return Err(Stop::Diverges("COMMENT matched without progress".into()));
                        }
                        stalled = if o.pos == cur.pos { stalled + 1 } else { 0 };
                        if stalled > 64 {
                            return Err(Stop::Budget);
                        }
                        cur.pos = o.pos;
                        cur.stack = o.stack;
                        cur.toks.append(&mut o.toks);
                        self.star_rule("WHITESPACE", &mut cur, in_pred)?;
                    }
                    Err(Stop::NoMatch) => break,
                    Err(e) => return Err(e),
                }
            }
            Ok(())
        };
        r?;
        if cur.pos != pos {
            self.skip_consumed = true;
        }
        Ok(cur)
    }

    fn star_rule(&mut self, name: &str, cur: &mut Ok_, in_pred: bool) -> Result<(), Stop> {
        let mut stalled = 0u32;
        loop {
            let stack0 = cur.stack.clone();
            match self.call(name, cur.pos, &stack0, Atom::Non, in_pred) {
                Ok(mut o) => {
                    if o.pos == cur.pos && o.stack == cur.stack {
                        return Err(Stop::Diverges(format!("{name} matched without progress")));
                    }
                    // iterating on the stack alone, without consuming input: give up early
                    stalled = if o.pos == cur.pos { stalled + 1 } else { 0 };
                    if stalled > 64 {
                        return Err(Stop::Budget);
                    }
                    cur.pos = o.pos;
                    cur.stack = o.stack;
                    cur.toks.append(&mut o.toks);
                }
                Err(Stop::NoMatch) => return Ok(()),
                Err(e) => return Err(e),
            }
        }
    }

    /// `a ~ b`: a, implicit skip, b.
    fn seq2(&mut self, a: &Expr, b: &Expr, pos: usize, stack: &[String], atom: Atom, in_pred: bool) -> R {
        let mut ra = self.eval(a, pos, stack, atom, in_pred)?;
        let mut sk = self.skip(ra.pos, &ra.stack, atom, in_pred)?;
        let mut rb = self.eval(b, sk.pos, &sk.stack, atom, in_pred)?;
        ra.toks.append(&mut sk.toks);
        ra.toks.append(&mut rb.toks);
        Ok(Ok_ { pos: rb.pos, stack: rb.stack, toks: ra.toks })
    }

    /// Evaluates `items` as the sequence `i0 ~ i1 ~ ...` where each item is `e`, `e?` or `e*`.
    fn seq_items(&mut self, items: &[(u8, &Expr)], pos: usize, stack: &[String], atom: Atom, in_pred: bool) -> R {
        let mut cur = Ok_ { pos, stack: stack.to_vec(), toks: vec![] };
        for (i, (kind, e)) in items.iter().enumerate() {
            if i > 0 {
                let mut sk = self.skip(cur.pos, &cur.stack, atom, in_pred)?;
                cur.pos = sk.pos;
                cur.stack = sk.stack;
                cur.toks.append(&mut sk.toks);
            }
            let st = cur.stack.clone();
            let mut r = match kind {
                0 => self.eval(e, cur.pos, &st, atom, in_pred)?,
                1 => self.opt(e, cur.pos, &st, atom, in_pred)?,
                _ => self.star(e, cur.pos, &st, atom, in_pred)?,
            };
            cur.pos = r.pos;
            cur.stack = r.stack;
            cur.toks.append(&mut r.toks);
        }
        Ok(cur)
    }

    fn opt(&mut self, e: &Expr, pos: usize, stack: &[String], atom: Atom, in_pred: bool) -> R {
        match self.eval(e, pos, stack, atom, in_pred) {
            Ok(o) => Ok(o),
            Err(Stop::NoMatch) => {
                self.backtracked = true;
                Self::empty(pos, stack)
            }
            Err(x) => Err(x),
        }
    }

    /// `e*` = `(e (skip e)*)?`
    fn star(&mut self, e: &Expr, pos: usize, stack: &[String], atom: Atom, in_pred: bool) -> R {
        let mut cur = match self.eval(e, pos, stack, atom, in_pred) {
            Ok(o) => o,
            Err(Stop::NoMatch) => return Self::empty(pos, stack),
            Err(x) => return Err(x),
        };
        if cur.pos == pos && cur.stack.as_slice() == stack {
            return Err(Stop::Diverges("repetition body matched without progress".into()));
        }
        self.more(e, cur_take(&mut cur), atom, in_pred)
    }

    /// `(skip e)*` continuing from `cur`.
    fn more(&mut self, e: &Expr, mut cur: Ok_, atom: Atom, in_pred: bool) -> R {
        let mut iters = 0u32;
        let mut stalled = 0u32;
        loop {
            self.tick()?;
            let st = cur.stack.clone();
            let mut sk = self.skip(cur.pos, &st, atom, in_pred)?;
            match self.eval(e, sk.pos, &sk.stack, atom, in_pred) {
                Ok(mut o) => {
                    if o.pos == cur.pos && o.stack == cur.stack {
                        return Err(Stop::Diverges("repetition iterated without progress".into()));
                    }
                    stalled = if o.pos == cur.pos { stalled + 1 } else { 0 };
                    if stalled > 64 {
                        return Err(Stop::Budget);
                    }
                    cur.pos = o.pos;
                    cur.stack = o.stack;
                    cur.toks.append(&mut sk.toks);
                    cur.toks.append(&mut o.toks);
                }
                Err(Stop::NoMatch) => {
                    if sk.pos != cur.pos {
                        self.backtracked = true;
                    }
                    return Ok(cur);
                }
                Err(x) => return Err(x),
            }
            iters += 1;
            if iters > 100_000 {
                return Err(Stop::Budget);
            }
        }
    }

    pub fn eval_expr(&mut self, e: &Expr, pos: usize, stack: &[String], atom: Atom) -> Outcome {
        match self.eval(e, pos, stack, atom, false) {
            Ok(o) => Outcome::Match { toks: o.toks, end: o.pos, stack: o.stack },
            Err(Stop::NoMatch) => Outcome::NoMatch,
            Err(Stop::Panic(m)) => Outcome::Panic(m),
            Err(Stop::Diverges(m)) => Outcome::Diverges(m),
            Err(Stop::Budget) => Outcome::Budget,
        }
    }

    fn eval(&mut self, e: &Expr, pos: usize, stack: &[String], atom: Atom, in_pred: bool) -> R {
        use opbit::*;
        self.tick()?;
        self.depth += 1;
        if self.depth > self.max_depth {
            self.depth -= 1;
            return Err(Stop::Budget);
        }
        let r = self.eval_inner(e, pos, stack, atom, in_pred);
        self.depth -= 1;
        let _ = SEQ;
        r
    }

    fn eval_inner(&mut self, e: &Expr, pos: usize, stack: &[String], atom: Atom, in_pred: bool) -> R {
        use opbit::*;
        match e {
            Expr::Str(s) => {
                self.ops_seen |= STR;
                self.match_str(s, pos, stack)
            }
            Expr::Insens(s) => {
                self.ops_seen |= INSENS;
                let rest = self.rest(pos);
                match rest.get(..s.len()) {
                    Some(p) if p.eq_ignore_ascii_case(s) => Self::empty(pos + s.len(), stack),
                    _ => Err(Stop::NoMatch),
                }
            }
            Expr::Range(a, b) => {
                self.ops_seen |= RANGE;
                let a = a.chars().next().unwrap();
                let b = b.chars().next().unwrap();
                self.match_char(|c| a <= c && c <= b, pos, stack)
            }
            Expr::Ident(n) => self.call(n, pos, stack, atom, in_pred),
            Expr::PeekSlice(a, b) => {
                self.ops_seen |= PEEK_SLICE;
                let len = stack.len() as i64;
                let norm = |i: i64| -> Option<i64> {
                    if i > len {
                        None
                    } else if i >= 0 {
                        Some(i)
                    } else if len + i >= 0 {
                        Some(len + i)
                    } else {
                        None
                    }
                };
                let s = norm(*a as i64);
                let t = match b {
                    None => Some(len),
                    Some(b) => norm(*b as i64),
                };
                match (s, t) {
                    (Some(s), Some(t)) => {
                        let mut p = pos;
                        if t > s {
                            for x in &stack[s as usize..t as usize] {
                                p = self.match_str(x, p, stack)?.pos;
                            }
                        }
                        Self::empty(p, stack)
                    }
                    // an index outside the stack: there is no such slice, nothing matches
                    _ => Err(Stop::NoMatch),
                }
            }
            Expr::PosPred(i) => {
                self.ops_seen |= POSPRED;
                self.eval(i, pos, stack, atom, true)?;
                Self::empty(pos, stack)
            }
            Expr::NegPred(i) => {
                self.ops_seen |= NEGPRED;
                match self.eval(i, pos, stack, atom, true) {
                    Ok(_) => Err(Stop::NoMatch),
                    Err(Stop::NoMatch) => Self::empty(pos, stack),
                    Err(x) => Err(x),
                }
            }
            Expr::Seq(a, b) => {
                self.ops_seen |= SEQ;
                self.seq2(a, b, pos, stack, atom, in_pred)
            }
            Expr::Choice(a, b) => {
                self.ops_seen |= CHOICE;
                match self.eval(a, pos, stack, atom, in_pred) {
                    Ok(o) => Ok(o),
                    Err(Stop::NoMatch) => {
                        self.backtracked = true;
                        self.eval(b, pos, stack, atom, in_pred)
                    }
                    Err(x) => Err(x),
                }
            }
            Expr::Opt(i) => {
                self.ops_seen |= OPT;
                self.opt(i, pos, stack, atom, in_pred)
            }
            Expr::Rep(i) => {
                self.ops_seen |= REP;
                self.star(i, pos, stack, atom, in_pred)
            }
            Expr::RepOnce(i) => {
                self.ops_seen |= REPONCE;
                match self.plus {
                    PlusReading::Native => {
                        let first = self.eval(i, pos, stack, atom, in_pred)?;
                        self.more(i, first, atom, in_pred)
                    }
                    PlusReading::Unrolled => self.seq_items(&[(0, i), (2, i)], pos, stack, atom, in_pred),
                }
            }
            Expr::RepExact(i, n) => {
                self.ops_seen |= COUNTED;
                let items: Vec<(u8, &Expr)> = (0..*n).map(|_| (0u8, &**i)).collect();
                self.seq_items(&items, pos, stack, atom, in_pred)
            }
            Expr::RepMin(i, n) => {
                self.ops_seen |= COUNTED;
                let mut items: Vec<(u8, &Expr)> = (0..*n).map(|_| (0u8, &**i)).collect();
                items.push((2, &**i));
                self.seq_items(&items, pos, stack, atom, in_pred)
            }
            Expr::RepMax(i, n) => {
                self.ops_seen |= COUNTED;
                let items: Vec<(u8, &Expr)> = (0..*n).map(|_| (1u8, &**i)).collect();
                self.seq_items(&items, pos, stack, atom, in_pred)
            }
            Expr::RepMinMax(i, m, n) => {
                self.ops_seen |= COUNTED;
                if m > n {
                    // "between m and n times" with m > n: no count satisfies it
                    return Err(Stop::NoMatch);
                }
                let mut items: Vec<(u8, &Expr)> = (0..*m).map(|_| (0u8, &**i)).collect();
                for _ in *m..*n {
                    items.push((1, &**i));
                }
                self.seq_items(&items, pos, stack, atom, in_pred)
            }
            Expr::Skip(needles) => {
                // "continues until one of the strings is found": first position where some
                // needle starts, else the end of input; always succeeds
                self.ops_seen |= SKIP_EXPR;
                let mut p = pos;
                loop {
                    if needles.iter().any(|n| self.rest(p).starts_with(n.as_str())) {
                        break;
                    }
                    match self.rest(p).chars().next() {
                        Some(c) => p += c.len_utf8(),
                        None => break,
                    }
                }
                Self::empty(p, stack)
            }
            Expr::Push(i) => {
                self.ops_seen |= PUSH;
                let mut o = self.eval(i, pos, stack, atom, in_pred)?;
                o.stack.push(self.input[pos..o.pos].to_string());
                Ok(o)
            }
            #[cfg(feature = "grammar-extras")]
            Expr::PushLiteral(s) => {
                self.ops_seen |= PUSH_LITERAL;
                let mut st = stack.to_vec();
                st.push(s.clone());
                Ok(Ok_ { pos, stack: st, toks: vec![] })
            }
            #[cfg(feature = "grammar-extras")]
            Expr::NodeTag(i, _) => {
                self.ops_seen |= TAG;
                self.eval(i, pos, stack, atom, in_pred)
            }
        }
    }
}

fn cur_take(o: &mut Ok_) -> Ok_ {
    Ok_ { pos: o.pos, stack: std::mem::take(&mut o.stack), toks: std::mem::take(&mut o.toks) }
}
