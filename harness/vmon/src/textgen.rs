//! Near-miss grammar texts: mutants of the repository's grammar files, of printed generator
//! grammars, and random token strings (workload of C09 and C14).

use crate::gen::{gen_grammar, GenCfg, Profile};
use crate::rng::Rng;

pub const MAX_LEN: usize = 4096;

pub const TOKENS: &[&str] = &[
    "PEEK[", "PEEK[..]", "PEEK[1..", "PEEK[-1..2]", "..", "]", "[", "PUSH(", "PUSH_LITERAL(", "PUSH_LITERAL(\"x\")", "(", ")", "{", "}", "{1,", ",2}", "{2}",
    "{0}", "{,0}", "{0,0}", "{3,1}", "{64}", "\\u{110000}", "\"\\u{110000}\"", "\"\\u{D800}\"", "'\\u{DFFF}'", "\"\\xFF\"", "\"\\x\"", "\"\\u{\"", "\"\\u{}\"",
    "\"\\u{1234567}\"", "\"\\q\"", "'a'..", "'a'..'b'", "'ab'", "''", "'", "\"", "\"\"", "^", "^\"a\"", "^ \"a\"", "#t =", "#t", "#", "//!", "///", "//", "/*", "*/",
    "/* /* */", "WHITESPACE", "COMMENT", "ANY", "SOI", "EOI", "POP", "PEEK", "DROP", "PEEK_ALL", "POP_ALL", "_", "@", "$", "!", "&", "~", "|", "*", "+", "?", "=",
    "=_{", "={", "a", "a =", "a = { a }", "b = { \"x\" }", "-", "-0", "-1", "0", "é", "🎈", "\u{0}", "\r\n", "\n", " ", "\t", "\\", ",", "ASCII_DIGIT", "LETTER", "self",
    "PUSH", "PUSHa", "PEEKa", "\u{feff}", "#PUSHED = ", "#PUSH", "#PUSH_a", "#PEEK = ", "#_ = ", "#a1_ = ", "#1", "# t = ", "#t=#u=", "PUSH_LITERAL", "PUSHED", "PUSH_x = { \"a\" }",
    "\"é\\u{D800}\"", "'\\u{110000}'", "^\"a→\\u{110000}\"", "\"😀b\\u{DFFF}\"", "\"ééé\\q\"", "'→\\x'", "(\"a\"{2} ~ \":\"){1,3}", "((ASCII_DIGIT{1,4} ~ \"-\")? ~ \"_\"){2,5}",
    "/// doc of rule\r\n", "//! top doc\r\n", "/// d\r", "// c\r\n", "/* c\r\n */", "\"\\u{10FFFF}\"", "'\\u{00001F}'", "\"\\u{0041}\\u{10ffff}\"",
    "POPx", "ANYa", "_PUSH", "a_PUSH", "'\\u{41}'", "\"\\x41\\n\\t\\0\\'\"", "{ 1 , 2 }", "{,}", "{ }", "PEEK [ 1 .. ]", "PEEK[..-1]", "..", "...", "'a'..='z'", "=", "==",
];
pub const BIGNUMS: &[&str] = &[
    "2147483647", "2147483648", "-2147483648", "-2147483649", "4294967295", "4294967296", "99999999999", "18446744073709551616", "1180591620717411303424", "-99999999999999999999",
];
pub const ALPHA: &[char] = &[
    '{', '}', '(', ')', '[', ']', '|', '~', '*', '+', '?', '!', '&', '@', '$', '_', '^', '"', '\'', '\\', '.', ',', '=', '#', '-', '/', ' ', '\n', 'a', 'b', 'P', 'U', 'S', 'H', 'E', 'K', '0', '1', '9', 'u', 'x', 'é',
];

pub fn corpus(root: &str) -> Vec<(String, String)> {
    let mut out = vec![];
    fn walk(dir: &std::path::Path, out: &mut Vec<(String, String)>) {
        let Ok(rd) = std::fs::read_dir(dir) else { return };
        let mut entries: Vec<_> = rd.flatten().collect();
        entries.sort_by_key(|e| e.path());
        for e in entries {
            let p = e.path();
            if p.is_dir() {
                let name = p.file_name().unwrap().to_string_lossy().to_string();
                if name == "target" || name.starts_with('.') {
                    continue;
                }
                walk(&p, out);
            } else if let Some(ext) = p.extension() {
                if ext == "pest" || ext == "grammar" {
                    if let Ok(t) = std::fs::read_to_string(&p) {
                        out.push((p.to_string_lossy().to_string(), t));
                    }
                }
            }
        }
    }
    walk(std::path::Path::new(root), &mut out);
    out
}

/// The statement bounds repetition counts; the unroller makes that many copies, multiplicatively
/// when nested. Texts whose counts multiply beyond this bound are outside the premise.
pub fn counts_in_scope(text: &str) -> bool {
    // drop PEEK[...] segments (slice indices are not repetition counts)
    let mut t = String::with_capacity(text.len());
    let mut rest = text;
    while let Some(i) = rest.find("PEEK") {
        t.push_str(&rest[..i]);
        let after = &rest[i + 4..];
        let trimmed = after.trim_start();
        if trimmed.starts_with('[') {
            match trimmed.find(']') {
                Some(j) => rest = &trimmed[j + 1..],
                None => {
                    rest = "";
                }
            }
        } else {
            t.push_str("PEEK");
            rest = after;
        }
    }
    t.push_str(rest);
    // strip comments roughly (this is only a scope filter)
    let mut u = String::with_capacity(t.len());
    let bytes: Vec<char> = t.chars().collect();
    let mut i = 0;
    let mut depth = 0usize;
    while i < bytes.len() {
        if bytes[i] == '/' && i + 1 < bytes.len() && bytes[i + 1] == '*' {
            depth += 1;
            i += 2;
        } else if depth > 0 && bytes[i] == '*' && i + 1 < bytes.len() && bytes[i + 1] == '/' {
            depth -= 1;
            i += 2;
        } else if depth == 0 && bytes[i] == '/' && i + 1 < bytes.len() && bytes[i + 1] == '/' {
            while i < bytes.len() && bytes[i] != '\n' {
                i += 1;
            }
        } else {
            if depth == 0 {
                u.push(bytes[i]);
            }
            i += 1;
        }
    }
    // repetition counts: digit runs whose previous non-blank character is `{` or `,`
    let mut product: f64 = 1.0;
    let mut cur: Option<f64> = None;
    let mut prev_sig = ' ';
    let mut counting = false;
    for c in u.chars().chain(std::iter::once(' ')) {
        if let Some(d) = c.to_digit(10) {
            if cur.is_none() {
                counting = prev_sig == '{' || prev_sig == ',';
            }
            cur = Some((cur.unwrap_or(0.0) * 10.0 + d as f64).min(1e12));
        } else {
            if let Some(v) = cur.take() {
                if counting {
                    if v > 64.0 {
                        return false;
                    }
                    product *= v.max(1.0);
                    if product > 50_000.0 {
                        return false;
                    }
                }
                prev_sig = '0';
            }
            if !c.is_whitespace() {
                prev_sig = c;
            }
        }
    }
    true
}

pub fn mutate(base: &str, rng: &mut Rng) -> (String, &'static str) {
    let mut cs: Vec<char> = base.chars().collect();
    let kind = match rng.below(12) {
        11 => {
            // a block of doc-comment lines with uneven indentation and blank-only lines, at the start of a line
            let starts: Vec<usize> = std::iter::once(0).chain(cs.iter().enumerate().filter(|(_, c)| **c == '\n').map(|(i, _)| i + 1)).collect();
            let at = *rng.pick(&starts);
            let block: Vec<char> = doc_block(rng).chars().collect();
            cs.splice(at..at, block);
            "doc_block"
        }
        10 => {
            // a literal whose body mixes plain, non-ASCII and escaped characters, some escapes
            // well-formed for the meta-grammar but denoting no character
            let i = rng.below(cs.len() + 1);
            let lit: Vec<char> = escape_literal(rng).chars().collect();
            cs.splice(i..i, lit);
            "escape_literal"
        }
        9 => {
            // something in front of everything (byte-order mark, blank lines, a CRLF doc line)
            let pre: Vec<char> = rng.pick(&["\u{feff}", "\u{feff}", "\n\n", "\r\n", "//! d\r\n", "\u{feff}//! d\n", " "]).chars().collect();
            cs.splice(0..0, pre);
            "prefix"
        }
        0 => {
            if !cs.is_empty() {
                let i = rng.below(cs.len());
                cs.truncate(i);
            }
            "truncate"
        }
        1 => {
            for _ in 0..1 + rng.below(3) {
                if !cs.is_empty() {
                    let i = rng.below(cs.len());
                    cs.remove(i);
                }
            }
            "delete_chars"
        }
        2 => {
            for _ in 0..1 + rng.below(3) {
                let i = rng.below(cs.len() + 1);
                cs.insert(i, *rng.pick(ALPHA));
            }
            "insert_chars"
        }
        3 => {
            for _ in 0..1 + rng.below(3) {
                if !cs.is_empty() {
                    let i = rng.below(cs.len());
                    cs[i] = *rng.pick(ALPHA);
                }
            }
            "replace_chars"
        }
        4 | 5 => {
            for _ in 0..1 + rng.below(3) {
                let i = rng.below(cs.len() + 1);
                let tok: Vec<char> = rng.pick(TOKENS).chars().collect();
                cs.splice(i..i, tok);
            }
            "insert_tokens"
        }
        6 => {
            // an out-of-range number, where numbers go
            let i = rng.below(cs.len() + 1);
            let n = *rng.pick(BIGNUMS);
            let tok: String = match rng.below(4) {
                0 => format!("PEEK[{n}..]"),
                1 => format!("PEEK[..{n}]"),
                2 => format!("PEEK[{n}..{n}]"),
                _ => format!("PEEK[ -{} .. ]", n.trim_start_matches('-')),
            };
            cs.splice(i..i, tok.chars());
            "big_slice_index"
        }
        7 => {
            if cs.len() > 2 {
                let i = rng.below(cs.len());
                let j = (i + 1 + rng.below(40)).min(cs.len());
                let seg: Vec<char> = cs[i..j].to_vec();
                let k = rng.below(cs.len() + 1);
                cs.splice(k..k, seg);
            }
            "duplicate_segment"
        }
        _ => {
            if cs.len() > 2 {
                let i = rng.below(cs.len());
                let j = (i + 1 + rng.below(60)).min(cs.len());
                cs.drain(i..j);
            }
            "delete_segment"
        }
    };
    (cs.into_iter().collect(), kind)
}

/// 2..6 lines of `///` (or `//!`) documentation: indented by 0..4 blanks of several kinds, some lines holding
/// nothing but blanks shorter than the others' indentation, LF or CRLF line ends.
pub fn doc_block(rng: &mut Rng) -> String {
    let marker = if rng.chance(1, 4) { "//!" } else { "///" };
    let blanks = [" ", " ", " ", "\t", "\u{a0}", "\u{3000}", "\r"];
    let common = rng.below(5);
    let n = 2 + rng.below(5);
    let mut out = String::new();
    for _ in 0..n {
        out.push_str(marker);
        match rng.below(5) {
            0 => {
                // only blanks, fewer than the common indentation
                for _ in 0..rng.below(common + 1) {
                    out.push_str(*rng.pick(&blanks));
                }
            }
            1 => {}
            _ => {
                for _ in 0..common + rng.below(2) {
                    out.push_str(if rng.chance(1, 6) { *rng.pick(&blanks) } else { " " });
                }
                out.push_str(*rng.pick(&["text", "é→", "a  b", "`code`", "- item", "x"]));
                for _ in 0..rng.below(3) {
                    out.push(' ');
                }
            }
        }
        out.push_str(if rng.chance(1, 4) { "\r\n" } else { "\n" });
    }
    out
}

/// Rules whose calls carry tags (grammar-extras syntax; plain text otherwise), the tagged rules silent and
/// recursive directly or through other silent rules, reaching terminals before they recurse.
pub fn tagged_recursion_family(r: &mut Rng) -> String {
    let k = 1 + r.below(3);
    let names: Vec<String> = (0..k).map(|i| format!("s{i}")).collect();
    let mut out = String::new();
    let tag = |r: &mut Rng, body: &str| if r.chance(3, 4) { format!("#t{} = {body}", r.below(3)) } else { body.to_string() };
    let first = tag(r, &names[0]);
    let pick2 = r.pick(&names).clone();
    let second = tag(r, &pick2);
    let m = *r.pick(&["", "@", "$", "!"]);
    out.push_str(&format!("item = {m}{{ {first} ~ \"x\" ~ ({second})? }}\n"));
    for (i, n) in names.iter().enumerate() {
        let next = &names[(i + 1) % k];
        let body = match r.below(5) {
            0 => format!("\" \" ~ {next}?"),
            1 => format!("\"a\" ~ ({next} | \"b\")"),
            2 => format!("(\"c\" ~ {next})*"),
            3 => {
                let t = tag(r, &format!("{next}?"));
                format!("\"d\" ~ {t} ~ \"e\"")
            }
            _ => format!("\"(\" ~ {next} ~ \")\" | \"f\""),
        };
        let m = *r.pick(&["_", "_", "_", ""]);
        out.push_str(&format!("{n} = {m}{{ {body} }}\n"));
    }
    out
}

/// A string, case-insensitive string, character or range literal with a mixed body.
pub fn escape_literal(rng: &mut Rng) -> String {
    const PLAIN: &[&str] = &["a", "b", "Z", "0", " ", "é", "ß", "→", "字", "😀", "\u{feff}", "e\u{301}"];
    const GOOD: &[&str] = &["\\n", "\\t", "\\\\", "\\\"", "\\'", "\\0", "\\x41", "\\x7f", "\\u{41}", "\\u{e9}", "\\u{1F600}", "\\u{10FFFF}", "\\u{00D7FF}", "\\u{E000}"];
    const BAD: &[&str] = &["\\u{D800}", "\\u{DFFF}", "\\u{DBFF}", "\\u{110000}", "\\u{FFFFFF}", "\\u{00D800}"];
    let piece = |rng: &mut Rng, bad_ok: bool| -> String {
        match rng.weighted(&[5, 3, if bad_ok { 2 } else { 0 }]) {
            0 => rng.pick(PLAIN).to_string(),
            1 => rng.pick(GOOD).to_string(),
            _ => rng.pick(BAD).to_string(),
        }
    };
    let body = |rng: &mut Rng| -> String {
        let n = 1 + rng.below(5);
        (0..n).map(|_| piece(rng, true)).collect()
    };
    match rng.below(5) {
        0 | 1 => format!("\"{}\"", body(rng)),
        2 => format!("^\"{}\"", body(rng)),
        3 => format!("'{}'", piece(rng, true)),
        _ => format!("'{}'..'{}'", piece(rng, true), piece(rng, true)),
    }
}

pub fn cut(text: &str, rng: &mut Rng) -> String {
    if text.len() <= MAX_LEN {
        return text.to_string();
    }
    // a window of whole lines, at most MAX_LEN bytes
    let lines: Vec<&str> = text.split_inclusive('\n').collect();
    let start = rng.below(lines.len());
    let mut out = String::new();
    for l in &lines[start..] {
        if out.len() + l.len() > MAX_LEN {
            break;
        }
        out.push_str(l);
    }
    out
}


/// One text: (text, mutation kind, source).
pub fn gen_text(r: &mut Rng, i: u64, files: &[(String, String)], cfg: &GenCfg) -> (String, &'static str, &'static str) {
    if i % 20 == 19 {
        return (skipper_family(r), "skipper_inlining_chain", "template");
    }
    if i % 200 == 57 {
        return (layered_family(r), "layered_reference_dag", "template");
    }
    if i % 50 == 31 {
        return (tagged_recursion_family(r), "tagged_silent_recursion", "template");
    }
    let (text, kind, source): (String, &'static str, &'static str) = match i % 10 {
            0..=4 if !files.is_empty() => {
                let (_, t) = r.pick(&files);
                let base = cut(t, r);
                let (mut m, mut kind) = mutate(&base, r);
                if r.chance(1, 3) {
                    let (m2, k2) = mutate(&m, r);
                    m = m2;
                    kind = k2;
                }
                (m, kind, "corpus")
            }
            5..=7 => {
                let rules = gen_grammar(r, &cfg);
                let base = if r.chance(1, 2) { crate::print::rules_to_string(&rules) } else { crate::print::Printer::fuzz(r).rules(&rules) };
                if r.chance(1, 5) {
                    (base, "generated_unmodified", "generator")
                } else {
                    let (m, kind) = mutate(&base, r);
                    (m, kind, "generator")
                }
            }
            8 => {
                let n = r.below(60);
                let s: String = (0..n).map(|_| *r.pick(ALPHA)).collect();
                (s, "random_chars", "random")
            }
            _ => {
                let n = 1 + r.below(14);
                let mut s = String::new();
                for _ in 0..n {
                    if r.chance(1, 10) {
                        s.push_str(&escape_literal(r));
                    } else {
                        let tok: &str = if r.chance(1, 12) { *r.pick(BIGNUMS) } else { *r.pick(TOKENS) };
                        s.push_str(tok);
                    }
                    if r.chance(1, 2) {
                        s.push(' ');
                    }
                }
                (s, "random_tokens", "random")
            }
        };
        let text = if text.len() > MAX_LEN { text[..text.char_indices().take_while(|(i, _)| *i <= MAX_LEN).last().map(|x| x.0).unwrap_or(0)].to_string() } else { text };
    (text, kind, source)
}

pub fn default_cfg() -> GenCfg {
    let mut cfg = GenCfg::new(Profile::Full);
    cfg.wide_literals = true;
    cfg.max_count = 12;
    cfg.wild_left_refs_pct = 20;
    cfg
}

/// Grammars around the skipper's rule inlining: an atomic `(!X ~ ANY)*` whose needle is a chain of
/// rules made of choices of strings and rule references (possibly recursive, possibly named like
/// non-keyword built-ins, which a grammar may define).
pub fn skipper_family(r: &mut Rng) -> String {
    let pool = ["b", "c", "d", "NEWLINE", "LETTER", "ASCII_DIGIT", "SPACE_SEPARATOR", "ASCII_ALPHA", "eol"];
    let k = 1 + r.below(3);
    let mut names: Vec<&str> = vec![];
    while names.len() < k {
        let n = *r.pick(&pool);
        if !names.contains(&n) {
            names.push(n);
        }
    }
    let mut out = String::new();
    let needle = match r.below(3) {
        0 => names[0].to_string(),
        1 => format!("\"x\" | {}", names[0]),
        _ => format!("{} | \"y\"", names[0]),
    };
    let head_mod = *r.pick(&["@", "@", "@", "$", ""]);
    out.push_str(&format!("a = {head_mod}{{ (!({needle}) ~ ANY)* ~ \"z\"? }}\n"));
    for (i, n) in names.iter().enumerate() {
        let n_alts = 1 + r.below(3);
        let mut alts: Vec<String> = vec![];
        for _ in 0..n_alts {
            if r.chance(1, 2) {
                alts.push(format!("{:?}", *r.pick(&["\n", "ab", "-", "q", "\r\n"])));
            } else {
                // any rule of the chain, itself included
                let j = if r.chance(1, 3) { i } else { r.below(names.len()) };
                alts.push(names[j].to_string());
            }
        }
        let m = *r.pick(&["", "", "_", "@"]);
        out.push_str(&format!("{n} = {m}{{ {} }}\n", alts.join(" | ")));
    }
    out
}

/// Grammars whose rules form a layered DAG: every layer references the next one several times
/// (analysis passes that re-visit shared sub-rules without a memo take exponential time on these).
pub fn layered_family(r: &mut Rng) -> String {
    let layers = 18 + r.below(26);
    let mut out = String::new();
    let top_op = *r.pick(&["?", "*", ""]);
    let stacky = r.chance(1, 4);
    out.push_str(&format!("top = {{ (l0{top_op} ~ \";\") | \"x\" }}\n"));
    for i in 0..layers {
        let n = i + 1;
        let body = match r.below(4) {
            0 => format!("l{n} ~ \",\" ~ l{n}"),
            1 => format!("l{n} | \"a\" ~ l{n}"),
            2 => format!("l{n} ~ (\"b\" ~ l{n})?"),
            _ => format!("(l{n} ~ \"c\")* ~ l{n} ~ l{n}"),
        };
        out.push_str(&format!("l{i} = {{ {body} }}\n"));
    }
    let last = if stacky { "PUSH(\"k\") ~ POP" } else { "\"k\"" };
    out.push_str(&format!("l{layers} = {{ {last} }}\n"));
    out
}
