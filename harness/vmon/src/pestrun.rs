//! Running the real engine (pest_vm over optimized rules) under guards, and normalising what
//! it returns into the monitors' vocabulary.

use crate::model::{Outcome, Tok};
use pest::error::{Error, ErrorVariant, InputLocation};
use pest::iterators::Pairs;
use pest::Token;
use pest_vm::Vm;
use std::num::NonZeroUsize;
use std::panic::{catch_unwind, AssertUnwindSafe};

#[derive(Clone, Debug, PartialEq, Eq)]
pub struct ErrInfo {
    pub pos: usize,
    pub positives: Vec<String>,
    pub negatives: Vec<String>,
    pub custom: Option<String>,
    pub line_col: (usize, usize),
}

#[derive(Clone, Debug)]
pub struct VmRun {
    pub outcome: Outcome,
    pub err: Option<ErrInfo>,
    pub fin: Option<pest::verif::Final>,
    pub events: Vec<pest::verif::Event>,
    pub events_overflowed: bool,
    /// node tags of End tokens, in stream order (grammar-extras)
    pub tags: Vec<Option<String>>,
}

pub fn quiet_panics() {
    std::panic::set_hook(Box::new(|_| {}));
}

pub fn panic_message(p: &Box<dyn std::any::Any + Send>) -> String {
    if let Some(s) = p.downcast_ref::<&str>() {
        s.to_string()
    } else if let Some(s) = p.downcast_ref::<String>() {
        s.clone()
    } else {
        "<non-string panic>".to_string()
    }
}

pub fn toks_of<R: pest::RuleType>(pairs: Pairs<'_, R>, name: impl Fn(&R) -> String) -> Vec<Tok> {
    pairs
        .tokens()
        .map(|t| match t {
            Token::Start { rule, pos } => Tok { start: true, rule: name(&rule), pos: pos.pos() },
            Token::End { rule, pos } => Tok { start: false, rule: name(&rule), pos: pos.pos() },
        })
        .collect()
}

pub fn err_info<R: pest::RuleType>(e: &Error<R>, name: impl Fn(&R) -> String) -> ErrInfo {
    let pos = match e.location {
        InputLocation::Pos(p) => p,
        InputLocation::Span((s, _)) => s,
    };
    let lc = match e.line_col {
        pest::error::LineColLocation::Pos(p) => p,
        pest::error::LineColLocation::Span(s, _) => s,
    };
    match &e.variant {
        ErrorVariant::ParsingError { positives, negatives } => ErrInfo {
            pos,
            positives: positives.iter().map(&name).collect(),
            negatives: negatives.iter().map(&name).collect(),
            custom: None,
            line_col: lc,
        },
        ErrorVariant::CustomError { message } => ErrInfo { pos, positives: vec![], negatives: vec![], custom: Some(message.clone()), line_col: lc },
    }
}

fn tags_of(pairs: Pairs<'_, &str>) -> Vec<Option<String>> {
    // tags in End-token order = post-order of the pair tree
    fn walk(p: pest::iterators::Pair<'_, &str>, out: &mut Vec<Option<String>>) {
        let tag = p.as_node_tag().map(|s| s.to_string());
        for c in p.into_inner() {
            walk(c, out);
        }
        out.push(tag);
    }
    let mut out = vec![];
    for p in pairs {
        walk(p, &mut out);
    }
    out
}

/// Parses `input` from `rule` on the VM. `limit` bounds the number of combinator calls (0 = no
/// limit); reaching it is reported as `Outcome::Budget`, never as a result.
pub fn run_vm(vm: &Vm, rule: &str, input: &str, limit: usize, record_events: bool) -> VmRun {
    pest::set_call_limit(NonZeroUsize::new(limit));
    pest::verif::enable(true);
    if !record_events {
        pest::verif::set_cap(0);
    } else {
        pest::verif::set_cap(400_000);
    }
    let r = catch_unwind(AssertUnwindSafe(|| match vm.parse(rule, input) {
        Ok(pairs) => {
            let tags = tags_of(pairs.clone());
            (Ok(toks_of(pairs, |r| r.to_string())), tags)
        }
        Err(e) => (Err(err_info(&e, |r| r.to_string())), vec![]),
    }));
    let fin = pest::verif::last_final();
    let events_overflowed = record_events && pest::verif::overflowed();
    let events = if record_events { pest::verif::take_events() } else { vec![] };
    pest::verif::enable(false);
    pest::set_call_limit(None);
    let hit_limit = limit > 0 && fin.as_ref().map_or(false, |f| f.calls >= limit);
    match r {
        Err(p) => {
            let msg = panic_message(&p);
            VmRun { outcome: Outcome::Panic(msg), err: None, fin, events, events_overflowed, tags: vec![] }
        }
        Ok(_) if hit_limit => VmRun { outcome: Outcome::Budget, err: None, fin, events, events_overflowed, tags: vec![] },
        Ok((Ok(toks), tags)) => {
            let f = fin.clone().unwrap_or_default();
            VmRun { outcome: Outcome::Match { toks, end: f.pos, stack: f.stack.clone() }, err: None, fin, events, events_overflowed, tags }
        }
        Ok((Err(e), _)) => {
            if e.custom.as_deref() == Some("call limit reached") {
                VmRun { outcome: Outcome::Budget, err: Some(e), fin, events, events_overflowed, tags: vec![] }
            } else {
                VmRun { outcome: Outcome::NoMatch, err: Some(e), fin, events, events_overflowed, tags: vec![] }
            }
        }
    }
}

/// Compares a real outcome with the reference's. Tags are not compared here.
pub fn same_outcome(real: &Outcome, reference: &Outcome, compare_stack: bool) -> bool {
    match (real, reference) {
        (Outcome::Match { toks: t1, end: e1, stack: s1 }, Outcome::Match { toks: t2, end: e2, stack: s2 }) => t1 == t2 && e1 == e2 && (!compare_stack || s1 == s2),
        (Outcome::NoMatch, Outcome::NoMatch) => true,
        (Outcome::Panic(_), Outcome::Panic(_)) => true,
        _ => false,
    }
}
