//! Input generators: derivation walks, mutants, bounded-exhaustive strings.

use crate::rng::Rng;
use pest_meta::ast::{Expr, Rule};
use std::collections::HashMap;

/// All strings over `alphabet` of length 0..=L, L maximal with total count <= cap.
pub fn exhaustive(alphabet: &[char], cap: usize) -> (Vec<String>, usize) {
    let k = alphabet.len().max(1);
    let mut l = 0usize;
    let mut total = 1usize;
    let mut pow = 1usize;
    loop {
        let next_pow = pow.saturating_mul(k);
        if total.saturating_add(next_pow) > cap || l >= 12 {
            break;
        }
        pow = next_pow;
        total += pow;
        l += 1;
    }
    let mut out = vec![String::new()];
    let mut frontier = vec![String::new()];
    for _ in 0..l {
        let mut next = Vec::with_capacity(frontier.len() * k);
        for s in &frontier {
            for c in alphabet {
                let mut t = s.clone();
                t.push(*c);
                next.push(t);
            }
        }
        out.extend(next.iter().cloned());
        frontier = next;
    }
    (out, l)
}

pub struct Sampler<'g> {
    rules: HashMap<&'g str, &'g Rule>,
    stack: Vec<String>,
    budget: usize,
    /// upper bound (exclusive) on the extra iterations sampled for `e*` / `e+`
    pub rep_extra: usize,
}

impl<'g> Sampler<'g> {
    pub fn new(rules: &'g [Rule]) -> Sampler<'g> {
        Sampler { rules: rules.iter().map(|r| (r.name.as_str(), r)).collect(), stack: vec![], budget: 0, rep_extra: 3 }
    }

    /// A text the rule can plausibly match (not guaranteed).
    pub fn sample(&mut self, rule: &str, rng: &mut Rng) -> String {
        self.stack.clear();
        self.budget = if self.rep_extra > 3 { 160 } else { 60 };
        let mut out = String::new();
        self.ident(rule, rng, 0, &mut out);
        out
    }

    fn ws(&mut self, rng: &mut Rng, d: usize, out: &mut String) {
        if rng.chance(1, 4) {
            if self.rules.contains_key("WHITESPACE") && rng.chance(2, 3) {
                self.ident("WHITESPACE", rng, d + 1, out);
            } else if self.rules.contains_key("COMMENT") {
                self.ident("COMMENT", rng, d + 1, out);
            }
        }
    }

    fn ident(&mut self, name: &str, rng: &mut Rng, d: usize, out: &mut String) {
        if out.len() > 200 {
            return;
        }
        if let Some(r) = self.rules.get(name).copied() {
            if d > 12 || self.budget == 0 {
                return;
            }
            self.budget -= 1;
            self.expr(&r.expr, rng, d + 1, out);
            return;
        }
        let s: &str = match name {
            "ANY" => *rng.pick(&["a", "b", "z", "é", " ", "Ａ", "🎈"]),
            "SOI" | "EOI" | "DROP" => "",
            "PEEK" => {
                let t = self.stack.last().cloned().unwrap_or_default();
                out.push_str(&t);
                return;
            }
            "POP" => {
                let t = self.stack.pop().unwrap_or_default();
                out.push_str(&t);
                return;
            }
            "PEEK_ALL" => {
                let t: String = self.stack.iter().rev().cloned().collect();
                out.push_str(&t);
                return;
            }
            "POP_ALL" => {
                let t: String = self.stack.iter().rev().cloned().collect();
                self.stack.clear();
                out.push_str(&t);
                return;
            }
            "ASCII_DIGIT" | "ASCII_NONZERO_DIGIT" | "ASCII_OCT_DIGIT" | "NUMBER" => "1",
            "ASCII_BIN_DIGIT" => "0",
            "ASCII_HEX_DIGIT" | "ASCII_ALPHA_LOWER" | "ASCII_ALPHA" | "ASCII_ALPHANUMERIC" | "ASCII" | "LETTER" | "LOWERCASE_LETTER" | "ALPHABETIC" | "LATIN" => *rng.pick(&["a", "b", "c"]),
            "ASCII_ALPHA_UPPER" | "UPPERCASE_LETTER" => "A",
            "NEWLINE" => *rng.pick(&["\n", "\r\n", "\r"]),
            "PUNCTUATION" => "-",
            "WHITE_SPACE" => " ",
            "HAN" => "嗨",
            other => {
                // a Unicode property: one of its members among a spread of characters (scripts, categories,
                // planes), else the first member found from a pseudo-random start
                if let Some(f) = pest::unicode::by_name(other) {
                    const SPREAD: &[char] = &[
                        'a', 'A', '1', ' ', '-', 'é', 'É', 'ß', 'Ω', 'ж', 'א', 'ع', 'क', 'あ', 'ア', '嗨', '한', '🎈', '😀', '\u{300}', '\u{200d}', '\u{fe0f}',
                        '\u{e0100}', '²', '½', '$', '€', '+', '<', '(', ')', '_', '"', '«', '\u{2028}', '\u{a0}', '\t', '\u{7f}', '\u{ad}', '\u{600}', 'ǅ', 'ᾈ',
                        'Ⅷ', '〇', '𐌰', '𝒜', '𝟘', '🇦', '\u{e000}', '\u{10ffff}', '\u{378}', 'ʰ', '^', '©', '〜', '\u{20dd}', '\u{903}',
                    ];
                    let members: Vec<char> = SPREAD.iter().copied().filter(|c| f(*c)).collect();
                    if !members.is_empty() {
                        out.push(*rng.pick(&members));
                        return;
                    }
                    let start = rng.below(0x30000) as u32;
                    if let Some(c) = (0..0x12000u32).filter_map(|i| char::from_u32((start + i) % 0x30000)).find(|c| f(*c)) {
                        out.push(c);
                        return;
                    }
                }
                "a"
            }
        };
        out.push_str(s);
    }

    fn expr(&mut self, e: &Expr, rng: &mut Rng, d: usize, out: &mut String) {
        if out.len() > 200 {
            return;
        }
        match e {
            Expr::Str(s) => out.push_str(s),
            Expr::Insens(s) => {
                for c in s.chars() {
                    // compatibility characters whose case mapping lands on this letter but whose UTF-8 width differs
                    // (KELVIN SIGN, OHM SIGN, ANGSTROM SIGN): ASCII-only folding must not accept them
                    let compat = match c {
                        'k' | 'K' => Some('\u{212a}'),
                        'Ω' | 'ω' => Some('\u{2126}'),
                        'å' | 'Å' => Some('\u{212b}'),
                        _ => None,
                    };
                    if let Some(x) = compat {
                        if rng.chance(1, 5) {
                            out.push(x);
                            continue;
                        }
                    }
                    if !c.is_ascii() && rng.chance(1, 3) {
                        // Unicode case variants must NOT match (folding is documented as ASCII only)
                        let v: Vec<char> = if rng.chance(1, 2) { c.to_uppercase().collect() } else { c.to_lowercase().collect() };
                        out.extend(v);
                    } else if rng.chance(1, 2) {
                        out.push(c.to_ascii_uppercase());
                    } else {
                        out.push(c.to_ascii_lowercase());
                    }
                }
            }
            Expr::Range(a, b) => {
                let a = a.chars().next().unwrap_or('a');
                let b = b.chars().next().unwrap_or('a');
                if a <= b {
                    let span = (b as u32 - a as u32).min(3);
                    let c = char::from_u32(a as u32 + rng.below(span as usize + 1) as u32).unwrap_or(a);
                    out.push(c);
                } else {
                    out.push(a);
                }
            }
            Expr::Ident(n) => self.ident(n, rng, d, out),
            Expr::PeekSlice(a, b) => {
                let len = self.stack.len() as i64;
                let norm = |i: i64| if i >= 0 { i.min(len) } else { (len + i).max(0) };
                let s = norm(*a as i64);
                let t = b.map(|b| norm(b as i64)).unwrap_or(len);
                if t > s {
                    let txt: String = self.stack[s as usize..t as usize].concat();
                    out.push_str(&txt);
                }
            }
            Expr::PosPred(_) | Expr::NegPred(_) => {}
            Expr::Seq(a, b) if matches!(&**a, Expr::NegPred(_)) && rng.chance(1, 4) => {
                // text on which the exclusion bites: what the predicate forbids stands there (a delimiter after
                // scanned text, a keyword where an identifier is expected)
                if let Expr::NegPred(x) = &**a {
                    self.expr(x, rng, d, out);
                }
            }
            Expr::Seq(a, b) => {
                self.expr(a, rng, d, out);
                self.ws(rng, d, out);
                self.expr(b, rng, d, out);
            }
            Expr::Choice(a, b) => {
                if rng.chance(1, 2) {
                    self.expr(a, rng, d, out)
                } else {
                    self.expr(b, rng, d, out)
                }
            }
            Expr::Opt(i) => {
                if rng.chance(1, 2) {
                    self.expr(i, rng, d, out)
                }
            }
            Expr::Rep(i) | Expr::RepOnce(i) => {
                let min = if matches!(e, Expr::RepOnce(_)) { 1 } else { 0 };
                let n = min + rng.below(self.rep_extra);
                for k in 0..n {
                    if k > 0 {
                        self.ws(rng, d, out);
                    }
                    self.expr(i, rng, d, out);
                }
            }
            Expr::RepExact(i, n) => self.times(i, *n as usize, rng, d, out),
            Expr::RepMin(i, n) => {
                let k = *n as usize + rng.below(2);
                self.times(i, k, rng, d, out)
            }
            Expr::RepMax(i, n) => {
                let k = rng.below(*n as usize + 1);
                self.times(i, k, rng, d, out)
            }
            Expr::RepMinMax(i, m, n) => {
                let (m, n) = (*m.min(n) as usize, *n.max(m) as usize);
                let k = m + rng.below(n - m + 1);
                self.times(i, k, rng, d, out)
            }
            Expr::Skip(_) => {
                if rng.chance(1, 2) {
                    out.push('z');
                }
            }
            Expr::Push(i) => {
                let before = out.len();
                self.expr(i, rng, d, out);
                self.stack.push(out[before..].to_string());
            }
            #[cfg(feature = "grammar-extras")]
            Expr::PushLiteral(s) => self.stack.push(s.clone()),
            #[cfg(feature = "grammar-extras")]
            Expr::NodeTag(i, _) => self.expr(i, rng, d, out),
        }
    }

    fn times(&mut self, i: &Expr, k: usize, rng: &mut Rng, d: usize, out: &mut String) {
        for j in 0..k.min(6) {
            if j > 0 {
                self.ws(rng, d, out);
            }
            self.expr(i, rng, d, out);
        }
    }
}

pub fn mutate(s: &str, alphabet: &[char], rng: &mut Rng) -> String {
    let mut cs: Vec<char> = s.chars().collect();
    let n = 1 + rng.below(2);
    for _ in 0..n {
        let k = rng.below(5);
        let any = |rng: &mut Rng| if alphabet.is_empty() { 'a' } else { *rng.pick(alphabet) };
        match k {
            0 if !cs.is_empty() => {
                let i = rng.below(cs.len());
                cs.remove(i);
            }
            1 => {
                let i = rng.below(cs.len() + 1);
                let c = any(rng);
                cs.insert(i, c);
            }
            2 if !cs.is_empty() => {
                let i = rng.below(cs.len());
                cs[i] = any(rng);
            }
            3 if !cs.is_empty() => {
                let i = rng.below(cs.len());
                let c = cs[i];
                cs.insert(i, c);
            }
            _ if !cs.is_empty() => {
                let i = rng.below(cs.len() + 1);
                cs.truncate(i);
            }
            _ => cs.push(any(rng)),
        }
    }
    cs.into_iter().collect()
}

/// The input set for one grammar: exhaustive up to the cap, plus walks and their mutants.
pub fn inputs_for(rules: &[Rule], rng: &mut Rng, walks: usize, mutants: usize, exhaustive_cap: usize) -> (Vec<String>, usize, usize) {
    let mut alpha = crate::gen::alphabet_of(rules);
    // keep the alphabet small: prefer the grammar's own symbols, add one foreign symbol
    if alpha.len() > 5 {
        // deterministic thinning
        let mut keep = vec![];
        let step = alpha.len() as f64 / 5.0;
        for i in 0..5 {
            keep.push(alpha[(i as f64 * step) as usize]);
        }
        alpha = keep;
    }
    let foreign = ['z', '#', 'q'].into_iter().find(|c| !alpha.contains(c)).unwrap();
    alpha.push(foreign);
    let (mut out, l) = if exhaustive_cap > 0 { exhaustive(&alpha, exhaustive_cap) } else { (vec![String::new()], 0) };
    let n_exh = out.len();
    let mut seen: std::collections::HashSet<String> = out.iter().cloned().collect();
    let mut sampler = Sampler::new(rules);
    let names: Vec<&str> = rules.iter().map(|r| r.name.as_str()).collect();
    for w in 0..walks {
        // every fourth walk is a long one (more repetitions, larger budget)
        sampler.rep_extra = if w % 4 == 3 { 8 } else { 3 };
        let r = *rng.pick(&names);
        let s = sampler.sample(r, rng);
        if s.len() <= 160 {
            for _ in 0..mutants {
                let m = mutate(&s, &alpha, rng);
                if m.len() <= 160 && seen.insert(m.clone()) {
                    out.push(m);
                }
            }
            if seen.insert(s.clone()) {
                out.push(s);
            }
        }
    }
    (out, l, n_exh)
}
