//! C02 support: the library half of the generated derive batches. A generated batch crate holds
//! one `#[derive(Parser)] #[grammar_inline = ...]` module per grammar and calls `batch_main`.

use crate::model::{Outcome, Tok};
use crate::pestrun::{err_info, toks_of, ErrInfo};
use crate::rng::hash_bytes;
use crate::shard::{Args, Report};
use pest::iterators::Pairs;
use serde_json::{json, Value};
use std::panic::{catch_unwind, AssertUnwindSafe};

#[derive(Clone, Debug, PartialEq)]
pub enum Parsed {
    Ok { toks: Vec<Tok>, tags: Vec<Option<String>> },
    Err(ErrInfo),
}

fn tags_of<R: pest::RuleType>(pairs: Pairs<'_, R>) -> Vec<Option<String>> {
    fn walk<R: pest::RuleType>(p: pest::iterators::Pair<'_, R>, out: &mut Vec<Option<String>>) {
        let tag = p.as_node_tag().map(|s| s.to_string());
        for c in p.into_inner() {
            walk(c, out);
        }
        out.push(tag);
    }
    let mut out = vec![];
    for p in pairs {
        walk(p, &mut out);
    }
    out
}

pub fn normalise<R: pest::RuleType>(r: Result<Pairs<'_, R>, pest::error::Error<R>>) -> Parsed {
    match r {
        Ok(p) => Parsed::Ok { tags: tags_of(p.clone()), toks: toks_of(p, |r| format!("{r:?}")) },
        Err(e) => Parsed::Err(err_info(&e, |r| format!("{r:?}"))),
    }
}

pub struct Entry {
    pub idx: usize,
    pub parse: fn(&str, &str) -> Option<Parsed>,
    pub rule_index: fn(&str) -> Option<usize>,
}

#[derive(Debug)]
enum Side {
    Res(Parsed),
    Panic(String),
    Limit,
}

const LIMIT: usize = 2_000_000;

fn guarded(f: impl FnOnce() -> Parsed, record: bool) -> (Side, Vec<pest::verif::Event>, bool) {
    pest::set_call_limit(std::num::NonZeroUsize::new(LIMIT));
    pest::verif::enable(true);
    pest::verif::set_cap(if record { 400_000 } else { 0 });
    let r = catch_unwind(AssertUnwindSafe(f));
    let fin = pest::verif::last_final();
    let overflow = record && pest::verif::overflowed();
    let ev = if record { pest::verif::take_events() } else { vec![] };
    pest::verif::enable(false);
    pest::set_call_limit(None);
    let hit = fin.map_or(false, |f| f.calls >= LIMIT);
    let side = match r {
        Err(p) => Side::Panic(crate::pestrun::panic_message(&p)),
        Ok(_) if hit => Side::Limit,
        Ok(Parsed::Err(e)) if e.custom.as_deref() == Some("call limit reached") => Side::Limit,
        Ok(p) => Side::Res(p),
    };
    (side, ev, overflow)
}

fn show(s: &Side, with_tags: bool) -> Value {
    match s {
        Side::Res(Parsed::Ok { toks, tags }) => {
            if with_tags {
                json!({"ok": crate::model::toks_to_string(toks), "tags": tags})
            } else {
                json!({"ok": crate::model::toks_to_string(toks)})
            }
        }
        Side::Res(Parsed::Err(e)) => json!({"err": {"pos": e.pos, "positives": e.positives, "negatives": e.negatives, "custom": e.custom}}),
        Side::Panic(m) => json!({"panic": m}),
        Side::Limit => json!("call limit"),
    }
}

fn sets_equal(a: &[String], b: &[String]) -> bool {
    let mut x = a.to_vec();
    let mut y = b.to_vec();
    x.sort();
    x.dedup();
    y.sort();
    y.dedup();
    x == y
}

fn same(vm: &Side, dv: &Side, with_tags: bool) -> bool {
    match (vm, dv) {
        (Side::Panic(_), Side::Panic(_)) => true,
        (Side::Res(Parsed::Ok { toks: t1, tags: g1 }), Side::Res(Parsed::Ok { toks: t2, tags: g2 })) => t1 == t2 && (!with_tags || g1 == g2),
        (Side::Res(Parsed::Err(e1)), Side::Res(Parsed::Err(e2))) => e1.pos == e2.pos && sets_equal(&e1.positives, &e2.positives) && sets_equal(&e1.negatives, &e2.negatives) && e1.custom == e2.custom,
        _ => false,
    }
}

/// Explains a disagreement by a listed known finding, if its predicate holds for this case.
fn explain(text: &str, vm: &Side, dv: &Side, with_tags: bool) -> Option<&'static str> {
    // known: the VM applies `#t = e?` / `#t = e*` as "match e? then tag the last pair", the generated
    // parser tags inside the optional / each iteration. Explained only if the token streams are
    // identical, only the tags differ, and the grammar has a tag directly over an optional or a repetition.
    if !with_tags {
        return None;
    }
    if let (Side::Res(Parsed::Ok { toks: t1, tags: g1 }), Side::Res(Parsed::Ok { toks: t2, tags: g2 })) = (vm, dv) {
        if t1 == t2 && g1 != g2 && tag_over_opt_or_rep(text) {
            return Some("c02-vm-tags-optional-and-repetition-differently");
        }
    }
    None
}

#[cfg(feature = "grammar-extras")]
fn tag_over_opt_or_rep(text: &str) -> bool {
    use pest_meta::optimizer::OptimizedExpr as O;
    let Ok((_, rules)) = pest_meta::parse_and_optimize(text) else { return false };
    fn walk(e: &O) -> bool {
        match e {
            O::NodeTag(inner, _) => matches!(**inner, O::Opt(_) | O::Rep(_)) || walk(inner),
            O::PosPred(i) | O::NegPred(i) | O::Opt(i) | O::Rep(i) | O::RepOnce(i) | O::Push(i) | O::RestoreOnErr(i) => walk(i),
            O::Seq(a, b) | O::Choice(a, b) => walk(a) || walk(b),
            _ => false,
        }
    }
    rules.iter().any(|r| walk(&r.expr))
}

#[cfg(not(feature = "grammar-extras"))]
fn tag_over_opt_or_rep(_text: &str) -> bool {
    false
}

pub fn batch_main(entries: &[Entry]) {
    let argv: Vec<String> = std::env::args().collect();
    let args = Args::parse(&argv);
    crate::pestrun::quiet_panics();
    let a2 = args.clone();
    let entries: Vec<(usize, fn(&str, &str) -> Option<Parsed>, fn(&str) -> Option<usize>)> = entries.iter().map(|e| (e.idx, e.parse, e.rule_index)).collect();
    std::thread::Builder::new()
        .stack_size(if cfg!(miri) { 1 << 22 } else { 1 << 30 })
        .spawn(move || run(&a2, &entries))
        .unwrap()
        .join()
        .unwrap();
}

fn run(args: &Args, entries: &[(usize, fn(&str, &str) -> Option<Parsed>, fn(&str) -> Option<usize>)]) {
    let mut rep = Report::new(args);
    let mode = args.opt("mode").unwrap_or("c02").to_string();
    let with_tags = cfg!(feature = "grammar-extras");
    let config = if with_tags { "grammar-extras" } else { "default" };
    let cases: Value = serde_json::from_str(&std::fs::read_to_string(args.opt("cases").expect("--cases")).expect("cases file")).expect("cases json");
    let only: Option<(usize, String, String)> = args.replay.as_ref().map(|p| {
        let v: Value = serde_json::from_str(&std::fs::read_to_string(p).expect("replay")).expect("json");
        let w = if v["witness"].is_object() { v["witness"].clone() } else { v };
        (w["grammar_index"].as_u64().unwrap_or(u64::MAX) as usize, w["rule"].as_str().unwrap_or("").to_string(), w["input"].as_str().unwrap_or("").to_string())
    });
    for g in cases["grammars"].as_array().unwrap() {
        let idx = g["idx"].as_u64().unwrap() as usize;
        let text = g["text"].as_str().unwrap();
        let Some((_, parse, rule_index)) = entries.iter().find(|e| e.0 == idx) else { continue };
        let optimized = match pest_meta::parse_and_optimize(text) {
            Ok((_, o)) => o,
            Err(_) => {
                rep.inconclusive(json!({"why":"grammar accepted at emit time is rejected now","grammar":text}));
                continue;
            }
        };
        let types: std::collections::HashMap<String, pest_meta::ast::RuleType> = optimized.iter().map(|r| (r.name.clone(), r.ty)).collect();
        let vm = pest_vm::Vm::new(optimized);
        rep.count("grammars");
        let family = g["family"].as_str().unwrap_or("");
        rep.count(&format!("family:{family}"));
        for rule in g["rules"].as_array().unwrap() {
            let rule = rule.as_str().unwrap();
            for input in g["inputs"].as_array().unwrap() {
                let input = input.as_str().unwrap();
                if let Some((gi, r, i)) = &only {
                    if *gi != idx || r != rule || i != input {
                        continue;
                    }
                }
                if rep.elapsed() > args.max_s {
                    rep.notes.insert("stopped_early".into(), json!(true));
                    rep.finish(args);
                    return;
                }
                rep.journal(|| json!({"grammar_index": idx, "grammar": text, "rule": rule, "input": input}));
                rep.count("evaluations");
                let record = mode == "c08";
                let (vm_side, _, _) = guarded(
                    || match vm.parse(rule, input) {
                        Ok(p) => Parsed::Ok { tags: tags_of(p.clone()), toks: toks_of(p, |r| r.to_string()) },
                        Err(e) => Parsed::Err(err_info(&e, |r| r.to_string())),
                    },
                    false,
                );
                let (dv_side, events, overflow) = guarded(|| parse(rule, input).expect("rule known to the generated parser"), record);
                if matches!(vm_side, Side::Limit) || matches!(dv_side, Side::Limit) {
                    rep.inconclusive(json!({"why":"call limit","grammar":text,"rule":rule,"input":input}));
                    continue;
                }
                let kind = match &dv_side {
                    Side::Res(Parsed::Ok { .. }) => "ok",
                    Side::Res(Parsed::Err(_)) => "err",
                    Side::Panic(_) => "panic",
                    Side::Limit => "limit",
                };
                rep.count(&format!("outcome:{kind}"));
                if mode == "c08" {
                    // the derive back-end's failure report, judged by the same offline checker
                    if let Side::Res(Parsed::Err(e)) = &dv_side {
                        if overflow || e.custom.is_some() {
                            continue;
                        }
                        rep.count("failing_parses_checked");
                        rep.add("events_recorded", events.len() as u64);
                        match crate::errcheck::activations(&events) {
                            Err(m) => rep.inconclusive(json!({"why": m})),
                            Ok(acts) => {
                                let mut problems = crate::errcheck::check(&acts, e, |l| l.windows(2).all(|w| rule_index(&w[0]) < rule_index(&w[1])));
                                problems.extend(crate::errcheck::check_atomicity(&events, &types));
                                if !problems.is_empty() {
                                    rep.violation(json!({"property":"C08","config":config,"backend":"derive","grammar_index":idx,"grammar":text,"rule":rule,"input":input,
                                        "expected": problems, "observed": {"pos": e.pos, "positives": e.positives, "negatives": e.negatives}}));
                                } else if acts.iter().filter(|a| a.qualifies().is_some()).count() >= 2 && !input.is_empty() {
                                    rep.nontrivial(hash_bytes(&[text.as_bytes(), rule.as_bytes(), input.as_bytes()]), hash_bytes(&[&[e.positives.len().min(5) as u8, e.negatives.len().min(5) as u8, (e.pos > 0) as u8]]));
                                    rep.sample_slot("derive", || json!({"backend":"derive","grammar": text, "rule": rule, "input": input, "reported": {"pos": e.pos, "positives": e.positives, "negatives": e.negatives}}));
                                }
                            }
                        }
                    }
                    continue;
                }
                if !input.is_empty() {
                    let ntoks = match &dv_side {
                        Side::Res(Parsed::Ok { toks, .. }) => toks.len(),
                        _ => 0,
                    };
                    if kind != "err" || input.len() >= 2 {
                        rep.nontrivial(hash_bytes(&[text.as_bytes(), rule.as_bytes(), input.as_bytes()]), hash_bytes(&[kind.as_bytes(), family.as_bytes(), &[ntoks.min(8) as u8]]));
                        rep.sample_slot(&format!("{family}:{kind}"), || json!({"family": family, "grammar": text, "rule": rule, "input": input, "both_backends": show(&dv_side, with_tags)}));
                    }
                }
                if same(&vm_side, &dv_side, with_tags) {
                    continue;
                }
                let w = json!({"property":"C02","config":config,"family":family,"grammar_index":idx,"grammar":text,"rule":rule,"input":input,
                    "expected": {"vm": show(&vm_side, with_tags)}, "observed": {"derive": show(&dv_side, with_tags)}});
                match explain(text, &vm_side, &dv_side, with_tags) {
                    Some(key) => rep.known_finding(key, w),
                    None => rep.violation(w),
                }
            }
        }
    }
    let _ = Outcome::NoMatch;
    rep.finish(args);
}
