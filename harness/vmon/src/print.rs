//! AST -> pest concrete syntax. Canonical mode (deterministic, minimal parentheses) and
//! spelling-fuzz mode (random legal whitespace/comments/escapes/redundant parentheses).

use crate::rng::Rng;
use pest_meta::ast::{Expr, Rule, RuleType};

pub struct Printer<'r> {
    rng: Option<&'r mut Rng>,
    pub out: String,
    /// probability (percent) of a redundant parenthesis in fuzz mode
    pub redundant_parens_pct: u32,
    /// allow whitespace/comment between `^` and the string (meta-grammar allows it)
    pub space_after_caret: bool,
}

/// precedence levels: 0 = choice, 1 = sequence, 2 = term (tag/prefix), 3 = postfix operand, 4 = atom
fn level(e: &Expr) -> u8 {
    match e {
        Expr::Choice(..) => 0,
        Expr::Seq(..) => 1,
        #[cfg(feature = "grammar-extras")]
        Expr::NodeTag(..) => 2,
        Expr::PosPred(_) | Expr::NegPred(_) => 2,
        Expr::Opt(_)
        | Expr::Rep(_)
        | Expr::RepOnce(_)
        | Expr::RepExact(..)
        | Expr::RepMin(..)
        | Expr::RepMax(..)
        | Expr::RepMinMax(..) => 3,
        _ => 4,
    }
}

impl<'r> Printer<'r> {
    pub fn canonical() -> Printer<'static> {
        Printer { rng: None, out: String::new(), redundant_parens_pct: 0, space_after_caret: false }
    }
    pub fn fuzz(rng: &'r mut Rng) -> Printer<'r> {
        Printer { rng: Some(rng), out: String::new(), redundant_parens_pct: 8, space_after_caret: true }
    }

    fn chance(&mut self, pct: u32) -> bool {
        match self.rng.as_mut() {
            Some(r) => r.chance(pct, 100),
            None => false,
        }
    }

    /// Optional separator at a token boundary. `canon` is what canonical mode prints.
    fn sep(&mut self, canon: &str) {
        if self.rng.is_none() {
            self.out.push_str(canon);
            return;
        }
        let n = {
            let r = self.rng.as_mut().unwrap();
            match r.below(10) {
                0..=3 => 0,
                4..=7 => 1,
                8 => 2,
                _ => 3,
            }
        };
        for _ in 0..n {
            self.one_ws();
        }
    }

    fn one_ws(&mut self) {
        let r = self.rng.as_mut().unwrap();
        let k = r.below(14);
        let s: String = match k {
            12 => "// a lone CR is not a line end:\r| \"nil\" ~ x\n".into(),
            13 => "/* \r */".into(),
            0..=4 => " ".into(),
            5 => "\t".into(),
            6 => "\n".into(),
            7 => "\r\n".into(),
            8 => "/* c */".into(),
            9 => "/* a /* nested */ b */".into(),
            10 => "// line | ~ \" ' {\n".into(),
            _ => "/**/".into(),
        };
        self.out.push_str(&s);
    }

    pub fn rules(mut self, rules: &[Rule]) -> String {
        if self.rng.is_some() && self.chance(30) {
            self.out.push_str("//! grammar doc\n");
            if self.chance(30) {
                self.out.push_str("//!second\n");
            }
        }
        for r in rules {
            self.sep("");
            if self.rng.is_some() && self.chance(20) {
                self.out.push_str("/// rule doc { } | ~\n");
                self.sep("");
            }
            self.rule(r);
            if self.rng.is_none() {
                self.out.push('\n');
            } else {
                // keep rules apart: an identifier may not touch the previous `}`; it may, actually
                self.sep("\n");
            }
        }
        self.out
    }

    fn rule(&mut self, r: &Rule) {
        self.out.push_str(&r.name);
        self.sep(" ");
        self.out.push('=');
        self.sep(" ");
        let m = match r.ty {
            RuleType::Normal => "",
            RuleType::Silent => "_",
            RuleType::Atomic => "@",
            RuleType::CompoundAtomic => "$",
            RuleType::NonAtomic => "!",
        };
        self.out.push_str(m);
        if !m.is_empty() {
            self.sep("");
        }
        self.out.push('{');
        self.sep(" ");
        if self.chance(10) {
            self.out.push('|');
            self.sep(" ");
        }
        self.expr(&r.expr, 0);
        self.sep(" ");
        self.out.push('}');
    }

    /// Prints `e` in a context that requires at least precedence `min`.
    pub fn expr(&mut self, e: &Expr, min: u8) {
        let need = level(e) < min;
        let extra = !need && self.chance(self.redundant_parens_pct);
        if need || extra {
            self.out.push('(');
            self.sep("");
            if self.chance(10) {
                self.out.push('|');
                self.sep(" ");
            }
            self.expr(e, 0);
            self.sep("");
            self.out.push(')');
            return;
        }
        match e {
            Expr::Choice(l, r) => {
                self.expr(l, 0);
                self.sep(" ");
                self.out.push('|');
                self.sep(" ");
                self.expr(r, 1);
            }
            Expr::Seq(l, r) => {
                self.expr(l, 1);
                self.sep(" ");
                self.out.push('~');
                self.sep(" ");
                self.expr(r, 2);
            }
            #[cfg(feature = "grammar-extras")]
            Expr::NodeTag(inner, tag) => {
                self.out.push('#');
                self.out.push_str(tag);
                self.sep(" ");
                self.out.push('=');
                self.sep(" ");
                // a tag wraps the whole term: prefix* node postfix*; a nested tag needs parens
                let lv = if matches!(**inner, Expr::NodeTag(..)) { 4 } else { 2 };
                self.expr(inner, lv);
            }
            Expr::PosPred(inner) | Expr::NegPred(inner) => {
                self.out.push(if matches!(e, Expr::PosPred(_)) { '&' } else { '!' });
                self.sep("");
                #[cfg(feature = "grammar-extras")]
                let lv = if matches!(**inner, Expr::NodeTag(..)) { 4 } else { 2 };
                #[cfg(not(feature = "grammar-extras"))]
                let lv = 2;
                self.expr(inner, lv);
            }
            Expr::Opt(i) => {
                self.expr(i, 3);
                self.sep("");
                self.out.push('?');
            }
            Expr::Rep(i) => {
                self.expr(i, 3);
                self.sep("");
                self.out.push('*');
            }
            Expr::RepOnce(i) => {
                self.expr(i, 3);
                self.sep("");
                self.out.push('+');
            }
            Expr::RepExact(i, n) => {
                self.expr(i, 3);
                self.sep("");
                self.out.push('{');
                self.sep("");
                self.number(*n);
                self.sep("");
                self.out.push('}');
            }
            Expr::RepMin(i, n) => {
                self.expr(i, 3);
                self.sep("");
                self.out.push('{');
                self.sep("");
                self.number(*n);
                self.sep("");
                self.out.push(',');
                self.sep("");
                self.out.push('}');
            }
            Expr::RepMax(i, n) => {
                self.expr(i, 3);
                self.sep("");
                self.out.push('{');
                self.sep("");
                self.out.push(',');
                self.sep("");
                self.number(*n);
                self.sep("");
                self.out.push('}');
            }
            Expr::RepMinMax(i, m, n) => {
                self.expr(i, 3);
                self.sep("");
                self.out.push('{');
                self.sep("");
                self.number(*m);
                self.sep("");
                self.out.push(',');
                self.sep(" ");
                self.number(*n);
                self.sep("");
                self.out.push('}');
            }
            Expr::Str(s) => self.string(s),
            Expr::Insens(s) => {
                self.out.push('^');
                if self.space_after_caret {
                    self.sep("");
                }
                self.string(s);
            }
            Expr::Range(a, b) => {
                self.character(a);
                self.sep("");
                self.out.push_str("..");
                self.sep("");
                self.character(b);
            }
            Expr::Ident(n) => self.out.push_str(n),
            Expr::PeekSlice(a, b) => {
                self.out.push_str("PEEK");
                self.sep("");
                self.out.push('[');
                self.sep("");
                if *a != 0 || self.chance(50) {
                    self.integer(*a);
                    self.sep("");
                }
                self.out.push_str("..");
                self.sep("");
                if let Some(b) = b {
                    self.integer(*b);
                    self.sep("");
                }
                self.out.push(']');
            }
            Expr::Push(i) => {
                self.out.push_str("PUSH");
                self.sep("");
                self.out.push('(');
                self.sep("");
                if self.chance(10) {
                    self.out.push('|');
                    self.sep(" ");
                }
                self.expr(i, 0);
                self.sep("");
                self.out.push(')');
            }
            #[cfg(feature = "grammar-extras")]
            Expr::PushLiteral(s) => {
                self.out.push_str("PUSH_LITERAL");
                self.sep("");
                self.out.push('(');
                self.sep("");
                self.string(s);
                self.sep("");
                self.out.push(')');
            }
            Expr::Skip(v) => {
                // not pest syntax; only used to show optimizer output to a reader
                self.out.push_str("<skip-until ");
                for (i, s) in v.iter().enumerate() {
                    if i > 0 {
                        self.out.push_str(" | ");
                    }
                    self.string(s);
                }
                self.out.push('>');
            }
        }
    }

    fn number(&mut self, n: u32) {
        // leading zeros are legal in `number`
        if self.chance(15) {
            self.out.push('0');
        }
        self.out.push_str(&n.to_string());
    }

    fn integer(&mut self, n: i32) {
        if n < 0 {
            self.out.push('-');
            if self.chance(15) {
                self.out.push('0');
            }
            self.out.push_str(&(-(n as i64)).to_string());
        } else {
            self.out.push_str(&n.to_string());
        }
    }

    fn string(&mut self, s: &str) {
        self.out.push('"');
        for c in s.chars() {
            self.ch(c, '"');
        }
        self.out.push('"');
    }

    fn character(&mut self, s: &str) {
        self.out.push('\'');
        for c in s.chars() {
            self.ch(c, '\'');
        }
        self.out.push('\'');
    }

    fn ch(&mut self, c: char, quote: char) {
        let must = c == quote || c == '\\';
        let fuzz = self.rng.is_some();
        let canon_escape = must || (c as u32) < 0x20 || c == '\u{7f}';
        if !fuzz {
            if canon_escape {
                self.escape(c, 0);
            } else {
                self.out.push(c);
            }
            return;
        }
        let k = self.rng.as_mut().unwrap().below(10);
        if must || k < 3 {
            let form = self.rng.as_mut().unwrap().below(3);
            self.escape(c, form);
        } else {
            self.out.push(c);
        }
    }

    /// form 0: shortest named escape if any, else \u; 1: \xHH when possible; 2: \u{...}
    fn escape(&mut self, c: char, form: usize) {
        let named = match c {
            '\n' => Some("\\n"),
            '\r' => Some("\\r"),
            '\t' => Some("\\t"),
            '\0' => Some("\\0"),
            '\\' => Some("\\\\"),
            '"' => Some("\\\""),
            '\'' => Some("\\'"),
            _ => None,
        };
        if form == 0 {
            if let Some(n) = named {
                self.out.push_str(n);
                return;
            }
        }
        let v = c as u32;
        if form == 1 && v <= 0xff {
            let upper = self.chance(50);
            if upper {
                self.out.push_str(&format!("\\x{:02X}", v));
            } else {
                self.out.push_str(&format!("\\x{:02x}", v));
            }
            return;
        }
        // \u{HH..HHHHHH}: 2 to 6 hex digits
        let digits = format!("{:x}", v);
        let min = digits.len().max(2);
        let width = if self.rng.is_some() {
            let r = self.rng.as_mut().unwrap();
            min + r.below(6 - min + 1)
        } else {
            min
        };
        let upper = self.chance(50);
        let body = if upper { format!("{:0w$X}", v, w = width) } else { format!("{:0w$x}", v, w = width) };
        self.out.push_str("\\u{");
        self.out.push_str(&body);
        self.out.push('}');
    }
}

pub fn rules_to_string(rules: &[Rule]) -> String {
    Printer::canonical().rules(rules)
}

pub fn expr_to_string(e: &Expr) -> String {
    let mut p = Printer::canonical();
    p.expr(e, 0);
    p.out
}

/// Printing that also renders `Expr::Skip` (which has no concrete syntax).
pub fn rules_to_string_lossy(rules: &[Rule]) -> String {
    Printer::canonical().rules(rules)
}
