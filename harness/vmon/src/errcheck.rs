//! Offline checker for C08: given the RuleEnter/RuleExit log of a failing parse (hook H1c) and
//! the error that was returned, decide each clause of the statement.

use crate::pestrun::ErrInfo;
use pest::verif::Event;

#[derive(Clone, Debug)]
pub struct Activation {
    pub rule: String,
    pub start: usize,
    pub enter_idx: usize,
    pub exit_idx: usize,
    pub ok: bool,
    /// the parser state's own lookahead flag at exit (not used for the verdict)
    pub lookahead: u8,
    pub atomicity: u8,
    /// polarity derived from the log: inside an odd number of negative predicates
    pub under_negation: bool,
    pub in_lookahead: bool,
}

pub const LOOKAHEAD_NEGATIVE: u8 = 1;
pub const ATOMIC: u8 = 0;

impl Activation {
    /// Reportable and (failed, or matched under negation).
    pub fn qualifies(&self) -> Option<bool> {
        if self.atomicity == ATOMIC {
            return None;
        }
        // polarity comes from the nesting of the lookahead calls in the log, not from the state's own flag
        if !self.ok && !self.under_negation {
            Some(false) // positive ("expected")
        } else if self.ok && self.under_negation {
            Some(true) // negative ("unexpected")
        } else {
            None
        }
    }
}

fn strip(s: &str) -> String {
    s.trim_matches('"').to_string()
}

/// Rebuilds the activations, in exit order. Err = the log is not well nested (a hook problem).
pub fn activations(events: &[Event]) -> Result<Vec<Activation>, String> {
    let mut open: Vec<(String, usize, usize, bool, bool)> = vec![];
    let mut out = vec![];
    let mut looks: Vec<bool> = vec![];
    for (i, e) in events.iter().enumerate() {
        match e {
            Event::LookaheadEnter { positive } => looks.push(*positive),
            Event::LookaheadExit => {
                looks.pop();
            }
            Event::RuleEnter { rule, pos, .. } => {
                let negs = looks.iter().filter(|p| !**p).count();
                open.push((strip(rule), *pos, i, negs % 2 == 1, !looks.is_empty()))
            }
            Event::RuleExit { rule, ok, start, lookahead, atomicity, .. } => {
                let Some((r, p, ei, under_negation, in_lookahead)) = open.pop() else { return Err(format!("exit of {rule} without enter at event {i}")) };
                if r != strip(rule) || p != *start {
                    return Err(format!("exit of {rule}@{start} does not match open {r}@{p}"));
                }
                out.push(Activation { rule: r, start: p, enter_idx: ei, exit_idx: i, ok: *ok, lookahead: *lookahead, atomicity: *atomicity, under_negation, in_lookahead });
            }
            _ => {}
        }
    }
    // activations still open when the parse was abandoned are not exits; ignore them
    Ok(out)
}

#[derive(Clone, Debug, PartialEq, Eq)]
pub struct Expected {
    pub pos: usize,
    pub positives: Vec<String>,
    pub negatives: Vec<String>,
}

/// The statement's fold: at the furthest position, a qualifying activation is reported in place
/// of what was recorded inside its own extent unless exactly one entry was recorded there.
/// `count_distinct`: the ambiguous reading where "exactly one such rule" counts distinct rules.
pub fn fold(acts: &[Activation], count_distinct: bool) -> Expected {
    let mut cur_pos = 0usize;
    // (rule, negative, index of the exit event that recorded it)
    let mut entries: Vec<(String, bool, usize)> = vec![];
    for a in acts {
        let Some(neg) = a.qualifies() else { continue };
        if a.start > cur_pos {
            cur_pos = a.start;
            entries.clear();
        }
        if a.start < cur_pos {
            continue;
        }
        let inner: Vec<usize> = entries.iter().enumerate().filter(|(_, e)| e.2 > a.enter_idx).map(|(i, _)| i).collect();
        let n_inner = if count_distinct {
            let mut names: Vec<(&str, bool)> = inner.iter().map(|i| (entries[*i].0.as_str(), entries[*i].1)).collect();
            names.sort();
            names.dedup();
            names.len()
        } else {
            inner.len()
        };
        if n_inner == 1 {
            continue;
        }
        entries.retain(|e| e.2 <= a.enter_idx);
        entries.push((a.rule.clone(), neg, a.exit_idx));
    }
    let mut positives: Vec<String> = entries.iter().filter(|e| !e.1).map(|e| e.0.clone()).collect();
    let mut negatives: Vec<String> = entries.iter().filter(|e| e.1).map(|e| e.0.clone()).collect();
    positives.sort();
    positives.dedup();
    negatives.sort();
    negatives.dedup();
    Expected { pos: cur_pos, positives, negatives }
}

/// Checks every clause; returns the list of violated clauses (empty = holds).
/// `sorted_ok(list)` decides clause 3 under the rule type's own order.
pub fn check(acts: &[Activation], err: &ErrInfo, sorted_ok: impl Fn(&[String]) -> bool) -> Vec<String> {
    let mut problems = vec![];
    // (1) furthest qualifying position
    let furthest = acts.iter().filter(|a| a.qualifies().is_some()).map(|a| a.start).max().unwrap_or(0);
    if err.pos != furthest {
        problems.push(format!("clause 1: reported position {} but the furthest position at which a reportable rule failed (or matched under negation) is {}", err.pos, furthest));
    }
    // (2) soundness of each listed rule
    for r in &err.positives {
        if !acts.iter().any(|a| a.start == err.pos && &a.rule == r && a.qualifies() == Some(false)) {
            problems.push(format!("clause 2: rule {r} is listed as expected but no reportable activation of it failed at {}", err.pos));
        }
    }
    for r in &err.negatives {
        if !acts.iter().any(|a| a.start == err.pos && &a.rule == r && a.qualifies() == Some(true)) {
            problems.push(format!("clause 2: rule {r} is listed as unexpected but no reportable activation of it matched under negation at {}", err.pos));
        }
    }
    // (3) sorted, no duplicates
    if !sorted_ok(&err.positives) || !sorted_ok(&err.negatives) {
        problems.push("clause 3: a list is not strictly sorted".to_string());
    }
    // (4) the exact lists
    let mut got_p = err.positives.clone();
    let mut got_n = err.negatives.clone();
    got_p.sort();
    got_n.sort();
    let f1 = fold(acts, false);
    let f2 = fold(acts, true);
    let matches = |f: &Expected| f.positives == got_p && f.negatives == got_n;
    if err.pos == furthest && !matches(&f1) && !matches(&f2) {
        problems.push(format!(
            "clause 4: expected positives {:?} negatives {:?} (a failing rule replaces what was tried inside it at the same position unless exactly one was), got positives {:?} negatives {:?}",
            f1.positives, f1.negatives, got_p, got_n
        ));
    }
    problems
}

/// "Not inside an atomic rule's interior" is a fact about the grammar, not about what the parser
/// state happens to hold: recompute, from the rule modifiers alone, the atomicity every rule must be
/// entered with, and compare with what the state had at that entry.
///
/// Model (what `@`, `$`, `!` are documented to do; silent rules write no events and change nothing):
/// a `$` rule is entered compound-atomic and a `!` rule non-atomic; every other rule is entered with
/// the interior atomicity of the innermost open rule, which is atomic for `@`, compound-atomic for
/// `$`, non-atomic for `!`, inherited for a normal rule, and atomic inside WHITESPACE / COMMENT of
/// whatever modifier except `$` (their bodies never skip). The start rule's surroundings are
/// non-atomic. When the grammar has a silent WHITESPACE or COMMENT, its (invisible) interior is
/// atomic, so an atomic entry is accepted wherever it is seen.
pub fn check_atomicity(events: &[Event], types: &std::collections::HashMap<String, pest_meta::ast::RuleType>) -> Vec<String> {
    use pest_meta::ast::RuleType as T;
    const AT: u8 = 0;
    const CA: u8 = 1;
    const NA: u8 = 2;
    let silent_skip = ["WHITESPACE", "COMMENT"].iter().any(|n| types.get(*n) == Some(&T::Silent));
    let mut problems = vec![];
    // interior atomicity of the open activations
    let mut open: Vec<u8> = vec![];
    for e in events {
        match e {
            Event::RuleEnter { rule, atomicity, pos, .. } => {
                let name = strip(rule);
                let Some(ty) = types.get(&name) else {
                    // a built-in that goes through `rule()` (e.g. EOI): entered as it is, changes nothing
                    open.push(open.last().copied().unwrap_or(NA));
                    continue;
                };
                let parent = open.last().copied().unwrap_or(NA);
                let expected_entry = match ty {
                    T::CompoundAtomic => CA,
                    T::NonAtomic => NA,
                    _ => parent,
                };
                if *atomicity != expected_entry && !(silent_skip && *atomicity == AT) && problems.len() < 3 {
                    let nm = |a: u8| ["atomic", "compound-atomic", "non-atomic"].get(a as usize).copied().unwrap_or("?");
                    problems.push(format!(
                        "atomicity: rule {name} was entered at {pos} in {} mode, but the rule modifiers of the open rules dictate {} (so whether it is reportable was decided wrongly)",
                        nm(*atomicity), nm(expected_entry)
                    ));
                }
                let skip_rule = name == "WHITESPACE" || name == "COMMENT";
                let interior = match ty {
                    T::Atomic => AT,
                    T::CompoundAtomic => CA,
                    _ if skip_rule => AT,
                    T::NonAtomic => NA,
                    _ => expected_entry,
                };
                open.push(interior);
            }
            Event::RuleExit { .. } => {
                open.pop();
            }
            _ => {}
        }
    }
    problems
}
